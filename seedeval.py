#!/usr/bin/env python3
"""seedeval.py <property> <dir with patch.diff/demo/meta.json> <seed-name>

1. confirms the seeded change in a scratch worktree of /repo (outside /repo and /verif):
   it applies, builds, the existing suite passes, the demonstration fails with it and passes without;
2. applies it to /repo, runs the property's quick check (and, if that stays silent, the other
   checks listed with --also), undoes it;
3. stores patch, demonstration and meta.json under /verif/seeded/<seed-name>/.
"""
import json, os, re, shutil, subprocess, sys, time, argparse

ENV = dict(os.environ, GOFLAGS="-mod=mod", GOPROXY="off", GOSUMDB="off", GOTOOLCHAIN="local")


def sh(cmd, cwd=None, timeout=1800):
    p = subprocess.run(cmd, shell=True, cwd=cwd, env=ENV, capture_output=True, text=True, timeout=timeout, errors="replace")
    return p.returncode, p.stdout + p.stderr


def suite(wt):
    """existing suite, run in a private network namespace (the runtime suite binds fixed ports)"""
    ns = "unshare -n sh -c 'ip link set lo up; %s'"
    rc, out = sh(ns % "go build ./... && go build -tags verif ./... && go test -vet=off -count=1 ./...", cwd=os.path.join(wt, "lib/go"))
    if rc != 0:
        return False, "lib/go suite: " + out[-1500:]
    rc, out = sh("go build ./... && go test -vet=off -count=1 ./compiler/...", cwd=wt)
    if rc != 0:
        return False, "compiler suite: " + out[-1500:]
    return True, "ok"

def suite_unused(wt):
    """existing suite; retries the runtime part on the fixed-port NATS flake"""
    out_all = ""
    for attempt in range(6):
        rc, out = sh("go build ./... && go build -tags verif ./... && go test -vet=off -count=1 ./...", cwd=os.path.join(wt, "lib/go"))
        out_all = out
        if rc == 0 or "Unable to start NATS Server" not in out and "address already in use" not in out:
            break
        time.sleep(3)
    if rc != 0:
        return False, "lib/go suite: " + out_all[-1500:]
    rc, out = sh("go build ./... && go test -vet=off -count=1 ./compiler/...", cwd=wt)
    if rc != 0:
        return False, "compiler suite: " + out[-1500:]
    return True, "ok"


def demo_place(src_dir, wt):
    """returns (command, cwd, cleanup paths)"""
    demo_go = [f for f in os.listdir(src_dir) if f.endswith("_test.go")]
    if os.path.exists(os.path.join(src_dir, "demo.sh")):
        demo_go = []  # the script drives the demonstration (it may use a test file of its own)
    if demo_go:
        placed = []
        cwd = None
        for f in demo_go:
            txt = open(os.path.join(src_dir, f)).read()
            m = re.search(r"^package\s+(\w+)", txt, re.M)
            pkg = m.group(1) if m else "frugal"
            sub = {"frugal": "lib/go", "frugal_test": "lib/go", "compiler": "compiler", "compiler_test": "compiler", "parser": "compiler/parser",
                   "parser_test": "compiler/parser", "golang": "compiler/generator/golang", "python": "compiler/generator/python",
                   "java": "compiler/generator/java", "dartlang": "compiler/generator/dartlang", "html": "compiler/generator/html",
                   "json": "compiler/generator/json", "main": ".", "globals": "compiler/globals", "generator": "compiler/generator"}.get(pkg, "lib/go")
            dst = os.path.join(wt, sub, "zz_seed_" + f)
            shutil.copy(os.path.join(src_dir, f), dst)
            placed.append(dst)
            cwd = os.path.join(wt, sub)
        names = set()
        for f in demo_go:
            names.update(re.findall(r"^func (Test\w+)\(", open(os.path.join(src_dir, f)).read(), re.M))
        run = "^(" + "|".join(sorted(names)) + ")$"
        return f"go test -tags verif -vet=off -count=1 -timeout 600s -run '{run}' .", cwd, placed
    if os.path.exists(os.path.join(src_dir, "demo.sh")):
        return f"REPO={wt} WT={wt} sh {os.path.join(src_dir, 'demo.sh')} {wt}", wt, []
    return None, None, []


def main():
    ap = argparse.ArgumentParser()
    ap.add_argument("prop")
    ap.add_argument("src")
    ap.add_argument("name")
    ap.add_argument("--also", default="", help="comma separated other properties whose checks to run as well")
    ap.add_argument("--tier", default="quick")
    ap.add_argument("--skip-confirm", action="store_true")
    a = ap.parse_args()
    patch = os.path.join(a.src, "patch.diff")
    meta = {}
    try:
        meta = json.load(open(os.path.join(a.src, "meta.json")))
    except Exception as e:
        meta = {"note": f"agent meta.json unreadable: {e}"}
    result = {"property": a.prop, "seed": a.name, "agent_meta": meta, "ran": []}
    wt = f"/tmp/wtc/{a.name}"
    ok_all = True
    if not a.skip_confirm:
        sh(f"git -C /repo worktree remove --force {wt}")
        shutil.rmtree(wt, ignore_errors=True)
        os.makedirs("/tmp/wtc", exist_ok=True)
        rc, out = sh(f"git -C /repo worktree add -q --detach {wt} HEAD")
        if rc != 0:
            print("cannot create worktree:", out)
            return 2
        try:
            rc, out = sh(f"git apply --3way {patch} || git apply {patch}", cwd=wt)
            result["ran"].append({"cmd": "git apply patch.diff (scratch worktree at /repo HEAD)", "rc": rc})
            if rc != 0:
                print("PATCH DOES NOT APPLY to current HEAD:\n", out[-800:])
                result["confirmed"] = False
                ok_all = False
            else:
                ok, msg = suite(wt)
                result["ran"].append({"cmd": "existing suite with the change", "ok": ok, "detail": msg[-400:]})
                print("suite with change:", "PASS" if ok else "FAIL " + msg[-600:])
                ok_all &= ok
                cmd, cwd, placed = demo_place(a.src, wt)
                if cmd:
                    rc1, out1 = sh(cmd, cwd=cwd)
                    print("demo with change   :", "fails (as required)" if rc1 != 0 else "PASSES (not a demonstration)")
                    result["ran"].append({"cmd": cmd + "  [with change]", "rc": rc1, "tail": out1[-600:]})
                    sh(f"git apply -R {patch}", cwd=wt)
                    rc2, out2 = sh(cmd, cwd=cwd)
                    print("demo without change:", "passes (as required)" if rc2 == 0 else "FAILS " + out2[-600:])
                    result["ran"].append({"cmd": cmd + "  [without change]", "rc": rc2, "tail": out2[-300:]})
                    ok_all &= (rc1 != 0 and rc2 == 0)
                else:
                    print("no demonstration found")
                    ok_all = False
                result["confirmed"] = ok_all
        finally:
            sh(f"git -C /repo worktree remove --force {wt}")
            shutil.rmtree(wt, ignore_errors=True)
    # ---- run our checks against the change
    import fcntl
    os.makedirs("/tmp/wtc", exist_ok=True)
    lockf = open("/tmp/wtc/repo.lock", "w")
    fcntl.flock(lockf, fcntl.LOCK_EX)  # /repo is patched from here on: one evaluation (or other user of /repo) at a time
    rc, out = sh("git status --porcelain", cwd="/repo")
    if out.strip():
        print("REFUSING: /repo is not clean:\n", out)
        return 2
    detected = {}
    # evidence files describe runs on the unchanged tree: keep them out of these runs
    ev_backup = f"/tmp/wtc/evidence-backup-{a.name}"
    shutil.rmtree(ev_backup, ignore_errors=True)
    os.makedirs("/tmp/wtc", exist_ok=True)
    shutil.copytree("/verif/evidence", ev_backup)
    try:
        rc, out = sh(f"git apply {patch}", cwd="/repo")
        if rc != 0:
            print("patch does not apply to /repo:", out[-500:])
            return 2
        for prop in [a.prop] + [p for p in a.also.split(",") if p]:
            t0 = time.time()
            rc, out = sh(f"python3 run.py {prop} --tier {a.tier}", cwd="/verif", timeout=7200)
            sigs = re.findall(r"^--- violation sig=(.*)$", out, re.M)
            detected[prop] = {"exit": rc, "signatures": sigs, "wall_s": round(time.time() - t0, 1)}
            print(f"check {prop} ({a.tier}): exit {rc} {sigs}")
            # failures found against a seeded change are not regression inputs
            shutil.rmtree(os.path.join("/verif/replay", prop, "found"), ignore_errors=True)
    finally:
        sh("git checkout -- . && git clean -fdq", cwd="/repo")
        shutil.rmtree("/verif/evidence", ignore_errors=True)
        shutil.copytree(ev_backup, "/verif/evidence")
        shutil.rmtree(ev_backup, ignore_errors=True)
        fcntl.flock(lockf, fcntl.LOCK_UN)
    result["detected"] = detected
    result["caught"] = any(v["exit"] == 1 for v in detected.values())
    dst = os.path.join("/verif/seeded", a.name)
    os.makedirs(dst, exist_ok=True)
    if a.skip_confirm:
        # keep the record of the confirmation done earlier
        try:
            prev = json.load(open(os.path.join(dst, "meta.json")))
            if prev.get("confirmed_in_scratch_worktree") is not None:
                result["confirmed"] = prev["confirmed_in_scratch_worktree"]
                result["ran"] = prev.get("what_was_run", []) + [{"note": "checks re-run later against the final harness (confirmation above not repeated)"}]
        except Exception:
            pass
    for f in os.listdir(a.src):
        if f != "meta.json":
            shutil.copy(os.path.join(a.src, f), os.path.join(dst, f))
    json.dump({"breaks_property": a.prop, "needs": meta.get("needs"), "summary": meta.get("summary"), "what_was_run": result["ran"],
               "confirmed_in_scratch_worktree": result.get("confirmed"), "checks": detected, "caught": result["caught"], "agent_meta": meta},
              open(os.path.join(dst, "meta.json"), "w"), indent=1)
    print("CAUGHT" if result["caught"] else "MISSED", "confirmed" if result.get("confirmed") else "NOT-CONFIRMED")
    return 0


if __name__ == "__main__":
    sys.exit(main())
