# Well-formedness peer. Line protocol: one JSON request per line
#   {"kind": "py", "dir": D}    -> parse every .py file below D with this interpreter's parser
#   {"kind": "html", "dir": D}  -> check every .html file: tags balanced, no stray close tags
# answers {"files": n, "errors": k, "first": "..."}.
# Run under python3 for py / py:asyncio / html and under python2.7 for py:tornado (and vanilla py).
import sys, os, json
try:
    from html.parser import HTMLParser
except ImportError:
    from HTMLParser import HTMLParser

VOID = set("area base br col embed hr img input link meta param source track wbr".split())

class Balance(HTMLParser):
    def __init__(self):
        HTMLParser.__init__(self)
        self.stack = []
        self.problem = None
    def handle_starttag(self, tag, attrs):
        if tag not in VOID:
            self.stack.append(tag)
    def handle_startendtag(self, tag, attrs):
        pass
    def handle_endtag(self, tag):
        if tag in VOID:
            return
        if not self.stack:
            self.problem = self.problem or ("close tag </%s> without open tag at %s" % (tag, self.getpos(),))
            return
        if self.stack[-1] != tag:
            self.problem = self.problem or ("</%s> closes <%s> at %s" % (tag, self.stack[-1], self.getpos(),))
            # recover: pop up to the matching tag if present
            if tag in self.stack:
                while self.stack and self.stack[-1] != tag:
                    self.stack.pop()
                self.stack.pop()
            return
        self.stack.pop()

def walk(d, ext):
    for root, _, files in os.walk(d):
        for f in sorted(files):
            if f.endswith(ext):
                yield os.path.join(root, f)

def main():
    for line in iter(sys.stdin.readline, ''):
        req = json.loads(line)
        n = errors = 0
        first = ""
        try:
            if req["kind"] == "pyeval":
                class _Self(object):
                    pass
                env = dict((k, v) for k, v in req["vars"].items() if "." not in k)
                me = _Self()
                me._DELIMITER = req["vars"].get("self._DELIMITER", "")
                env["self"] = me
                for l in req["lines"]:
                    exec(l, {}, env)
                sys.stdout.write(json.dumps({"files": 0, "errors": 0, "first": "", "topic": env["topic"]}) + "\n")
                sys.stdout.flush()
                continue
            if req["kind"] == "py":
                for p in walk(req["dir"], ".py"):
                    n += 1
                    with open(p, "rb") as fh:
                        src = fh.read()
                    try:
                        compile(src, p, "exec", dont_inherit=True)
                    except SyntaxError as e:
                        errors += 1
                        first = first or "%s:%s: %s" % (p, e.lineno, e.msg)
            else:
                for p in walk(req["dir"], ".html"):
                    n += 1
                    with open(p, "rb") as fh:
                        src = fh.read().decode("utf-8", "replace")
                    b = Balance()
                    b.feed(src)
                    b.close()
                    prob = b.problem or (("unclosed tags %s" % b.stack) if b.stack else None)
                    if prob:
                        errors += 1
                        first = first or "%s: %s" % (p, prob)
        except Exception as e:
            errors += 1
            first = first or "peer error: %r" % (e,)
        sys.stdout.write(json.dumps({"files": n, "errors": errors, "first": first}) + "\n")
        sys.stdout.flush()

main()
