# Differential peer for C04. Line protocol on stdin/stdout (JSON per line).
#  mode "headers" (python3): loads /repo/lib/python/frugal/util/headers.py from the
#     working tree (stubbing only thrift.protocol.TProtocol.TProtocolException, the
#     one missing import) and answers
#       {"op":"read","hex":H}            -> _Headers._read(BytesIO(H))
#       {"op":"decode_from_frame","hex":H} -> _Headers.decode_from_frame(H)
#       {"op":"write","pairs":[[k,v],..]} -> hex(_Headers._write_to_bytearray(dict))
#  mode "frame_parser" (python2.7): imports /repo/contrib/frame_parser.py and answers
#       {"op":"parse","hex":H} -> parse_string(H) accepted? + parse_v0_protocol(H[5:])
import sys, json, binascii, io, types, os

mode = sys.argv[1]
repo = sys.argv[2] if len(sys.argv) > 2 else '/repo'

def out(o):
    sys.stdout.write(json.dumps(o) + "\n")
    sys.stdout.flush()

if mode == 'headers':
    import importlib.util
    thrift = types.ModuleType('thrift'); proto = types.ModuleType('thrift.protocol')
    tp = types.ModuleType('thrift.protocol.TProtocol')
    class TProtocolException(Exception):
        UNKNOWN = 0; INVALID_DATA = 1; NEGATIVE_SIZE = 2; SIZE_LIMIT = 3; BAD_VERSION = 4
        def __init__(self, type=0, message=None):
            Exception.__init__(self, message); self.type = type
    tp.TProtocolException = TProtocolException
    sys.modules['thrift'] = thrift; sys.modules['thrift.protocol'] = proto
    sys.modules['thrift.protocol.TProtocol'] = tp
    import logging; logging.disable(logging.CRITICAL)
    spec = importlib.util.spec_from_file_location('frugal_headers', os.path.join(repo, 'lib/python/frugal/util/headers.py'))
    mod = importlib.util.module_from_spec(spec); spec.loader.exec_module(mod)
    H = mod._Headers
    for line in sys.stdin:
        req = json.loads(line)
        try:
            if req['op'] == 'read':
                b = io.BytesIO(binascii.unhexlify(req['hex']))
                h = H._read(b)
                out({'ok': True, 'pairs': sorted([[k, v] for k, v in h.items()]), 'rest': binascii.hexlify(b.read()).decode()})
            elif req['op'] == 'decode_from_frame':
                h = H.decode_from_frame(binascii.unhexlify(req['hex']))
                out({'ok': True, 'pairs': sorted([[k, v] for k, v in h.items()])})
            elif req['op'] == 'write':
                d = dict((k, v) for k, v in req['pairs'])
                out({'ok': True, 'hex': binascii.hexlify(bytes(H._write_to_bytearray(d))).decode()})
            else:
                out({'ok': False, 'err': 'bad op'})
        except BaseException as e:
            out({'ok': False, 'err': '%s: %s' % (type(e).__name__, e)})
else:
    import imp, StringIO
    fp = imp.load_source('frame_parser', os.path.join(repo, 'contrib/frame_parser.py'))
    for line in iter(sys.stdin.readline, ''):
        req = json.loads(line)
        try:
            frame = binascii.unhexlify(req['hex'])
            old = sys.stdout; sys.stdout = StringIO.StringIO()
            try:
                try:
                    fp.parse_string(frame, print_payload=True)
                    accepted = True
                except SystemExit:
                    accepted = False
                printed = sys.stdout.getvalue()
            finally:
                sys.stdout = old
            if accepted:
                headers, payload = fp.parse_v0_protocol(frame[5:])
                out({'ok': True, 'pairs': sorted([[binascii.hexlify(k), binascii.hexlify(v)] for k, v in headers.items()]),
                     'payload': binascii.hexlify(payload), 'printed_len': len(printed)})
            else:
                out({'ok': False, 'err': printed.strip()})
        except BaseException as e:
            out({'ok': False, 'err': '%s: %s' % (type(e).__name__, e)})
