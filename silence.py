#!/usr/bin/env python3
"""silence.py [--tier quick|thorough] [--par N] seed...  — runs every registered check at the given
VERIF_SEED values, N at a time (machine loaded), and reports every non-zero exit."""
import subprocess, sys, os, time, concurrent.futures as cf, argparse
sys.path.insert(0, "/verif")
from checks import CHECKS
ap = argparse.ArgumentParser()
ap.add_argument("--tier", default="quick")
ap.add_argument("--par", type=int, default=3)
ap.add_argument("--props", default="")
ap.add_argument("seeds", nargs="+")
a = ap.parse_args()
props = [p for p in sorted(CHECKS) if not a.props or p in a.props.split(",")]
bad = []
def one(prop, seed):
    t0 = time.time()
    env = dict(os.environ, VERIF_SEED=str(seed), VERIF_TIER=a.tier)
    p = subprocess.run(["python3", "/verif/run.py", prop, "--tier", a.tier], env=env, capture_output=True, text=True)
    return prop, seed, p.returncode, time.time() - t0, p.stdout + p.stderr
for seed in a.seeds:
    with cf.ThreadPoolExecutor(max_workers=a.par) as ex:
        for prop, seed, rc, wall, out in ex.map(lambda pr: one(pr, seed), props):
            line = [l for l in out.splitlines() if l.startswith(f"[{prop}]")]
            print(f"seed={seed} {prop} exit={rc} wall={wall:.0f}s {line[-1][:110] if line else ''}", flush=True)
            if rc != 0:
                bad.append((prop, seed, rc))
                os.makedirs("/tmp/silence", exist_ok=True)
                open(f"/tmp/silence/{prop}-{seed}.log", "w").write(out)
print("NON-ZERO:", bad)
