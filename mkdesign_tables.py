#!/usr/bin/env python3
"""Regenerates the machine-written tables of DESIGN.md (between BEGIN/END markers) from
known_findings.json and seeded/*/meta.json."""
import json, os, re
V = "/verif"
BAR = "\\|"

def esc(t):
    return t.replace("|", BAR)
kf = json.load(open(f"{V}/known_findings.json"))

def fixes():
    out = ["| property | commit | what failed before the repair |", "|---|---|---|"]
    for l in kf["lines"]:
        m = re.match(r"fixed: property=(\S+) (\S+) (.*)", l)
        if m:
            out.append(f"| {m.group(1)} | `{m.group(2)}` | {esc(m.group(3))} |")
    return "\n".join(out)

def known():
    out = ["| property | id (reproducer: `known/<id>.json`) | what fails |", "|---|---|---|"]
    for x in kf["findings"]:
        if x.get("state") == "known":
            out.append(f"| {x['property']} | `{x['id']}` | {esc(x['what'])} |")
    return "\n".join(out)

def seeded():
    out = ["| change | what it does (as described by its author) | needs | caught by (quick tier) |", "|---|---|---|---|"]
    for d in sorted(os.listdir(f"{V}/seeded")):
        p = f"{V}/seeded/{d}/meta.json"
        if not os.path.exists(p):
            continue
        m = json.load(open(p))
        summ = (m.get("summary") or "").replace("\n", " ")
        needs = (m.get("needs") or "").replace("\n", " ")
        if len(summ) > 330:
            summ = summ[:327] + "…"
        if len(needs) > 260:
            needs = needs[:257] + "…"
        caught = []
        for prop, r in (m.get("checks") or {}).items():
            if r.get("exit") == 1:
                sigs = sorted(set(re.sub(r"[:(].*", "", s) if s.startswith("go-typecheck") else s for s in r.get("signatures", [])))
                caught.append(f"{prop}: " + ", ".join(f"`{s}`" for s in sigs[:3]))
            else:
                caught.append(f"{prop}: silent")
        out.append(f"| {d} | {esc(summ)} | {esc(needs)} | {'; '.join(caught)} |")
    return "\n".join(out)

s = open(f"{V}/DESIGN.md").read()
for name, fn in (("FIXES", fixes), ("KNOWN", known), ("SEEDED", seeded)):
    s = re.sub(rf"(<!-- BEGIN {name} -->\n).*?(<!-- END {name} -->)", lambda m: m.group(1) + fn() + "\n" + m.group(2), s, flags=re.S)
open(f"{V}/DESIGN.md", "w").write(s)
