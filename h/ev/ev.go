// Package ev is the evidence / failure plumbing shared by every check.
//
// A check is a pure function from a JSON-serialisable case to an optional
// Failure. Cases are drawn by rapid; every evaluation is classified
// (non-trivial?, distinct key, labels) and counted; the last failing case of
// a check (after rapid's shrinking, that is the minimal one) is written out
// so that run.py can turn it into a replay file which bypasses rapid.
package ev

import (
	"crypto/sha256"
	"encoding/binary"
	"encoding/json"
	"fmt"
	"os"
	"sort"
	"strings"
	"sync"
	"time"

	"pgregory.net/rapid"
)

// Failure describes a property violation found on one case.
type Failure struct {
	Sig string `json:"sig"` // stable, short signature (root-cause class)
	Msg string `json:"msg"` // human readable detail
}

func Failf(sig, format string, a ...interface{}) *Failure {
	return &Failure{Sig: sig, Msg: fmt.Sprintf(format, a...)}
}

// Class is the classification of one case.
type Class struct {
	NonTrivial bool
	Key        string   // identity of the case for distinct counting
	Labels     []string // coverage labels
}

type checkStats struct {
	Evaluations int            `json:"evaluations"`
	NonTrivial  int            `json:"nontrivial"`
	Labels      map[string]int `json:"labels"`
	Samples     []interface{}  `json:"samples"`
	Extra       map[string]int `json:"extra,omitempty"`
	hashes      map[uint64]struct{}
	failed      bool
}

type failureRec struct {
	Check string          `json:"check"`
	Sig   string          `json:"sig"`
	Msg   string          `json:"msg"`
	Case  json.RawMessage `json:"case"`
}

var (
	mu        sync.Mutex
	stats     = map[string]*checkStats{}
	failures  = map[string]*failureRec{}
	replayers = map[string]func(json.RawMessage) *Failure{}
	maxSample = 6
)

func get(name string) *checkStats {
	s := stats[name]
	if s == nil {
		s = &checkStats{Labels: map[string]int{}, hashes: map[uint64]struct{}{}, Extra: map[string]int{}}
		stats[name] = s
	}
	return s
}

func hash64(s string) uint64 {
	h := sha256.Sum256([]byte(s))
	return binary.BigEndian.Uint64(h[:8])
}

// Record counts one evaluated case.
func Record(name string, c Class, sample func() interface{}) {
	mu.Lock()
	defer mu.Unlock()
	s := get(name)
	if s.failed {
		return // shrinking re-executions are not coverage
	}
	s.Evaluations++
	for _, l := range c.Labels {
		s.Labels[l]++
	}
	if c.NonTrivial {
		s.NonTrivial++
		h := hash64(c.Key)
		if _, dup := s.hashes[h]; !dup {
			s.hashes[h] = struct{}{}
			// keep a few samples: the first ones and then sparsely
			n := len(s.hashes)
			if sample != nil && (len(s.Samples) < maxSample/2 || (len(s.Samples) < maxSample && n%97 == 0)) {
				s.Samples = append(s.Samples, sample())
			}
		}
	}
}

// MergeStats folds statistics produced by another process (the generated-code
// bed's test binary) into this process's evidence.
func MergeStats(name string, evaluations, nontrivial int, labels map[string]int, samples []interface{}, extra map[string]int, hashes []string) {
	mu.Lock()
	defer mu.Unlock()
	s := get(name)
	s.Evaluations += evaluations
	s.NonTrivial += nontrivial
	for k, v := range labels {
		s.Labels[k] += v
	}
	for k, v := range extra {
		s.Extra[k] += v
	}
	for _, x := range samples {
		if len(s.Samples) < maxSample {
			s.Samples = append(s.Samples, x)
		}
	}
	for _, h := range hashes {
		var v uint64
		fmt.Sscanf(h, "%x", &v)
		s.hashes[v] = struct{}{}
	}
}

// Count adds to a free-form counter of a check (e.g. excluded hazards).
func Count(name, counter string, n int) {
	mu.Lock()
	defer mu.Unlock()
	get(name).Extra[counter] += n
}

// RecordFailure remembers the failing case of a check; later calls overwrite
// earlier ones, so after shrinking the minimal case is what remains.
func RecordFailure(name string, f *Failure, c interface{}) {
	raw, err := json.Marshal(c)
	if err != nil {
		raw = []byte(fmt.Sprintf("%q", fmt.Sprintf("unserialisable case: %v", err)))
	}
	mu.Lock()
	get(name).failed = true
	failures[name] = &failureRec{Check: name, Sig: f.Sig, Msg: f.Msg, Case: raw}
	mu.Unlock()
	flushLocked() // a crash later must not lose it
}

// Register makes a check replayable by name.
func Register(name string, fn func([]byte) *Failure) {
	replayers[name] = func(r json.RawMessage) *Failure { return fn([]byte(r)) }
}

// Prop builds a rapid property from generator, checker and classifier and
// registers a replayer for it.
func Prop[C any](name string, gen func(*rapid.T) C, check func(C) *Failure, classify func(C) Class, sample func(C) interface{}) func(*rapid.T) {
	Register(name, func(raw []byte) *Failure {
		var c C
		if err := json.Unmarshal(raw, &c); err != nil {
			return Failf("harness:bad-replay", "cannot decode case: %v", err)
		}
		return check(c)
	})
	return func(t *rapid.T) {
		c := gen(t)
		cl := classify(c)
		pending(name, c)
		Record(name, cl, func() interface{} {
			if sample != nil {
				return sample(c)
			}
			return c
		})
		f := check(c)
		// a harness-side resource shortage (no free port, too many open files) says nothing about
		// the property: wait and retry the same case, and if it persists count the case as skipped
		for try := 0; f != nil && transient(f) && try < 5; try++ {
			Count(name, "harness-retry", 1)
			time.Sleep(time.Duration(300*(try+1)) * time.Millisecond)
			f = check(c)
		}
		if f != nil && transient(f) {
			Count(name, "inconclusive:harness-resource", 1)
			return
		}
		if f != nil {
			RecordFailure(name, f, c)
			t.Fatalf("[%s] %s: %s", name, f.Sig, f.Msg)
		}
	}
}

func transient(f *Failure) bool {
	if !strings.HasPrefix(f.Sig, "harness:") {
		return false
	}
	for _, m := range []string{"address already in use", "too many open files", "cannot assign requested address", "resource temporarily unavailable"} {
		if strings.Contains(f.Msg, m) {
			return true
		}
	}
	return false
}

// pending writes the case about to be executed to $VERIF_OUT.pending, so that
// a crash of the whole test binary (panic on a runtime goroutine, fatal error)
// can be attributed to the case that was running.
func pending(name string, c interface{}) {
	path := os.Getenv("VERIF_OUT")
	if path == "" {
		return
	}
	raw, err := json.Marshal(c)
	if err != nil {
		return
	}
	b, _ := json.Marshal(failureRec{Check: name, Sig: "crash", Msg: "test binary died while executing this case", Case: raw})
	os.WriteFile(path+".pending", b, 0o644)
}

// Replay runs the replay file named by path; returns (check name, failure).
func Replay(path string) (string, *Failure, error) {
	b, err := os.ReadFile(path)
	if err != nil {
		return "", nil, err
	}
	var r failureRec
	if err := json.Unmarshal(b, &r); err != nil {
		return "", nil, err
	}
	fn := replayers[r.Check]
	if fn == nil {
		return r.Check, nil, fmt.Errorf("no replayer registered for %q", r.Check)
	}
	return r.Check, fn(r.Case), nil
}

type outFile struct {
	Checks   map[string]*checkStats `json:"checks"`
	Hashes   map[string][]string    `json:"hashes"`
	Failures []*failureRec          `json:"failures"`
}

func flushLocked() {
	mu.Lock()
	defer mu.Unlock()
	path := os.Getenv("VERIF_OUT")
	if path == "" {
		return
	}
	o := outFile{Checks: stats, Hashes: map[string][]string{}}
	for n, s := range stats {
		hs := make([]string, 0, len(s.hashes))
		for h := range s.hashes {
			hs = append(hs, fmt.Sprintf("%016x", h))
		}
		sort.Strings(hs)
		o.Hashes[n] = hs
	}
	names := make([]string, 0, len(failures))
	for n := range failures {
		names = append(names, n)
	}
	sort.Strings(names)
	for _, n := range names {
		o.Failures = append(o.Failures, failures[n])
	}
	b, _ := json.Marshal(o)
	tmp := path + ".tmp"
	if os.WriteFile(tmp, b, 0o644) == nil {
		os.Rename(tmp, path)
	}
}

// Flush writes the evidence of this process to $VERIF_OUT.
func Flush() {
	flushLocked()
	if path := os.Getenv("VERIF_OUT"); path != "" {
		os.Remove(path + ".pending")
	}
}

// ---- native fuzzing support -------------------------------------------------
//
// Go's fuzz workers are separate processes that are killed without notice, so the
// in-memory statistics above are of no use there. A fuzz target calls FuzzCase:
// the case is written to $VERIF_FUZZ_DIR/pending-<pid>.json before it runs (a worker
// that dies leaves it behind), a failure is written to $VERIF_FUZZ_DIR/fail-<hash>.json
// as an ordinary replay record. run.py reads both; execution counts come from the
// fuzzing engine's own log.
func FuzzCase[C any](name string, c C, check func(C) *Failure) *Failure {
	dir := os.Getenv("VERIF_FUZZ_DIR")
	raw, err := json.Marshal(c)
	if err != nil {
		return nil
	}
	var pend string
	if dir != "" {
		pend = fmt.Sprintf("%s/pending-%d.json", dir, os.Getpid())
		b, _ := json.Marshal(failureRec{Check: name, Sig: "crash", Msg: "fuzz worker died while executing this case", Case: raw})
		os.WriteFile(pend, b, 0o644)
	}
	f := check(c)
	if f != nil && transient(f) {
		f = nil
	}
	if dir != "" {
		if f != nil {
			b, _ := json.Marshal(failureRec{Check: name, Sig: f.Sig, Msg: f.Msg, Case: raw})
			h := sha256.Sum256(raw)
			os.WriteFile(fmt.Sprintf("%s/fail-%x.json", dir, h[:6]), b, 0o644)
		}
		os.Remove(pend)
	}
	return f
}
