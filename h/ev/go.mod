module verif/ev

go 1.23

toolchain go1.23.5

require pgregory.net/rapid v1.3.0
