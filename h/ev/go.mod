module verif/ev

go 1.20

require pgregory.net/rapid v1.3.0
