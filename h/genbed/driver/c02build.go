package driver

// C02, second leg — values that were constructed in Go (not obtained from Read):
// a filled-in New<T>() value, a fresh New<T>() value (IDL defaults), and a value read from
// an encoding that omits default-requiredness fields.

import (
	"bytes"
	"fmt"
	"math"
	"reflect"
	"strings"
	"testing"

	"github.com/apache/thrift/lib/go/thrift"
	"pgregory.net/rapid"
	"verif/ev"
	idl "verif/idl"
)

type C02BuildCase struct {
	Struct     int    `json:"struct"`
	Name       string `json:"name"`
	Proto      string `json:"proto"`
	Mode       string `json:"mode"` // built | fresh | defaulted-read
	Tree       *Node  `json:"tree"`
	NilEmpties bool   `json:"nil_empties,omitempty"` // built: empty binary/containers of non-optional fields stay nil
	Drop       []int  `json:"drop,omitempty"`        // defaulted-read: ids of default-requiredness fields left out of the encoding
}

func isStructKind(k string) bool { return k == "struct" || k == "union" || k == "exception" }

func GenC02Build(t *rapid.T) C02BuildCase {
	if len(Structs) == 0 {
		t.Skip("no structs registered")
	}
	c := C02BuildCase{}
	c.Struct = rapid.IntRange(0, len(Structs)-1).Draw(t, "struct")
	sb := Structs[c.Struct]
	p := Programs[sb.Prog].Model
	c.Name = fmt.Sprintf("p%d:%s", sb.Prog, sb.IDLName)
	c.Proto = rapid.SampledFrom(Protos).Draw(t, "proto")
	c.Mode = rapid.SampledFrom([]string{"built", "built", "fresh", "defaulted-read"}).Draw(t, "mode")
	c.Tree = GenStructTree(t, p, sb.Decl, 0)
	c.NilEmpties = rapid.Bool().Draw(t, "nilempties")
	if c.Mode == "defaulted-read" {
		for _, f := range sb.Decl.Fields {
			if f.Req == "" && sb.Decl.Kind != "union" && !isStructKind(p.KindOf(f.Type)) && rapid.Bool().Draw(t, "drop") {
				c.Drop = append(c.Drop, f.ID)
			}
		}
	}
	return c
}

// zeroNode is what a Go zero value of the type looks like on the wire.
func zeroNode(p *idl.Program, ty *idl.Type) *Node {
	n := &Node{T: wireType(p, ty)}
	r := p.Resolve(ty)
	switch n.T {
	case thrift.STRING:
		n.Bin = r.Kind == "base" && r.Name == "binary"
	case thrift.LIST, thrift.SET:
		n.ET = wireType(p, r.Val)
	case thrift.MAP:
		n.KT, n.VT = wireType(p, r.Key), wireType(p, r.Val)
	}
	return n
}

// valueNode turns a declared default / constant value into the wire tree it must produce.
func valueNode(p *idl.Program, ty *idl.Type, v *idl.Value) (*Node, error) {
	n := zeroNode(p, ty)
	r := p.Resolve(ty)
	switch n.T {
	case thrift.BOOL:
		n.B = v.B || v.Kind == "int" && v.I != 0
	case thrift.BYTE, thrift.I16, thrift.I64:
		n.I = v.I
	case thrift.I32:
		n.I = v.I
		if v.Kind == "ident" {
			d := p.Decl(r.File, r.Name)
			if d == nil || d.Kind != "enum" {
				return nil, fmt.Errorf("identifier default %q for a non-enum type", v.Ident)
			}
			member := v.Ident[strings.LastIndex(v.Ident, ".")+1:]
			found := false
			for _, ev := range d.EnumValues {
				if ev.Name == member {
					n.I, found = int64(ev.Value), true
				}
			}
			if !found {
				return nil, fmt.Errorf("enum %s has no member %s", d.Name, member)
			}
		}
	case thrift.DOUBLE:
		f := v.D
		if v.Kind == "int" {
			f = float64(v.I)
		}
		n.DB = math.Float64bits(f)
	case thrift.STRING:
		n.S = []byte(v.S)
	case thrift.LIST, thrift.SET:
		for _, e := range v.L {
			en, err := valueNode(p, r.Val, e)
			if err != nil {
				return nil, err
			}
			n.Elems = append(n.Elems, en)
		}
	case thrift.MAP:
		for _, kv := range v.M {
			kn, err := valueNode(p, r.Key, kv[0])
			if err != nil {
				return nil, err
			}
			vn, err := valueNode(p, r.Val, kv[1])
			if err != nil {
				return nil, err
			}
			n.Keys = append(n.Keys, kn)
			n.Elems = append(n.Elems, vn)
		}
	default:
		return nil, fmt.Errorf("no wire form for a default of kind %s", v.Kind)
	}
	return n, nil
}

func ClassifyC02Build(c C02BuildCase) ev.Class {
	sb := Structs[c.Struct]
	p := Programs[sb.Prog].Model
	labels := []string{"proto=" + c.Proto, "mode=" + c.Mode, "decl=" + sb.Decl.Kind}
	defaults := 0
	for _, f := range sb.Decl.Fields {
		if f.Default != nil {
			defaults++
			labels = append(labels, "default:"+p.KindOf(f.Type))
		}
	}
	if c.NilEmpties && c.Mode == "built" {
		labels = append(labels, "nil-empties")
	}
	nt := c.Mode == "built" && len(c.Tree.Fields) > 0 || defaults > 0
	return ev.Class{NonTrivial: nt, Key: fmt.Sprintf("%s|%s|%s|%s|%s|%v|%v", Programs[sb.Prog].Hash, sb.IDLName, c.Proto, c.Mode, c.Tree.Canon(), c.NilEmpties, c.Drop), Labels: uniqStr(labels)}
}

func fieldOf(n *Node, id int) *Node {
	for _, f := range n.Fields {
		if int(f.ID) == id {
			return f.Val
		}
	}
	return nil
}

func CheckC02Build(c C02BuildCase) *ev.Failure {
	if c.Struct >= len(Structs) {
		return ev.Failf("harness:bad-case", "struct index %d out of range", c.Struct)
	}
	sb := Structs[c.Struct]
	p := Programs[sb.Prog].Model
	d := sb.Decl
	pf := ProtoFactory(c.Proto)
	what := fmt.Sprintf("%s %s (program %d) over %s, %s value", d.Kind, sb.IDLName, sb.Prog, c.Proto, c.Mode)
	ctx := func() string { return "\n--- tree: " + c.Tree.Canon() + "\n" + programText(sb.Prog) }
	for _, f := range d.Fields {
		// a nil struct pointer in a non-optional field is not a value the generated API can write
		if c.Mode != "built" && f.Req != "optional" && d.Kind != "union" && isStructKind(p.KindOf(f.Type)) && c.Mode == "fresh" {
			return nil
		}
	}
	if c.Mode == "fresh" && d.Kind == "union" {
		return nil
	}
	write := func(obj thrift.TStruct) (*Node, *ev.Failure) {
		out := thrift.NewTMemoryBuffer()
		opr := pf.GetProtocol(out)
		var err error
		if pn := catchPanic(func() {
			if err = obj.Write(bg, opr); err == nil {
				err = opr.Flush(bg)
			}
		}); pn != "" {
			return nil, ev.Failf("write-panic", "%s: Write panicked: %s%s", what, pn, ctx())
		}
		if err != nil {
			return nil, ev.Failf("write-error", "%s: Write failed: %v%s", what, err, ctx())
		}
		rb := &thrift.TMemoryBuffer{Buffer: bytes.NewBuffer(append([]byte{}, out.Bytes()...))}
		back, rerr := ReadTreeHint(pf.GetProtocol(rb), thrift.STRUCT, 0, SchemaOfDecl(p, d, 0))
		if rerr != nil {
			return nil, ev.Failf("write-malformed", "%s: what Write emitted cannot be parsed as a struct: %v%s", what, rerr, ctx())
		}
		return back, nil
	}
	// what the IDL says a non-optional field holds when nobody set it
	unsetValue := func(f idl.Field) (*Node, error) {
		if f.Default != nil {
			return valueNode(p, f.Type, f.Default)
		}
		return zeroNode(p, f.Type), nil
	}

	switch c.Mode {
	case "built":
		obj := sb.New()
		ov := reflect.ValueOf(obj).Elem()
		if err := FillFromTree(p, d, ov, c.Tree); err != nil {
			return ev.Failf("go-representation", "%s: %v%s", what, err, ctx())
		}
		if c.NilEmpties {
			for _, f := range d.Fields {
				fn := fieldOf(c.Tree, f.ID)
				if fn == nil || f.Req == "optional" || d.Kind == "union" {
					continue
				}
				empty := fn.T == thrift.STRING && fn.Bin && len(fn.S) == 0 || (fn.T == thrift.LIST || fn.T == thrift.SET || fn.T == thrift.MAP) && len(fn.Elems) == 0
				if i, ok := goFieldOf(ov.Type(), d, f.ID); ok && empty && isNilable(ov.Field(i).Kind()) {
					ov.Field(i).Set(reflect.Zero(ov.Field(i).Type()))
				}
			}
		}
		back, f := write(obj)
		if f != nil {
			return f
		}
		if back.Canon() != c.Tree.Canon() {
			return ev.Failf("write-mismatch", "%s: a value built in Go is written with field ids / wire types / values that differ from the declaration (required and default fields always present, optional iff set)\n   expected: %s\n   written : %s%s", what, c.Tree.Canon(), back.Canon(), ctx())
		}
	case "fresh", "defaulted-read":
		var obj thrift.TStruct = sb.New()
		dropped := map[int]bool{}
		if c.Mode == "defaulted-read" {
			enc := &Node{T: thrift.STRUCT}
			for _, id := range c.Drop {
				dropped[id] = true
			}
			for _, f := range c.Tree.Fields {
				if !dropped[int(f.ID)] {
					enc.Fields = append(enc.Fields, f)
				}
			}
			buf := thrift.NewTMemoryBuffer()
			pr := pf.GetProtocol(buf)
			WriteTree(pr, enc)
			pr.Flush(bg)
			var err error
			if pn := catchPanic(func() {
				err = obj.Read(bg, pf.GetProtocol(&thrift.TMemoryBuffer{Buffer: bytes.NewBuffer(buf.Bytes())}))
			}); pn != "" {
				return ev.Failf("read-panic", "%s: Read panicked: %s%s", what, pn, ctx())
			}
			if err != nil {
				return ev.Failf("conforming-encoding-rejected", "%s: Read rejects an encoding that only omits default-requiredness fields %v: %v%s", what, c.Drop, err, ctx())
			}
		}
		back, f := write(obj)
		if f != nil {
			return f
		}
		for _, fl := range d.Fields {
			got := fieldOf(back, fl.ID)
			absentFromInput := c.Mode == "fresh" || dropped[fl.ID]
			if d.Kind == "union" || !absentFromInput {
				continue
			}
			if fl.Req == "optional" {
				if got != nil && fl.Default == nil {
					return ev.Failf("unset-optional-written", "%s: optional field %d (%s) was never set but is written%s", what, fl.ID, fl.Name, ctx())
				}
				continue
			}
			if got == nil {
				return ev.Failf("non-optional-field-missing", "%s: field %d (%s) is %s and must always be written, it is missing from the output\n   written: %s%s", what, fl.ID, fl.Name, map[string]string{"": "default-requiredness", "required": "required"}[fl.Req], back.Canon(), ctx())
			}
			want, err := unsetValue(fl)
			if err != nil {
				return ev.Failf("harness:default", "%s: field %d: %v", what, fl.ID, err)
			}
			if got.Canon() != want.Canon() {
				return ev.Failf("default-value-differs", "%s: field %d (%s) was never set; the IDL gives it %s, the generated code writes %s%s", what, fl.ID, fl.Name, want.Canon(), got.Canon(), ctx())
			}
		}
	}
	return nil
}

var C02BuildProp = ev.Prop("c02.constructed", GenC02Build, CheckC02Build, ClassifyC02Build, func(c C02BuildCase) interface{} {
	return map[string]interface{}{"type": c.Name, "proto": c.Proto, "mode": c.Mode, "tree": c.Tree.Canon(), "nil_empties": c.NilEmpties, "dropped": c.Drop}
})

func RunC02Build(t *testing.T) { rapid.Check(t, C02BuildProp) }
