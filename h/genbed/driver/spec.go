package driver

// The IDL -> wire mapping, stated over (model declaration, reflected Go value):
// what a conforming encoder must write. Also the rapid value generators that
// fill generated Go types guided by the model.

import (
	"fmt"
	"math"
	"reflect"
	"strconv"
	"strings"

	"github.com/apache/thrift/lib/go/thrift"
	"pgregory.net/rapid"
	idl "verif/idl"
)

type specErr struct{ msg string }

func (e *specErr) Error() string { return e.msg }

func specf(format string, a ...interface{}) error { return &specErr{fmt.Sprintf(format, a...)} }

// goFieldOf finds the Go struct field of IDL field f: by its `thrift:"name,id..."`
// tag, or — for slim output, which has no tags — by position in the declaration.
func goFieldOf(st reflect.Type, d *idl.Decl, id int) (int, bool) {
	if i, ok := goFieldByID(st, id); ok {
		return i, true
	}
	for i := 0; i < st.NumField(); i++ {
		if st.Field(i).Tag.Get("thrift") != "" {
			return 0, false // tagged struct without that id
		}
	}
	if st.NumField() != len(d.Fields) {
		return 0, false
	}
	for i, f := range d.Fields {
		if f.ID == id {
			return i, true
		}
	}
	return 0, false
}

// goFieldByID finds the Go struct field carrying `thrift:"name,id..."`.
func goFieldByID(st reflect.Type, id int) (int, bool) {
	for i := 0; i < st.NumField(); i++ {
		tag := st.Field(i).Tag.Get("thrift")
		parts := strings.Split(tag, ",")
		if len(parts) >= 2 {
			if n, err := strconv.Atoi(parts[1]); err == nil && n == id {
				return i, true
			}
		}
	}
	return 0, false
}

func wireType(p *idl.Program, t *idl.Type) thrift.TType {
	switch p.KindOf(t) {
	case "base":
		switch p.Resolve(t).Name {
		case "bool":
			return thrift.BOOL
		case "byte", "i8":
			return thrift.BYTE
		case "i16":
			return thrift.I16
		case "i32":
			return thrift.I32
		case "i64":
			return thrift.I64
		case "double":
			return thrift.DOUBLE
		case "string", "binary":
			return thrift.STRING
		}
	case "enum":
		return thrift.I32
	case "struct", "union", "exception":
		return thrift.STRUCT
	case "list":
		return thrift.LIST
	case "set":
		return thrift.SET
	case "map":
		return thrift.MAP
	}
	return thrift.STOP
}

func deref(v reflect.Value) (reflect.Value, bool) {
	for v.Kind() == reflect.Ptr || v.Kind() == reflect.Interface {
		if v.IsNil() {
			return v, false
		}
		v = v.Elem()
	}
	return v, true
}

// ExpectValue computes the wire tree of a Go value of IDL type t.
func ExpectValue(p *idl.Program, t *idl.Type, v reflect.Value) (*Node, error) {
	v, ok := deref(v)
	wt := wireType(p, t)
	n := &Node{T: wt}
	r := p.Resolve(t)
	if !ok {
		if wt == thrift.STRUCT {
			return nil, specf("nil struct pointer where a value is required")
		}
		return nil, specf("nil pointer for a value of type %s", t.String())
	}
	switch wt {
	case thrift.BOOL:
		if v.Kind() != reflect.Bool {
			return nil, specf("IDL bool is represented by Go kind %s", v.Kind())
		}
		n.B = v.Bool()
	case thrift.BYTE, thrift.I16, thrift.I32, thrift.I64:
		switch v.Kind() {
		case reflect.Int, reflect.Int8, reflect.Int16, reflect.Int32, reflect.Int64:
			n.I = v.Int()
		default:
			return nil, specf("IDL integer/enum type %s is represented by Go kind %s", t.String(), v.Kind())
		}
	case thrift.DOUBLE:
		if v.Kind() != reflect.Float64 {
			return nil, specf("IDL double is represented by Go kind %s", v.Kind())
		}
		n.DB = math.Float64bits(v.Float())
	case thrift.STRING:
		switch {
		case v.Kind() == reflect.String:
			n.S = []byte(v.String())
		case v.Kind() == reflect.Slice && v.Type().Elem().Kind() == reflect.Uint8:
			n.S = append([]byte{}, v.Bytes()...)
			n.Bin = true
		default:
			return nil, specf("IDL %s is represented by Go kind %s", r.Name, v.Kind())
		}
	case thrift.STRUCT:
		d := p.Decl(r.File, r.Name)
		if d == nil {
			return nil, specf("no declaration for %s", r.Name)
		}
		return ExpectStruct(p, d, v)
	case thrift.LIST:
		if v.Kind() != reflect.Slice {
			return nil, specf("IDL list is represented by Go kind %s", v.Kind())
		}
		n.ET = wireType(p, r.Val)
		for i := 0; i < v.Len(); i++ {
			e, err := ExpectValue(p, r.Val, v.Index(i))
			if err != nil {
				return nil, err
			}
			n.Elems = append(n.Elems, e)
		}
	case thrift.SET:
		n.ET = wireType(p, r.Val)
		switch v.Kind() {
		case reflect.Map:
			for _, k := range v.MapKeys() {
				e, err := ExpectValue(p, r.Val, k)
				if err != nil {
					return nil, err
				}
				n.Elems = append(n.Elems, e)
			}
		case reflect.Slice:
			for i := 0; i < v.Len(); i++ {
				e, err := ExpectValue(p, r.Val, v.Index(i))
				if err != nil {
					return nil, err
				}
				n.Elems = append(n.Elems, e)
			}
		default:
			return nil, specf("IDL set is represented by Go kind %s", v.Kind())
		}
	case thrift.MAP:
		if v.Kind() != reflect.Map {
			return nil, specf("IDL map is represented by Go kind %s", v.Kind())
		}
		n.KT, n.VT = wireType(p, r.Key), wireType(p, r.Val)
		for _, k := range v.MapKeys() {
			kn, err := ExpectValue(p, r.Key, k)
			if err != nil {
				return nil, err
			}
			vn, err := ExpectValue(p, r.Val, v.MapIndex(k))
			if err != nil {
				return nil, err
			}
			n.Keys = append(n.Keys, kn)
			n.Elems = append(n.Elems, vn)
		}
	default:
		return nil, specf("no wire type for IDL type %s", t.String())
	}
	return n, nil
}

func isNilable(k reflect.Kind) bool {
	return k == reflect.Ptr || k == reflect.Slice || k == reflect.Map || k == reflect.Interface
}

// ExpectStruct: required and default fields always present, optional present iff set,
// exactly the declared ids and wire types.
func ExpectStruct(p *idl.Program, d *idl.Decl, v reflect.Value) (*Node, error) {
	v, ok := deref(v)
	if !ok {
		return nil, specf("nil %s", d.Name)
	}
	if v.Kind() != reflect.Struct {
		return nil, specf("%s is represented by Go kind %s", d.Name, v.Kind())
	}
	n := &Node{T: thrift.STRUCT}
	for _, f := range d.Fields {
		i, ok := goFieldOf(v.Type(), d, f.ID)
		if !ok {
			return nil, specf("%s: no Go field carries the thrift tag of field %d (%s)", d.Name, f.ID, f.Name)
		}
		fv := v.Field(i)
		optional := f.Req == "optional" || d.Kind == "union"
		if optional && !isNilable(fv.Kind()) {
			// Thrift-Go's documented convention for an optional scalar with a default: a plain
			// value which counts as set iff it differs (Go's !=) from the default
			if f.Default == nil {
				return nil, specf("%s: optional field %d (%s) is a Go %s, which cannot express \"unset\"", d.Name, f.ID, f.Name, fv.Kind())
			}
			dn, err := valueNode(p, f.Type, f.Default)
			if err != nil {
				return nil, specf("%s field %d (%s): default: %v", d.Name, f.ID, f.Name, err)
			}
			val, err := ExpectValue(p, f.Type, fv)
			if err != nil {
				return nil, specf("%s field %d (%s): %v", d.Name, f.ID, f.Name, err)
			}
			same := val.Canon() == dn.Canon()
			if val.T == thrift.DOUBLE {
				same = val.Float() == dn.Float()
			}
			if !same {
				n.Fields = append(n.Fields, FieldNode{int16(f.ID), val})
			}
			continue
		}
		if optional {
			if fv.IsNil() {
				continue
			}
		}
		val, err := ExpectValue(p, f.Type, fv)
		if err != nil {
			return nil, specf("%s field %d (%s): %v", d.Name, f.ID, f.Name, err)
		}
		n.Fields = append(n.Fields, FieldNode{int16(f.ID), val})
	}
	return n, nil
}

// ---- model-driven generation of wire trees (the cases), and their
// materialisation as Go values through reflection (FromTree)

var doubles = []float64{0, 1, -1, 1.5, -2.25, 1e10, 1e-10, math.MaxFloat64, -math.MaxFloat64, math.SmallestNonzeroFloat64, math.Inf(1), math.Inf(-1)}

func sizeAt(depth int) int {
	if depth >= 2 {
		return 2
	}
	return 5
}

// GenTree draws a value of IDL type ty as a wire tree.
func GenTree(t *rapid.T, p *idl.Program, ty *idl.Type, depth int) *Node {
	wt := wireType(p, ty)
	n := &Node{T: wt}
	r := p.Resolve(ty)
	switch p.KindOf(ty) {
	case "base":
		switch r.Name {
		case "bool":
			n.B = rapid.Bool().Draw(t, "bool")
		case "byte", "i8":
			n.I = int64(rapid.Int8().Draw(t, "i8"))
		case "i16":
			n.I = int64(rapid.Int16().Draw(t, "i16"))
		case "i32":
			n.I = int64(rapid.Int32().Draw(t, "i32"))
		case "i64":
			n.I = rapid.Int64().Draw(t, "i64")
		case "double":
			d := rapid.SampledFrom(doubles).Draw(t, "double")
			if rapid.Bool().Draw(t, "anydouble") {
				d = rapid.Float64().Draw(t, "f64")
			}
			if d == 0 {
				d = 0 // no negative zero: JSON/text protocols need not keep its sign
			}
			n.DB = math.Float64bits(d)
		case "string":
			n.S = []byte(rapid.StringOfN(rapid.RuneFrom([]rune("abcXYZ019 _-./\"'\\\n\tàéλ水😀")), 0, 8, -1).Draw(t, "string"))
		case "binary":
			n.S = rapid.SliceOfN(rapid.Byte(), 0, 8).Draw(t, "binary")
			n.Bin = true
			if n.S == nil {
				n.S = []byte{}
			}
		}
	case "enum":
		d := p.Decl(r.File, r.Name)
		if d != nil && len(d.EnumValues) > 0 && rapid.IntRange(0, 4).Draw(t, "declared") != 0 {
			n.I = int64(d.EnumValues[rapid.IntRange(0, len(d.EnumValues)-1).Draw(t, "ev")].Value)
		} else {
			n.I = int64(rapid.Int32().Draw(t, "enumany"))
		}
	case "struct", "union", "exception":
		return GenStructTree(t, p, p.Decl(r.File, r.Name), depth+1)
	case "list":
		n.ET = wireType(p, r.Val)
		for i, k := 0, rapid.IntRange(0, sizeAt(depth)).Draw(t, "len"); i < k; i++ {
			n.Elems = append(n.Elems, GenTree(t, p, r.Val, depth+1))
		}
	case "set":
		n.ET = wireType(p, r.Val)
		seen := map[string]bool{}
		for i, k := 0, rapid.IntRange(0, sizeAt(depth)).Draw(t, "len"); i < k; i++ {
			e := GenTree(t, p, r.Val, depth+1)
			if c := e.Canon(); !seen[c] {
				seen[c] = true
				n.Elems = append(n.Elems, e)
			}
		}
	case "map":
		n.KT, n.VT = wireType(p, r.Key), wireType(p, r.Val)
		seen := map[string]bool{}
		for i, k := 0, rapid.IntRange(0, sizeAt(depth)).Draw(t, "len"); i < k; i++ {
			key := GenTree(t, p, r.Key, depth+1)
			if c := key.Canon(); !seen[c] {
				seen[c] = true
				n.Keys = append(n.Keys, key)
				n.Elems = append(n.Elems, GenTree(t, p, r.Val, depth+1))
			}
		}
	}
	return n
}

// GenStructTree draws a conforming encoding of declaration d: required and
// default fields present, optional ones present or not, exactly one arm of a union.
func GenStructTree(t *rapid.T, p *idl.Program, d *idl.Decl, depth int) *Node {
	n := &Node{T: thrift.STRUCT}
	if d == nil {
		return n
	}
	chosen := -1
	if d.Kind == "union" && len(d.Fields) > 0 {
		chosen = rapid.IntRange(0, len(d.Fields)-1).Draw(t, "arm")
	}
	for fi, f := range d.Fields {
		optional := f.Req == "optional" || d.Kind == "union"
		if d.Kind == "union" {
			if fi != chosen {
				continue
			}
		} else if optional && !rapid.Bool().Draw(t, "set?") {
			continue
		}
		val := GenTree(t, p, f.Type, depth)
		if val.T == thrift.DOUBLE && f.Default != nil && rapid.IntRange(0, 2).Draw(t, "near-default") == 0 {
			// a value next to the declared default without being it (presence of an optional field
			// with a default is decided by comparing with the default)
			if dn, err := valueNode(p, f.Type, f.Default); err == nil && dn != nil && dn.T == thrift.DOUBLE {
				def := dn.Float()
				near := []float64{math.Nextafter(def, math.Inf(1)), math.Nextafter(def, math.Inf(-1)), def + 1e-12, def - 1e-10, def + 1e-9, def * (1 + 1e-15)}
				d := rapid.SampledFrom(near).Draw(t, "near")
				if d == 0 {
					d = 0
				}
				val.DB = math.Float64bits(d)
			}
		}
		if optional && d.Kind != "union" && f.Default != nil {
			// an optional scalar holding its default counts as unset (Thrift-Go's convention): such a
			// value is the same case as "absent", so it is not drawn as "present"
			if dn, err := valueNode(p, f.Type, f.Default); err == nil && dn != nil {
				if val.Canon() == dn.Canon() || val.T == thrift.DOUBLE && val.Float() == dn.Float() {
					continue
				}
			}
		}
		n.Fields = append(n.Fields, FieldNode{int16(f.ID), val})
	}
	return n
}

// FromTree builds a Go value of type gt from a wire tree (by reflection only;
// no generated code is involved).
func FromTree(p *idl.Program, ty *idl.Type, gt reflect.Type, n *Node) (reflect.Value, error) {
	if gt.Kind() == reflect.Ptr {
		inner, err := FromTree(p, ty, gt.Elem(), n)
		if err != nil {
			return reflect.Value{}, err
		}
		pv := reflect.New(gt.Elem())
		pv.Elem().Set(inner)
		return pv, nil
	}
	v := reflect.New(gt).Elem()
	r := p.Resolve(ty)
	switch n.T {
	case thrift.BOOL:
		v.SetBool(n.B)
	case thrift.BYTE, thrift.I16, thrift.I32, thrift.I64:
		v.SetInt(n.I)
	case thrift.DOUBLE:
		v.SetFloat(n.Float())
	case thrift.STRING:
		if gt.Kind() == reflect.String {
			v.SetString(string(n.S))
		} else {
			v.SetBytes(append([]byte{}, n.S...))
		}
	case thrift.STRUCT:
		d := p.Decl(r.File, r.Name)
		if d == nil || gt.Kind() != reflect.Struct {
			return v, specf("cannot build %s from a struct tree", gt)
		}
		if err := FillFromTree(p, d, v, n); err != nil {
			return v, err
		}
	case thrift.LIST:
		s := reflect.MakeSlice(gt, 0, len(n.Elems))
		for _, e := range n.Elems {
			ev, err := FromTree(p, r.Val, gt.Elem(), e)
			if err != nil {
				return v, err
			}
			s = reflect.Append(s, ev)
		}
		v.Set(s)
	case thrift.SET:
		if gt.Kind() == reflect.Map {
			m := reflect.MakeMap(gt)
			for _, e := range n.Elems {
				ev, err := FromTree(p, r.Val, gt.Key(), e)
				if err != nil {
					return v, err
				}
				m.SetMapIndex(ev, reflect.ValueOf(true).Convert(gt.Elem()))
			}
			v.Set(m)
		} else {
			s := reflect.MakeSlice(gt, 0, len(n.Elems))
			for _, e := range n.Elems {
				ev, err := FromTree(p, r.Val, gt.Elem(), e)
				if err != nil {
					return v, err
				}
				s = reflect.Append(s, ev)
			}
			v.Set(s)
		}
	case thrift.MAP:
		m := reflect.MakeMap(gt)
		for i := range n.Keys {
			kv, err := FromTree(p, r.Key, gt.Key(), n.Keys[i])
			if err != nil {
				return v, err
			}
			vv, err := FromTree(p, r.Val, gt.Elem(), n.Elems[i])
			if err != nil {
				return v, err
			}
			m.SetMapIndex(kv, vv)
		}
		v.Set(m)
	}
	return v, nil
}

// FillFromTree sets the fields of struct value v from tree n.
func FillFromTree(p *idl.Program, d *idl.Decl, v reflect.Value, n *Node) error {
	for _, f := range d.Fields {
		i, ok := goFieldOf(v.Type(), d, f.ID)
		if !ok {
			return specf("%s: no Go field carries the thrift tag of field %d (%s)", d.Name, f.ID, f.Name)
		}
		var fn *Node
		for _, x := range n.Fields {
			if int(x.ID) == f.ID {
				fn = x.Val
			}
		}
		if fn == nil {
			v.Field(i).Set(reflect.Zero(v.Field(i).Type()))
			if f.Req == "optional" && f.Default != nil && !isNilable(v.Field(i).Kind()) {
				// an unset optional scalar with a default holds the default
				if dn, err := valueNode(p, f.Type, f.Default); err == nil {
					if dv, err := FromTree(p, f.Type, v.Field(i).Type(), dn); err == nil {
						v.Field(i).Set(dv)
					}
				}
			}
			continue
		}
		fv, err := FromTree(p, f.Type, v.Field(i).Type(), fn)
		if err != nil {
			return err
		}
		// a set container must be non-nil even when empty
		if (fv.Kind() == reflect.Slice || fv.Kind() == reflect.Map) && fv.IsNil() {
			if fv.Kind() == reflect.Slice {
				fv = reflect.MakeSlice(fv.Type(), 0, 0)
			} else {
				fv = reflect.MakeMap(fv.Type())
			}
		}
		v.Field(i).Set(fv)
	}
	return nil
}

// SchemaOf builds a prototype tree of an IDL type: every struct field present,
// one prototype element per container. It serves as the hint that tells string
// from binary leaves when a text protocol is read generically.
func SchemaOf(p *idl.Program, ty *idl.Type, depth int) *Node {
	n := &Node{T: wireType(p, ty)}
	if depth > 12 {
		return n
	}
	r := p.Resolve(ty)
	switch p.KindOf(ty) {
	case "base":
		n.Bin = r.Name == "binary"
	case "struct", "union", "exception":
		return SchemaOfDecl(p, p.Decl(r.File, r.Name), depth+1)
	case "list", "set":
		n.ET = wireType(p, r.Val)
		n.Elems = []*Node{SchemaOf(p, r.Val, depth+1)}
	case "map":
		n.KT, n.VT = wireType(p, r.Key), wireType(p, r.Val)
		n.Keys = []*Node{SchemaOf(p, r.Key, depth+1)}
		n.Elems = []*Node{SchemaOf(p, r.Val, depth+1)}
	}
	return n
}

func SchemaOfDecl(p *idl.Program, d *idl.Decl, depth int) *Node {
	n := &Node{T: thrift.STRUCT}
	if d == nil {
		return n
	}
	for _, f := range d.Fields {
		n.Fields = append(n.Fields, FieldNode{int16(f.ID), SchemaOf(p, f.Type, depth)})
	}
	return n
}
