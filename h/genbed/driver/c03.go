package driver

// C03 — a call through generated client and server code is faithful end to end.

import (
	"errors"
	"fmt"
	"reflect"
	"strings"
	"sync"
	"sync/atomic"
	"testing"
	"time"

	frugal "github.com/Workiva/frugal/lib/go"
	"github.com/apache/thrift/lib/go/thrift"
	"pgregory.net/rapid"
	"verif/ev"
	idl "verif/idl"
	"verif/rt"
)

type C03Case struct {
	Service   int     `json:"service"`
	Method    int     `json:"method"`
	Name      string  `json:"name"`
	Transport string  `json:"transport"`
	Proto     string  `json:"proto"`
	Args      []*Node `json:"args"`
	Outcome   string  `json:"outcome"` // return | exception | error | appex
	ExcIndex  int     `json:"exc_index"`
	// BigRet: in the concurrent phase the handler answers every call with its own result of
	// 70 KB or more (string / binary return types only)
	BigRet bool  `json:"big_ret,omitempty"`
	Ret    *Node `json:"ret,omitempty"`
	Exc    *Node `json:"exc,omitempty"`
	// Extra argument tuples: the same method is invoked concurrently on the same
	// client and processor, once per tuple (only with outcome "return")
	Extra [][]*Node `json:"extra,omitempty"`
}

var c03Transports = []string{"loop", "loop", "loop", "tcp", "http", "nats"}

func usableServices() []int {
	var out []int
	for i, s := range Services {
		ok := len(s.Methods) > 0
		for _, m := range s.Methods {
			if m.Method == nil {
				ok = false
			}
		}
		if ok {
			out = append(out, i)
		}
	}
	return out
}

func GenC03(t *rapid.T) C03Case {
	us := usableServices()
	if len(us) == 0 {
		t.Skip("no services with methods")
	}
	c := C03Case{}
	c.Service = us[rapid.IntRange(0, len(us)-1).Draw(t, "service")]
	sb := Services[c.Service]
	c.Method = rapid.IntRange(0, len(sb.Methods)-1).Draw(t, "method")
	mb := sb.Methods[c.Method]
	m := mb.Method
	p := Programs[sb.Prog].Model
	c.Name = fmt.Sprintf("p%d:%s.%s", sb.Prog, sb.IDLName, mb.IDLName)
	c.Transport = rapid.SampledFrom(c03Transports).Draw(t, "transport")
	c.Proto = rapid.SampledFrom(Protos).Draw(t, "proto")
	for _, a := range m.Args {
		c.Args = append(c.Args, GenTree(t, p, a.Type, 1))
	}
	outcomes := []string{"return", "return", "error", "appex"}
	if m.Oneway {
		outcomes = []string{"return"}
	}
	for range m.Throws {
		outcomes = append(outcomes, "exception", "exception")
	}
	c.Outcome = rapid.SampledFrom(outcomes).Draw(t, "outcome")
	if c.Outcome == "exception" {
		c.ExcIndex = rapid.IntRange(0, len(m.Throws)-1).Draw(t, "exc")
		c.Exc = GenTree(t, p, m.Throws[c.ExcIndex].Type, 1)
	}
	if c.Outcome == "return" && m.Ret != nil {
		c.Ret = GenTree(t, p, m.Ret, 1)
	}
	bigCapable := false
	if m.Ret != nil && p.KindOf(m.Ret) == "base" {
		n := p.Resolve(m.Ret).Name
		bigCapable = n == "string" || n == "binary"
	}
	if c.Outcome == "return" && !m.Oneway && len(m.Args) > 0 && (rapid.IntRange(0, 3).Draw(t, "concurrent?") == 0 || bigCapable && rapid.Bool().Draw(t, "concurrent.big?")) {
		for i, n := 0, rapid.IntRange(1, 7).Draw(t, "nextra"); i < n; i++ {
			var tuple []*Node
			for _, a := range m.Args {
				tuple = append(tuple, GenTree(t, p, a.Type, 1))
			}
			c.Extra = append(c.Extra, tuple)
		}
	}
	if len(c.Extra) > 0 && m.Ret != nil && p.KindOf(m.Ret) == "base" {
		if n := p.Resolve(m.Ret).Name; n == "string" || n == "binary" {
			c.BigRet = rapid.IntRange(0, 3).Draw(t, "bigret") != 0
			if c.BigRet && rapid.IntRange(0, 2).Draw(t, "bigret.tcp") != 0 {
				c.Transport = "tcp" // one connection, responses read by the adapter transport's loop
			}
		}
	}
	return c
}

var (
	bigPhase, bigSeq int32
	bigMu            sync.Mutex
	bigProduced      = map[string]bool{}
)

func ClassifyC03(c C03Case) ev.Class {
	sb := Services[c.Service]
	mb := sb.Methods[c.Method]
	m := mb.Method
	labels := []string{"transport=" + c.Transport, "proto=" + c.Proto, "outcome=" + c.Outcome}
	nt := c.Outcome != "return"
	if mb.Owner != sb.IDLName {
		labels = append(labels, "inherited-method")
		nt = true
	}
	if m.Oneway {
		labels = append(labels, "oneway")
	}
	if m.Ret == nil {
		labels = append(labels, "void")
	}
	if len(m.Throws) > 0 {
		labels = append(labels, "has-throws")
		nt = true
	}
	for i, a := range m.Throws {
		for j, b := range m.Throws {
			if i < j && a.Type.Name == b.Type.Name && a.Type.File != b.Type.File {
				labels = append(labels, "same-named-exceptions-of-two-files")
				if c.Outcome == "exception" && (c.ExcIndex == i || c.ExcIndex == j) {
					labels = append(labels, "raises-one-of-the-same-named-exceptions")
				}
			}
		}
	}
	if len(c.Extra) > 0 {
		labels = append(labels, "concurrent-calls")
		nt = true
	}
	if c.BigRet {
		labels = append(labels, "concurrent-calls-with-results>=64KiB")
	}
	p := Programs[sb.Prog].Model
	for _, a := range m.Args {
		if k := p.KindOf(a.Type); k != "base" {
			labels = append(labels, "non-primitive-arg")
			nt = true
		}
	}
	key := fmt.Sprintf("%s|%s|%s|%s", c.Name, c.Transport, c.Proto, c.Outcome)
	for _, a := range c.Args {
		key += "|" + a.Canon()
	}
	if c.Ret != nil {
		key += "|r:" + c.Ret.Canon()
	}
	if c.Exc != nil {
		key += "|e:" + c.Exc.Canon()
	}
	return ev.Class{NonTrivial: nt, Key: Programs[sb.Prog].Hash + key, Labels: uniqStr(labels)}
}

type recordedCall struct {
	method string
	args   []interface{}
}

type scriptedRecorder struct {
	mu      sync.Mutex
	calls   []recordedCall
	outcome func(method string, ret reflect.Type) (interface{}, error)
}

func (r *scriptedRecorder) Call(method string, args []interface{}, ret reflect.Type) (interface{}, error) {
	r.mu.Lock()
	r.calls = append(r.calls, recordedCall{method, args})
	out := r.outcome
	r.mu.Unlock()
	if out == nil {
		return nil, nil
	}
	return out(method, ret)
}

func (r *scriptedRecorder) count() int {
	r.mu.Lock()
	defer r.mu.Unlock()
	return len(r.calls)
}

func findStructBinding(prog, file int, name string) *StructBinding {
	for _, s := range Structs {
		if s.Prog == prog && s.File == file && s.IDLName == name && !s.Synth {
			return s
		}
	}
	return nil
}

// buildException materialises a declared exception from its tree.
func buildException(p *idl.Program, prog int, ty *idl.Type, tree *Node) (error, *StructBinding, error) {
	r := p.Resolve(ty)
	sb := findStructBinding(prog, r.File, r.Name)
	if sb == nil {
		return nil, nil, fmt.Errorf("no binding for exception %s", r.Name)
	}
	obj := sb.New()
	if err := FillFromTree(p, sb.Decl, reflect.ValueOf(obj).Elem(), tree); err != nil {
		return nil, nil, err
	}
	e, ok := obj.(error)
	if !ok {
		return nil, nil, fmt.Errorf("generated exception %s does not implement error", r.Name)
	}
	return e, sb, nil
}

func within(d time.Duration, f func()) (bool, string) {
	done := make(chan string, 1)
	go func() {
		defer func() {
			if r := recover(); r != nil {
				done <- fmt.Sprintf("panic: %v", r)
				return
			}
			done <- ""
		}()
		f()
	}()
	select {
	case p := <-done:
		return true, p
	case <-time.After(d):
		return false, ""
	}
}

func CheckC03(c C03Case) *ev.Failure {
	var f *ev.Failure
	ok, pn := within(60*time.Second, func() { f = checkC03Inner(c) })
	if !ok {
		return ev.Failf("hang:c03", "call %s over %s/%s did not finish in 60s", c.Name, c.Transport, c.Proto)
	}
	if pn != "" {
		return ev.Failf("panic:c03", "%s: %s", c.Name, pn)
	}
	return f
}

func checkC03Inner(c C03Case) *ev.Failure {
	if c.Service >= len(Services) || c.Method >= len(Services[c.Service].Methods) {
		return ev.Failf("harness:bad-case", "indices out of range")
	}
	sb := Services[c.Service]
	mb := sb.Methods[c.Method]
	m := mb.Method
	p := Programs[sb.Prog].Model
	what := fmt.Sprintf("%s over %s/%s, handler outcome %s", c.Name, c.Transport, c.Proto, c.Outcome)
	ctxText := func() string { return "\n" + programText(sb.Prog) }

	rec := &scriptedRecorder{}
	var wantExc error
	var excBinding *StructBinding
	if c.Outcome == "exception" {
		e, b, err := buildException(p, sb.Prog, m.Throws[c.ExcIndex].Type, c.Exc)
		if err != nil {
			return ev.Failf("go-representation", "%s: %v%s", what, err, ctxText())
		}
		wantExc, excBinding = e, b
	}
	var buildErr error
	bigPhase, bigSeq = 0, 0
	bigMu.Lock()
	bigProduced = map[string]bool{}
	bigMu.Unlock()
	rec.outcome = func(method string, ret reflect.Type) (interface{}, error) {
		switch c.Outcome {
		case "exception":
			return nil, wantExc
		case "error":
			return nil, errors.New("undeclared failure")
		case "appex":
			return nil, thrift.NewTApplicationException(77, "application exception from the handler")
		}
		if ret == nil || c.Ret == nil {
			return nil, nil
		}
		if c.BigRet && atomic.LoadInt32(&bigPhase) == 1 {
			// a result of its own for every call, large enough to take the reader's large-frame path
			n := atomic.AddInt32(&bigSeq, 1)
			val := fmt.Sprintf("result-of-call-%d-", n) + strings.Repeat(string(rune('a'+n%26)), 70000+int(n%7)*1111)
			bigMu.Lock()
			bigProduced[val] = true
			bigMu.Unlock()
			if ret.Kind() == reflect.String {
				return reflect.ValueOf(val).Convert(ret).Interface(), nil
			}
			return reflect.ValueOf([]byte(val)).Convert(ret).Interface(), nil
		}
		v, err := FromTree(p, m.Ret, ret, c.Ret)
		if err != nil {
			buildErr = err
			return nil, nil
		}
		return v.Interface(), nil
	}
	stub := sb.NewStub(rec)
	proc := sb.NewProcessor(stub)
	tr, replies, cleanup, err := rt.NewTransportEnv(c.Transport, c.Proto, proc, 1)
	if err != nil {
		return ev.Failf("harness:env", "%v", err)
	}
	defer cleanup()
	pf := frugal.NewFProtocolFactory(ProtoFactory(c.Proto))
	client := sb.NewClient(frugal.NewFServiceProvider(tr, pf))
	cm := reflect.ValueOf(client).MethodByName(mb.GoName)
	if !cm.IsValid() {
		return ev.Failf("binding-problem", "%s: generated client has no method %s%s", what, mb.GoName, ctxText())
	}
	mt := cm.Type()
	if mt.NumIn() != len(m.Args)+1 {
		return ev.Failf("signature", "%s: client method takes %d parameters, IDL declares %d arguments%s", what, mt.NumIn()-1, len(m.Args), ctxText())
	}
	fctx := frugal.NewFContext("").SetTimeout(20 * time.Second)
	in := []reflect.Value{reflect.ValueOf(fctx)}
	for i, a := range m.Args {
		v, err := FromTree(p, a.Type, mt.In(i+1), c.Args[i])
		if err != nil {
			return ev.Failf("go-representation", "%s: cannot build argument %d (%s): %v%s", what, i, a.Name, err, ctxText())
		}
		in = append(in, v)
	}
	if len(c.Extra) > 0 {
		return c03Concurrent(c, sb, mb, cm, in, rec, what, ctxText)
	}
	out := cm.Call(in)
	if buildErr != nil {
		return ev.Failf("go-representation", "%s: cannot build the return value: %v%s", what, buildErr, ctxText())
	}
	var callErr error
	if e := out[len(out)-1]; !e.IsNil() {
		callErr = e.Interface().(error)
	}
	// the handler ran exactly once with equal arguments
	if m.Oneway {
		deadline := time.Now().Add(3 * time.Second)
		for rec.count() == 0 && time.Now().Before(deadline) {
			time.Sleep(200 * time.Microsecond)
		}
	}
	if n := rec.count(); n != 1 {
		return ev.Failf("handler-count", "%s: the handler was invoked %d times (client error: %v)%s", what, n, callErr, ctxText())
	}
	call := rec.calls[0]
	if call.method != mb.GoName {
		return ev.Failf("wrong-method", "%s: handler method %s was invoked instead of %s%s", what, call.method, mb.GoName, ctxText())
	}
	if len(call.args) != len(m.Args)+1 {
		return ev.Failf("signature", "%s: handler received %d arguments%s", what, len(call.args)-1, ctxText())
	}
	for i, a := range m.Args {
		got, err := ExpectValue(p, a.Type, reflect.ValueOf(call.args[i+1]))
		if err != nil {
			return ev.Failf("go-representation", "%s: argument %d (%s) at the handler: %v%s", what, i, a.Name, err, ctxText())
		}
		if got.Canon() != c.Args[i].Canon() {
			return ev.Failf("argument-mismatch", "%s: argument %d (%s) differs at the handler\n   sent: %s\n   got : %s%s", what, i, a.Name, c.Args[i].Canon(), got.Canon(), ctxText())
		}
	}
	// the caller observes exactly the handler's outcome
	switch {
	case m.Oneway:
		if callErr != nil {
			return ev.Failf("oneway-error", "%s: oneway call returned %v%s", what, callErr, ctxText())
		}
		if c.Transport == "loop" && len(replies()) != 0 {
			return ev.Failf("oneway-replied", "%s: a successful oneway call produced a reply frame%s", what, ctxText())
		}
	}
	// a two-way call is answered by exactly one message (observable where the whole reply is at hand)
	if !m.Oneway && c.Transport == "loop" {
		if rs := replies(); len(rs) > 0 {
			if n, err := rt.CountReplyMessages(c.Proto, rs[len(rs)-1]); err != nil || n != 1 {
				return ev.Failf("reply-count", "%s (handler outcome %q): the server answered with %d messages (%v), want exactly one%s", what, c.Outcome, n, err, ctxText())
			}
		}
	}
	switch {
	case m.Oneway:
	case c.Outcome == "return":
		if callErr != nil {
			return ev.Failf("unexpected-error", "%s: caller got %T %v%s", what, callErr, callErr, ctxText())
		}
		if m.Ret != nil {
			got, err := ExpectValue(p, m.Ret, out[0])
			if err != nil {
				return ev.Failf("go-representation", "%s: return value at the caller: %v%s", what, err, ctxText())
			}
			if got.Canon() != c.Ret.Canon() {
				return ev.Failf("return-mismatch", "%s: return value differs at the caller\n   handler returned: %s\n   caller got      : %s%s", what, c.Ret.Canon(), got.Canon(), ctxText())
			}
		}
	case c.Outcome == "exception":
		if callErr == nil {
			return ev.Failf("exception-lost", "%s: the handler raised declared exception %s but the caller got success%s", what, excBinding.IDLName, ctxText())
		}
		if reflect.TypeOf(callErr) != reflect.TypeOf(wantExc) {
			return ev.Failf("exception-type", "%s: the handler raised %T but the caller got %T %v%s", what, wantExc, callErr, callErr, ctxText())
		}
		got, err := ExpectStruct(p, excBinding.Decl, reflect.ValueOf(callErr))
		if err != nil {
			return ev.Failf("go-representation", "%s: exception at the caller: %v%s", what, err, ctxText())
		}
		if got.Canon() != c.Exc.Canon() {
			return ev.Failf("exception-mismatch", "%s: exception fields differ at the caller\n   raised: %s\n   got   : %s%s", what, c.Exc.Canon(), got.Canon(), ctxText())
		}
	case c.Outcome == "error":
		ae, ok := callErr.(thrift.TApplicationException)
		if !ok || ae.TypeId() != frugal.APPLICATION_EXCEPTION_INTERNAL_ERROR {
			return ev.Failf("undeclared-error-mapping", "%s: an undeclared handler failure must reach the caller as an INTERNAL_ERROR application exception, got %T %v%s", what, callErr, callErr, ctxText())
		}
	case c.Outcome == "appex":
		ae, ok := callErr.(thrift.TApplicationException)
		if !ok || ae.TypeId() != 77 {
			return ev.Failf("application-exception-mapping", "%s: the handler's application exception (type 77) reached the caller as %T %v%s", what, callErr, callErr, ctxText())
		}
	}
	return nil
}

// c03Concurrent invokes the method once per argument tuple, all at the same time,
// through the one client and processor; every handler invocation must carry one of
// the sent tuples (as a multiset) and every caller must get the handler's value.
func c03Concurrent(c C03Case, sb *ServiceBinding, mb MethodBinding, cm reflect.Value, first []reflect.Value, rec *scriptedRecorder, what string, ctxText func() string) *ev.Failure {
	m := mb.Method
	p := Programs[sb.Prog].Model
	mt := cm.Type()
	tuples := append([][]*Node{c.Args}, c.Extra...)
	ins := [][]reflect.Value{first}
	for _, tuple := range c.Extra {
		in := []reflect.Value{reflect.ValueOf(frugal.NewFContext("").SetTimeout(20 * time.Second))}
		for i, a := range m.Args {
			v, err := FromTree(p, a.Type, mt.In(i+1), tuple[i])
			if err != nil {
				return ev.Failf("go-representation", "%s: %v%s", what, err, ctxText())
			}
			in = append(in, v)
		}
		ins = append(ins, in)
	}
	outs := make([][]reflect.Value, len(ins))
	var wg sync.WaitGroup
	start := make(chan struct{})
	atomic.StoreInt32(&bigPhase, 1)
	defer atomic.StoreInt32(&bigPhase, 0)
	for i := range ins {
		wg.Add(1)
		go func(i int) {
			defer wg.Done()
			<-start
			outs[i] = cm.Call(ins[i])
		}(i)
	}
	close(start)
	wg.Wait()
	canonTuple := func(get func(i int) (*Node, error)) (string, error) {
		s := ""
		for i := range m.Args {
			n, err := get(i)
			if err != nil {
				return "", err
			}
			s += n.Canon() + "|"
		}
		return s, nil
	}
	want := map[string]int{}
	for _, tuple := range tuples {
		k, _ := canonTuple(func(i int) (*Node, error) { return tuple[i], nil })
		want[k]++
	}
	for i, o := range outs {
		if e := o[len(o)-1]; !e.IsNil() {
			return ev.Failf("call-failed:concurrent", "%s: concurrent call %d of %d failed: %T %v%s", what, i, len(outs), e.Interface(), e.Interface(), ctxText())
		}
	}
	if rec.count() != len(tuples) {
		return ev.Failf("handler-count", "%s: %d concurrent calls, handler invoked %d times%s", what, len(tuples), rec.count(), ctxText())
	}
	for _, call := range rec.calls {
		k, err := canonTuple(func(i int) (*Node, error) { return ExpectValue(p, m.Args[i].Type, reflect.ValueOf(call.args[i+1])) })
		if err != nil {
			return ev.Failf("go-representation", "%s: %v%s", what, err, ctxText())
		}
		if want[k] == 0 {
			return ev.Failf("argument-mismatch:concurrent", "%s: with %d calls in flight the handler was invoked with an argument tuple nobody sent (arguments of different calls mixed up): %s%s", what, len(tuples), k, ctxText())
		}
		want[k]--
	}
	for i, out := range outs {
		if e := out[len(out)-1]; !e.IsNil() {
			return ev.Failf("unexpected-error", "%s: concurrent call %d failed: %v%s", what, i, e.Interface(), ctxText())
		}
		if m.Ret != nil && c.BigRet {
			var got string
			if out[0].Kind() == reflect.String {
				got = out[0].String()
			} else {
				got = string(out[0].Bytes())
			}
			bigMu.Lock()
			ok := bigProduced[got]
			delete(bigProduced, got)
			bigMu.Unlock()
			if !ok {
				return ev.Failf("return-mismatch:concurrent", "%s: concurrent call %d got a %d byte result (%.40q...) that no handler invocation returned, or that another caller got as well%s", what, i, len(got), got, ctxText())
			}
			continue
		}
		if m.Ret != nil {
			got, err := ExpectValue(p, m.Ret, out[0])
			if err != nil {
				return ev.Failf("go-representation", "%s: %v%s", what, err, ctxText())
			}
			if got.Canon() != c.Ret.Canon() {
				return ev.Failf("return-mismatch", "%s: concurrent call %d got %s, handler returned %s%s", what, i, got.Canon(), c.Ret.Canon(), ctxText())
			}
		}
	}
	if c.BigRet {
		// a storm of pipelined calls with large results of their own: every caller gets a result that
		// some handler invocation produced, and no two callers the same one
		const workers, perWorker = 8, 4
		storm := make([][]string, workers)
		errs := make([]string, workers)
		var swg sync.WaitGroup
		for w := 0; w < workers; w++ {
			swg.Add(1)
			go func(w int) {
				defer swg.Done()
				for k := 0; k < perWorker; k++ {
					in := append([]reflect.Value{reflect.ValueOf(frugal.NewFContext("").SetTimeout(20 * time.Second))}, first[1:]...)
					o := cm.Call(in)
					if e := o[len(o)-1]; !e.IsNil() {
						errs[w] = fmt.Sprint(e.Interface())
						return
					}
					if o[0].Kind() == reflect.String {
						storm[w] = append(storm[w], o[0].String())
					} else {
						storm[w] = append(storm[w], string(o[0].Bytes()))
					}
				}
			}(w)
		}
		swg.Wait()
		for w, e := range errs {
			if e != "" {
				return ev.Failf("call-failed:concurrent", "%s: pipelined call of worker %d failed: %s%s", what, w, e, ctxText())
			}
		}
		bigMu.Lock()
		defer bigMu.Unlock()
		for w, l := range storm {
			for k, got := range l {
				if !bigProduced[got] {
					return ev.Failf("return-mismatch:concurrent", "%s: with %d callers pipelining calls, call %d of worker %d got a %d byte result (%.40q...) that no handler invocation returned, or that another caller got as well%s", what, workers, k, w, len(got), got, ctxText())
				}
				delete(bigProduced, got)
			}
		}
	}
	return nil
}

var C03Prop = ev.Prop("c03.rpc", GenC03, CheckC03, ClassifyC03, func(c C03Case) interface{} {
	var args []string
	for _, a := range c.Args {
		args = append(args, a.Canon())
	}
	return map[string]interface{}{"method": c.Name, "transport": c.Transport, "proto": c.Proto, "outcome": c.Outcome, "args": args}
})

func RunC03(t *testing.T) { rapid.Check(t, C03Prop) }
