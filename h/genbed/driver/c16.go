package driver

// C16 — middleware intercepts every call exactly once, in the declared order.

import (
	"fmt"
	"reflect"
	"strings"
	"sync"
	"testing"
	"time"

	frugal "github.com/Workiva/frugal/lib/go"
	"pgregory.net/rapid"
	"verif/ev"
	"verif/rt"
)

type MWSpec struct {
	Rewrite bool `json:"rewrite"`
	// Err: "soft" = on the way out of a successful call, marks it failed with Results.SetError(errSoft);
	// "forgive" = on the way out, clears exactly that error again with SetError(nil). They are only
	// generated as a pair (forgive wrapping soft), so together they change nothing.
	Err string `json:"err,omitempty"`
}

var errSoft = fmt.Errorf("soft failure set by a middleware")

type mwTrace struct {
	mu     sync.Mutex
	events []string
	// dynamic type of the first result each middleware saw on the way out (last call)
	resultTypes map[string]string
}

func (t *mwTrace) add(s string) {
	t.mu.Lock()
	t.events = append(t.events, s)
	t.mu.Unlock()
}

func (t *mwTrace) snapshot() []string {
	t.mu.Lock()
	defer t.mu.Unlock()
	return append([]string{}, t.events...)
}

func genMWList(t *rapid.T, label string) []MWSpec {
	n := rapid.IntRange(0, 3).Draw(t, label+".n")
	var out []MWSpec
	for i := 0; i < n; i++ {
		out = append(out, MWSpec{Rewrite: rapid.Bool().Draw(t, label+".rewrite")})
	}
	if rapid.IntRange(0, 3).Draw(t, label+".softpair") == 0 {
		// later-listed wraps earlier: soft first, forgive after it
		at := rapid.IntRange(0, len(out)).Draw(t, label+".softat")
		pair := []MWSpec{{Err: "soft"}, {Err: "forgive"}}
		out = append(out[:at], append(pair, out[at:]...)...)
	}
	return out
}

// buildMW turns specs into middleware named <point><index>. A rewriting
// middleware appends its name to the request header "mw-path" and to the first
// string argument on the way in, and to a string result and the response header
// "mw-back" on the way out.
func buildMW(specs []MWSpec, point string, trace *mwTrace, rewriteArgs ...bool) []frugal.ServiceMiddleware {
	touchArgs := len(rewriteArgs) == 0 || rewriteArgs[0]
	var out []frugal.ServiceMiddleware
	for i, s := range specs {
		name := fmt.Sprintf("%s%d", point, i)
		rewrite := s.Rewrite
		errMode := s.Err
		out = append(out, func(next frugal.InvocationHandler) frugal.InvocationHandler {
			return func(service reflect.Value, method reflect.Method, args frugal.Arguments) frugal.Results {
				// calls of the concurrent phase carry a request header "who"
				tag := ""
				if len(args) > 0 {
					if ctx, ok := args[0].(frugal.FContext); ok {
						if w, ok := ctx.RequestHeader("who"); ok {
							tag = "@" + w
						}
					}
				}
				trace.add("enter:" + name + tag)
				if rewrite && len(args) > 0 {
					if ctx, ok := args[0].(frugal.FContext); ok {
						prev, _ := ctx.RequestHeader("mw-path")
						ctx.AddRequestHeader("mw-path", prev+"/"+name)
					}
					for i := 1; touchArgs && i < len(args); i++ {
						if s, ok := args[i].(string); ok {
							args[i] = s + "/" + name
							break
						}
					}
				}
				res := next(service, method, args)
				trace.add("exit:" + name + tag)
				switch {
				case errMode == "soft" && len(res) > 0 && res.Error() == nil:
					res.SetError(errSoft)
				case errMode == "forgive" && len(res) > 0 && res.Error() == errSoft:
					res.SetError(nil)
				}
				if len(res) == 2 {
					trace.mu.Lock()
					if trace.resultTypes == nil {
						trace.resultTypes = map[string]string{}
					}
					trace.resultTypes[name] = fmt.Sprintf("%T", res[0])
					trace.mu.Unlock()
				}
				if rewrite {
					if len(res) == 2 && res[1] == nil {
						if s, ok := res[0].(string); ok {
							res[0] = s + "/" + name
						}
					}
					if ctx, ok := args[0].(frugal.FContext); ok {
						prev, _ := ctx.ResponseHeader("mw-back")
						ctx.AddResponseHeader("mw-back", prev+"/"+name)
					}
				}
				return res
			}
		})
	}
	return out
}

type C16Case struct {
	Service   int      `json:"service"`
	Method    int      `json:"method"`
	Name      string   `json:"name"`
	Transport string   `json:"transport"`
	Provider  []MWSpec `json:"provider"`
	Client    []MWSpec `json:"client"`
	Processor []MWSpec `json:"processor"`
	Added     []MWSpec `json:"added"` // FProcessor.AddMiddleware, in order
	Args      []*Node  `json:"args"`
	Ret       *Node    `json:"ret,omitempty"`
	// Conc > 0: after the single call, that many goroutines invoke the same method at once,
	// each with its own FContext (request header "who") and its own first string argument
	Conc int `json:"conc,omitempty"`
	// NilRet: the handler of a struct-returning method returns (nil, nil)
	NilRet bool `json:"nil_ret,omitempty"`
}

func GenC16(t *rapid.T) C16Case {
	us := usableServices()
	if len(us) == 0 {
		t.Skip("no services with methods")
	}
	c := C16Case{}
	c.Service = us[rapid.IntRange(0, len(us)-1).Draw(t, "service")]
	sb := Services[c.Service]
	// two-way methods only: the trace of a oneway call is not ordered with respect to the caller
	var ms []int
	for i, m := range sb.Methods {
		if !m.Method.Oneway {
			ms = append(ms, i)
		}
	}
	if len(ms) == 0 {
		t.Skip("only oneway methods")
	}
	c.Method = ms[rapid.IntRange(0, len(ms)-1).Draw(t, "method")]
	mb := sb.Methods[c.Method]
	p := Programs[sb.Prog].Model
	c.Name = fmt.Sprintf("p%d:%s.%s", sb.Prog, sb.IDLName, mb.IDLName)
	c.Transport = rapid.SampledFrom([]string{"loop", "loop", "loop", "tcp", "nats", "http"}).Draw(t, "transport")
	c.Provider = genMWList(t, "provider")
	c.Client = genMWList(t, "client")
	c.Processor = genMWList(t, "processor")
	c.Added = genMWList(t, "added")
	for _, a := range mb.Method.Args {
		c.Args = append(c.Args, GenTree(t, p, a.Type, 1))
	}
	if mb.Method.Ret != nil {
		c.Ret = GenTree(t, p, mb.Method.Ret, 1)
	}
	if rapid.IntRange(0, 2).Draw(t, "conc?") == 0 {
		c.Conc = rapid.IntRange(2, 8).Draw(t, "conc")
	}
	if mb.Method.Ret != nil {
		switch p.KindOf(mb.Method.Ret) {
		case "struct", "union", "exception":
			c.NilRet = rapid.IntRange(0, 3).Draw(t, "nilret") == 0
		}
	}
	return c
}

func ClassifyC16(c C16Case) ev.Class {
	sb := Services[c.Service]
	mb := sb.Methods[c.Method]
	total := len(c.Provider) + len(c.Client) + len(c.Processor) + len(c.Added)
	points, rewriting := 0, 0
	for _, l := range [][]MWSpec{c.Provider, c.Client, c.Processor, c.Added} {
		if len(l) > 0 {
			points++
		}
		for _, m := range l {
			if m.Rewrite {
				rewriting++
			}
		}
	}
	labels := []string{"transport=" + c.Transport, fmt.Sprintf("middleware=%d", total), fmt.Sprintf("points=%d", points)}
	if rewriting > 0 {
		labels = append(labels, "rewriting")
	}
	if c.Conc > 0 {
		labels = append(labels, "concurrent-calls-of-one-method")
	}
	if c.NilRet {
		labels = append(labels, "handler-returns-nil-struct")
	}
	if mb.Owner != sb.IDLName {
		labels = append(labels, "inherited-method")
	}
	key := fmt.Sprintf("%s|%s|%s|%v|%v|%v|%v|%d", Programs[sb.Prog].Hash, c.Name, c.Transport, c.Provider, c.Client, c.Processor, c.Added, c.Conc) + fmt.Sprint(c.NilRet)
	for _, a := range c.Args {
		key += "|" + a.Canon()
	}
	return ev.Class{NonTrivial: total >= 2 && rewriting >= 1 && points >= 2, Key: key, Labels: labels}
}

func CheckC16(c C16Case) *ev.Failure {
	var f *ev.Failure
	ok, pn := within(60*time.Second, func() { f = checkC16Inner(c) })
	if !ok {
		return ev.Failf("hang:c16", "%s did not finish in 60s", c.Name)
	}
	if pn != "" {
		return ev.Failf("panic:c16", "%s: %s", c.Name, pn)
	}
	return f
}

func checkC16Inner(c C16Case) *ev.Failure {
	if c.Service >= len(Services) || c.Method >= len(Services[c.Service].Methods) {
		return ev.Failf("harness:bad-case", "indices out of range")
	}
	sb := Services[c.Service]
	mb := sb.Methods[c.Method]
	m := mb.Method
	p := Programs[sb.Prog].Model
	what := fmt.Sprintf("%s over %s with middleware provider=%d client=%d processor=%d added=%d", c.Name, c.Transport, len(c.Provider), len(c.Client), len(c.Processor), len(c.Added))
	ctxText := func() string { return "\n" + programText(sb.Prog) }
	trace := &mwTrace{}
	rec := &scriptedRecorder{}
	var handlerPath string
	var buildErr error
	rec.outcome = func(method string, ret reflect.Type) (interface{}, error) {
		trace.add("handler")
		if ret == nil || c.Ret == nil {
			return nil, nil
		}
		if c.NilRet && ret.Kind() == reflect.Ptr {
			return reflect.Zero(ret).Interface(), nil
		}
		v, err := FromTree(p, m.Ret, ret, c.Ret)
		if err != nil {
			buildErr = err
			return nil, nil
		}
		return v.Interface(), nil
	}
	stub := sb.NewStub(rec)
	// middleware lists are handed over as slices with spare capacity, and other
	// clients / processors are built from the same base lists afterwards: what one
	// component was given must not be affected by what happens to the caller's slice
	decoy := func(next frugal.InvocationHandler) frugal.InvocationHandler {
		return func(service reflect.Value, method reflect.Method, args frugal.Arguments) frugal.Results {
			trace.add("enter:DECOY")
			return next(service, method, args)
		}
	}
	spare := func(l []frugal.ServiceMiddleware) []frugal.ServiceMiddleware {
		out := make([]frugal.ServiceMiddleware, len(l), len(l)+4)
		copy(out, l)
		return out
	}
	procBase := spare(buildMW(c.Processor, "processor", trace))
	proc := sb.NewProcessor(stub, procBase...)
	added := buildMW(c.Added, "added", trace)
	for i, mw := range added {
		if i == len(added)/2 {
			// a second processor built from the same base list plus one more
			sb.NewProcessor(sb.NewStub(&scriptedRecorder{}), append(procBase, decoy)...)
		}
		proc.AddMiddleware(mw)
	}
	if len(added) == 0 {
		sb.NewProcessor(sb.NewStub(&scriptedRecorder{}), append(procBase, decoy)...)
	}
	tr, _, cleanup, err := rt.NewTransportEnv(c.Transport, "binary", proc, 1)
	if err != nil {
		return ev.Failf("harness:env", "%v", err)
	}
	defer cleanup()
	pf := frugal.NewFProtocolFactory(ProtoFactory("binary"))
	provBase := spare(buildMW(c.Provider, "provider", trace))
	clientBase := spare(buildMW(c.Client, "client", trace))
	provider := frugal.NewFServiceProvider(tr, pf, provBase...)
	client := sb.NewClient(provider, clientBase...)
	// another client from the same lists (plus a decoy) must not disturb the first
	sb.NewClient(frugal.NewFServiceProvider(tr, pf, append(provBase, decoy)...), append(clientBase, decoy)...)
	cm := reflect.ValueOf(client).MethodByName(mb.GoName)
	if !cm.IsValid() {
		return ev.Failf("binding-problem", "%s: no client method %s%s", what, mb.GoName, ctxText())
	}
	mt := cm.Type()
	fctx := frugal.NewFContext("").SetTimeout(20 * time.Second)
	in := []reflect.Value{reflect.ValueOf(fctx)}
	firstString := -1
	for i, a := range m.Args {
		v, err := FromTree(p, a.Type, mt.In(i+1), c.Args[i])
		if err != nil {
			return ev.Failf("go-representation", "%s: %v%s", what, err, ctxText())
		}
		if firstString < 0 && v.Kind() == reflect.String && v.Type() == reflect.TypeOf("") {
			firstString = i
		}
		in = append(in, v)
	}
	out := cm.Call(in)
	if buildErr != nil {
		return ev.Failf("go-representation", "%s: %v%s", what, buildErr, ctxText())
	}
	if e := out[len(out)-1]; !e.IsNil() {
		return ev.Failf("call-failed", "%s: %v%s", what, e.Interface(), ctxText())
	}
	if rec.count() != 1 {
		return ev.Failf("handler-count", "%s: handler invoked %d times%s", what, rec.count(), ctxText())
	}
	if c.NilRet && mt.NumOut() == 2 && mt.Out(0).Kind() == reflect.Ptr {
		// the handler returned a nil pointer of the declared type: that is what every layer sees
		wantT := mt.Out(0).String()
		trace.mu.Lock()
		rt := map[string]string{}
		for k, v := range trace.resultTypes {
			rt[k] = v
		}
		trace.mu.Unlock()
		for name, got := range rt {
			if got != wantT {
				return ev.Failf("middleware-result-type", "%s: the handler returned a nil %s, middleware %s saw a result of dynamic type %s%s", what, wantT, name, got, ctxText())
			}
		}
		if !out[0].IsNil() {
			return ev.Failf("nil-result-changed", "%s: the handler returned nil, the caller got %v%s", what, out[0].Interface(), ctxText())
		}
	}
	// expected nesting: later-listed wraps earlier; provider wraps constructor; AddMiddleware wraps the constructor list
	clientChain := []string{}
	for i := range c.Client {
		clientChain = append(clientChain, fmt.Sprintf("client%d", i))
	}
	for i := range c.Provider {
		clientChain = append(clientChain, fmt.Sprintf("provider%d", i))
	}
	serverChain := []string{}
	for i := range c.Processor {
		serverChain = append(serverChain, fmt.Sprintf("processor%d", i))
	}
	for i := range c.Added {
		serverChain = append(serverChain, fmt.Sprintf("added%d", i))
	}
	rewrites := map[string]bool{}
	for i, s := range c.Client {
		rewrites[fmt.Sprintf("client%d", i)] = s.Rewrite
	}
	for i, s := range c.Provider {
		rewrites[fmt.Sprintf("provider%d", i)] = s.Rewrite
	}
	for i, s := range c.Processor {
		rewrites[fmt.Sprintf("processor%d", i)] = s.Rewrite
	}
	for i, s := range c.Added {
		rewrites[fmt.Sprintf("added%d", i)] = s.Rewrite
	}
	var want []string
	var enterOrder []string
	for j := len(clientChain) - 1; j >= 0; j-- {
		want = append(want, "enter:"+clientChain[j])
		enterOrder = append(enterOrder, clientChain[j])
	}
	for j := len(serverChain) - 1; j >= 0; j-- {
		want = append(want, "enter:"+serverChain[j])
		enterOrder = append(enterOrder, serverChain[j])
	}
	want = append(want, "handler")
	var exitOrder []string
	for j := 0; j < len(serverChain); j++ {
		want = append(want, "exit:"+serverChain[j])
		exitOrder = append(exitOrder, serverChain[j])
	}
	for j := 0; j < len(clientChain); j++ {
		want = append(want, "exit:"+clientChain[j])
		exitOrder = append(exitOrder, clientChain[j])
	}
	if got := trace.snapshot(); strings.Join(got, " ") != strings.Join(want, " ") {
		return ev.Failf("middleware-order", "%s: every middleware must run exactly once, later-listed wrapping earlier, provider wrapping constructor\n   want: %v\n   got : %v%s", what, want, got, ctxText())
	}
	// rewrites: what the handler saw
	wantPath := ""
	for _, n := range enterOrder {
		if rewrites[n] {
			wantPath += "/" + n
		}
	}
	call := rec.calls[0]
	if hctx, ok := call.args[0].(frugal.FContext); ok {
		handlerPath, _ = hctx.RequestHeader("mw-path")
	}
	if handlerPath != wantPath {
		return ev.Failf("middleware-rewrite-args", "%s: the handler saw request header mw-path=%q, expected %q%s", what, handlerPath, wantPath, ctxText())
	}
	if firstString >= 0 {
		orig := string(c.Args[firstString].S)
		if got, ok := call.args[firstString+1].(string); !ok || got != orig+wantPath {
			return ev.Failf("middleware-rewrite-args", "%s: the handler saw argument %d = %q, expected %q%s", what, firstString, call.args[firstString+1], orig+wantPath, ctxText())
		}
	}
	// rewrites: what the caller saw
	wantBack := ""
	for _, n := range exitOrder {
		if rewrites[n] {
			wantBack += "/" + n
		}
	}
	if back, _ := fctx.ResponseHeader("mw-back"); back != wantBack {
		return ev.Failf("middleware-rewrite-results", "%s: the caller saw response header mw-back=%q, expected %q%s", what, back, wantBack, ctxText())
	}
	if c.Ret != nil && len(out) == 2 && out[0].Kind() == reflect.String && out[0].Type() == reflect.TypeOf("") {
		if got, w := out[0].String(), string(c.Ret.S)+wantBack; got != w {
			return ev.Failf("middleware-rewrite-results", "%s: the caller got %q, expected %q%s", what, got, w, ctxText())
		}
	}
	if c.Conc == 0 {
		return nil
	}
	// ---- concurrent phase: Conc goroutines call the same method at once
	baseEvents, baseCalls := len(trace.snapshot()), rec.count()
	type res struct {
		err  string
		back string
		ret  string
	}
	results := make([]res, c.Conc)
	var wg sync.WaitGroup
	start := make(chan struct{})
	for k := 0; k < c.Conc; k++ {
		wg.Add(1)
		go func(k int) {
			defer wg.Done()
			kctx := frugal.NewFContext("").SetTimeout(20 * time.Second)
			kctx.AddRequestHeader("who", fmt.Sprint(k))
			kin := append([]reflect.Value{reflect.ValueOf(kctx)}, in[1:]...)
			if firstString >= 0 {
				kin[firstString+1] = reflect.ValueOf(string(c.Args[firstString].S) + "#" + fmt.Sprint(k))
			}
			<-start
			defer func() {
				if r := recover(); r != nil {
					results[k].err = fmt.Sprintf("panic: %v", r)
				}
			}()
			o := cm.Call(kin)
			if e := o[len(o)-1]; !e.IsNil() {
				results[k].err = fmt.Sprint(e.Interface())
			}
			results[k].back, _ = kctx.ResponseHeader("mw-back")
			if len(o) == 2 && o[0].Kind() == reflect.String && o[0].Type() == reflect.TypeOf("") {
				results[k].ret = o[0].String()
			}
		}(k)
	}
	close(start)
	wg.Wait()
	for k, r := range results {
		if r.err != "" {
			return ev.Failf("call-failed:concurrent", "%s: concurrent call %d of %d failed: %s%s", what, k, c.Conc, r.err, ctxText())
		}
	}
	counts := map[string]int{}
	for _, e := range trace.snapshot()[baseEvents:] {
		counts[e]++
	}
	for k := 0; k < c.Conc; k++ {
		for _, n := range append(append([]string{}, clientChain...), serverChain...) {
			for _, dir := range []string{"enter:", "exit:"} {
				e := fmt.Sprintf("%s%s@%d", dir, n, k)
				if counts[e] != 1 {
					return ev.Failf("middleware-count:concurrent", "%s: with %d concurrent calls, event %s was seen %d times (every middleware must see every call exactly once, with that call's FContext)\n   events: %v%s", what, c.Conc, e, counts[e], counts, ctxText())
				}
				delete(counts, e)
			}
		}
	}
	if counts["handler"] != c.Conc || len(counts) != 1 {
		return ev.Failf("middleware-count:concurrent", "%s: with %d concurrent calls, unexpected events remain: %v%s", what, c.Conc, counts, ctxText())
	}
	rec.mu.Lock()
	calls := append([]recordedCall{}, rec.calls[baseCalls:]...)
	rec.mu.Unlock()
	seen := map[string]int{}
	for _, call := range calls {
		hctx, ok := call.args[0].(frugal.FContext)
		if !ok {
			continue
		}
		who, _ := hctx.RequestHeader("who")
		seen[who]++
		if pth, _ := hctx.RequestHeader("mw-path"); pth != wantPath {
			return ev.Failf("middleware-rewrite-args:concurrent", "%s: the handler of concurrent call %s saw mw-path=%q, expected %q%s", what, who, pth, wantPath, ctxText())
		}
		if firstString >= 0 {
			w := string(c.Args[firstString].S) + "#" + who + wantPath
			if got, ok := call.args[firstString+1].(string); !ok || got != w {
				return ev.Failf("handler-saw-other-calls-arguments", "%s: with %d concurrent calls, the handler invoked with the FContext of call %s saw argument %d = %q, expected %q%s", what, c.Conc, who, firstString, call.args[firstString+1], w, ctxText())
			}
		}
	}
	for k := 0; k < c.Conc; k++ {
		if seen[fmt.Sprint(k)] != 1 {
			return ev.Failf("handler-saw-other-calls-arguments", "%s: with %d concurrent calls, the handler saw the FContext of call %d %d times (per call: %v)%s", what, c.Conc, k, seen[fmt.Sprint(k)], seen, ctxText())
		}
		if results[k].back != wantBack {
			return ev.Failf("middleware-rewrite-results:concurrent", "%s: concurrent caller %d saw mw-back=%q, expected %q%s", what, k, results[k].back, wantBack, ctxText())
		}
		if c.Ret != nil && mt.NumOut() == 2 && mt.Out(0) == reflect.TypeOf("") {
			if w := string(c.Ret.S) + wantBack; results[k].ret != w {
				return ev.Failf("middleware-rewrite-results:concurrent", "%s: concurrent caller %d got %q, expected %q%s", what, k, results[k].ret, w, ctxText())
			}
		}
	}
	return nil
}

var C16Prop = ev.Prop("c16.middleware", GenC16, CheckC16, ClassifyC16, func(c C16Case) interface{} {
	return map[string]interface{}{"method": c.Name, "transport": c.Transport, "provider": c.Provider, "client": c.Client, "processor": c.Processor, "added": c.Added}
})

func RunC16(t *testing.T) { rapid.Check(t, C16Prop) }
