package driver

import "testing"

func RunC03(t *testing.T)    { t.Skip("not built yet") }
func RunC16(t *testing.T)    { t.Skip("not built yet") }
func RunScopes(t *testing.T) { t.Skip("not built yet") }
