package driver

// Generated publishers and subscribers, executed over an in-memory broker:
// the Go leg of C08 (publish topic == subscribe topic, composition), the
// generated-callback leg of C07 (exactly-once, payload and headers intact) and
// the pub/sub attachment points of C16.

import (
	"bytes"
	"fmt"
	"reflect"
	"sort"
	"strings"
	"sync"
	"testing"
	"time"

	frugal "github.com/Workiva/frugal/lib/go"
	"github.com/apache/thrift/lib/go/thrift"
	"pgregory.net/rapid"
	"verif/ev"
)

type memBroker struct {
	mu        sync.Mutex
	subs      map[string][]frugal.FAsyncCallback
	published []string // topics
	subTopics []string
}

type memPub struct{ b *memBroker }

func (m *memPub) Open() error               { return nil }
func (m *memPub) Close() error              { return nil }
func (m *memPub) IsOpen() bool              { return true }
func (m *memPub) GetPublishSizeLimit() uint { return 0 }
func (m *memPub) Publish(topic string, data []byte) error {
	m.b.mu.Lock()
	m.b.published = append(m.b.published, topic)
	cbs := append([]frugal.FAsyncCallback{}, m.b.subs[topic]...)
	m.b.mu.Unlock()
	for _, cb := range cbs {
		cb(&thrift.TMemoryBuffer{Buffer: bytes.NewBuffer(append([]byte{}, data[4:]...))})
	}
	return nil
}

type memSub struct {
	b     *memBroker
	topic string
}

func (m *memSub) Subscribe(topic string, cb frugal.FAsyncCallback) error {
	m.b.mu.Lock()
	defer m.b.mu.Unlock()
	m.topic = topic
	m.b.subs[topic] = append(m.b.subs[topic], cb)
	m.b.subTopics = append(m.b.subTopics, topic)
	return nil
}
func (m *memSub) Unsubscribe() error {
	m.b.mu.Lock()
	defer m.b.mu.Unlock()
	delete(m.b.subs, m.topic)
	return nil
}
func (m *memSub) IsSubscribed() bool { return true }

type memPubFactory struct{ b *memBroker }
type memSubFactory struct{ b *memBroker }

func (f memPubFactory) GetTransport() frugal.FPublisherTransport  { return &memPub{f.b} }
func (f memSubFactory) GetTransport() frugal.FSubscriberTransport { return &memSub{b: f.b} }

type ScopeCase struct {
	Scope   int      `json:"scope"`
	Op      int      `json:"op"`
	Name    string   `json:"name"`
	Proto   string   `json:"proto"`
	Vars    []string `json:"vars"`
	Payload *Node    `json:"payload"`
	Count   int      `json:"count"` // publishes
	PubMW   []MWSpec `json:"pub_mw,omitempty"`
	SubMW   []MWSpec `json:"sub_mw,omitempty"`
	ProvMW  []MWSpec `json:"prov_mw,omitempty"`
}

func usableScopes() []int {
	var out []int
	for i, s := range Scopes {
		ok := len(s.Ops) > 0
		for _, o := range s.Ops {
			if o.Op == nil {
				ok = false
			}
		}
		if ok {
			out = append(out, i)
		}
	}
	return out
}

func GenScopeCase(t *rapid.T) ScopeCase {
	us := usableScopes()
	if len(us) == 0 {
		t.Skip("no scopes")
	}
	c := ScopeCase{}
	c.Scope = us[rapid.IntRange(0, len(us)-1).Draw(t, "scope")]
	sb := Scopes[c.Scope]
	c.Op = rapid.IntRange(0, len(sb.Ops)-1).Draw(t, "op")
	c.Name = fmt.Sprintf("p%d:%s.%s", sb.Prog, sb.IDLName, sb.Ops[c.Op].IDLName)
	c.Proto = rapid.SampledFrom(Protos).Draw(t, "proto")
	for _, tok := range sb.Decl.Prefix {
		if tok.Var {
			c.Vars = append(c.Vars, rapid.SampledFrom([]string{"alice", "b0b", "tenant-7", "X", "eu_west"}).Draw(t, "var"))
		}
	}
	c.Payload = GenTree(t, Programs[sb.Prog].Model, sb.Ops[c.Op].Op.Type, 1)
	c.Count = rapid.IntRange(1, 3).Draw(t, "count")
	c.PubMW = genMWList(t, "pub")
	c.SubMW = genMWList(t, "sub")
	c.ProvMW = genMWList(t, "prov")
	return c
}

func ClassifyScope(c ScopeCase) ev.Class {
	sb := Scopes[c.Scope]
	labels := []string{"proto=" + c.Proto, fmt.Sprintf("vars=%d", len(c.Vars))}
	if len(c.PubMW)+len(c.SubMW)+len(c.ProvMW) > 0 {
		labels = append(labels, "middleware")
	}
	k := Programs[sb.Prog].Model.KindOf(sb.Ops[c.Op].Op.Type)
	labels = append(labels, "payload="+k)
	return ev.Class{NonTrivial: len(c.Vars) > 0 || k != "base" || len(c.PubMW)+len(c.SubMW)+len(c.ProvMW) >= 2,
		Key: fmt.Sprintf("%s|%s|%s|%v|%s|%d|%v|%v|%v", Programs[sb.Prog].Hash, c.Name, c.Proto, c.Vars, c.Payload.Canon(), c.Count, c.PubMW, c.SubMW, c.ProvMW), Labels: uniqStr(labels)}
}

func CheckScope(c ScopeCase) *ev.Failure {
	var f *ev.Failure
	ok, pn := within(30*time.Second, func() {
		if f = checkScopeInner(c); f == nil {
			f = checkScopeShared(c)
		}
	})
	if !ok {
		return ev.Failf("hang:scope", "%s did not finish in 30s", c.Name)
	}
	if pn != "" {
		return ev.Failf("panic:scope", "%s: %s", c.Name, pn)
	}
	return f
}

func checkScopeInner(c ScopeCase) *ev.Failure {
	if c.Scope >= len(Scopes) || c.Op >= len(Scopes[c.Scope].Ops) {
		return ev.Failf("harness:bad-case", "indices out of range")
	}
	sb := Scopes[c.Scope]
	ob := sb.Ops[c.Op]
	p := Programs[sb.Prog].Model
	what := fmt.Sprintf("scope operation %s over %s", c.Name, c.Proto)
	ctxText := func() string { return "\n" + programText(sb.Prog) }
	broker := &memBroker{subs: map[string][]frugal.FAsyncCallback{}}
	pf := frugal.NewFProtocolFactory(ProtoFactory(c.Proto))
	trace := &mwTrace{}
	provider := frugal.NewFScopeProvider(memPubFactory{broker}, memSubFactory{broker}, pf, buildMW(c.ProvMW, "prov", trace, false)...)
	pub := sb.NewPublisher(provider, buildMW(c.PubMW, "pub", trace, false)...)
	sub := sb.NewSubscriber(provider, buildMW(c.SubMW, "sub", trace, false)...)
	if o := reflect.ValueOf(pub).MethodByName("Open"); o.IsValid() {
		o.Call(nil)
	}
	sm := reflect.ValueOf(sub).MethodByName(ob.SubscribeName)
	pm := reflect.ValueOf(pub).MethodByName(ob.PublishName)
	if !sm.IsValid() || !pm.IsValid() {
		return ev.Failf("binding-problem", "%s: generated publisher/subscriber lack %s / %s%s", what, ob.PublishName, ob.SubscribeName, ctxText())
	}
	st, pt := sm.Type(), pm.Type()
	if st.NumIn() != len(c.Vars)+1 || pt.NumIn() != len(c.Vars)+2 {
		return ev.Failf("signature", "%s: Subscribe takes %d and Publish %d parameters for %d prefix variables%s", what, st.NumIn(), pt.NumIn(), len(c.Vars), ctxText())
	}
	type delivery struct {
		headers map[string]string
		value   reflect.Value
	}
	var mu sync.Mutex
	var got []delivery
	ht := st.In(len(c.Vars))
	handler := reflect.MakeFunc(ht, func(args []reflect.Value) []reflect.Value {
		mu.Lock()
		trace.add("handler")
		got = append(got, delivery{args[0].Interface().(frugal.FContext).RequestHeaders(), args[1]})
		mu.Unlock()
		return nil
	})
	var sin []reflect.Value
	for _, v := range c.Vars {
		sin = append(sin, reflect.ValueOf(v))
	}
	sin = append(sin, handler)
	sres := sm.Call(sin)
	if e := sres[len(sres)-1]; !e.IsNil() {
		return ev.Failf("subscribe-error", "%s: %v%s", what, e.Interface(), ctxText())
	}
	payload, err := FromTree(p, ob.Op.Type, pt.In(len(c.Vars)+1), c.Payload)
	if err != nil {
		return ev.Failf("go-representation", "%s: cannot build the payload: %v%s", what, err, ctxText())
	}
	var cids []string
	for i := 0; i < c.Count; i++ {
		fctx := frugal.NewFContext(fmt.Sprintf("cid-%d", i))
		fctx.AddRequestHeader("user-header", fmt.Sprintf("value-%d", i))
		cids = append(cids, fctx.CorrelationID())
		pin := []reflect.Value{reflect.ValueOf(fctx)}
		for _, v := range c.Vars {
			pin = append(pin, reflect.ValueOf(v))
		}
		pin = append(pin, payload)
		pres := pm.Call(pin)
		if e := pres[len(pres)-1]; !e.IsNil() {
			return ev.Failf("publish-error", "%s: %v%s", what, e.Interface(), ctxText())
		}
	}
	// topics: what the publisher used equals what the subscriber subscribed to, and is composed as documented
	broker.mu.Lock()
	pubTopics, subTopics := append([]string{}, broker.published...), append([]string{}, broker.subTopics...)
	broker.mu.Unlock()
	if len(subTopics) != 1 || len(pubTopics) != c.Count {
		return ev.Failf("topic-count", "%s: %d subscriptions, %d publishes%s", what, len(subTopics), len(pubTopics), ctxText())
	}
	for _, tp := range pubTopics {
		if tp != subTopics[0] {
			return ev.Failf("pub-sub-topic-disagree", "%s: published on %q, subscribed to %q%s", what, tp, subTopics[0], ctxText())
		}
	}
	var parts []string
	vi := 0
	for _, tok := range sb.Decl.Prefix {
		if tok.Var {
			parts = append(parts, c.Vars[vi])
			vi++
		} else {
			parts = append(parts, tok.Text)
		}
	}
	okTopic := false
	for _, sc := range []string{sb.IDLName, strings.ToUpper(sb.IDLName[:1]) + sb.IDLName[1:]} {
		if strings.Join(append(append([]string{}, parts...), sc, ob.IDLName), ".") == subTopics[0] {
			okTopic = true
		}
	}
	if !okTopic {
		return ev.Failf("topic-composition", "%s: topic %q is not prefix.scope.operation for prefix tokens %v%s", what, subTopics[0], parts, ctxText())
	}
	// deliveries: exactly once each, payload and headers intact
	mu.Lock()
	defer mu.Unlock()
	if len(got) != c.Count {
		return ev.Failf("delivery-count", "%s: %d publishes, handler invoked %d times%s", what, c.Count, len(got), ctxText())
	}
	for i, d := range got {
		n, err := ExpectValue(p, ob.Op.Type, d.value)
		if err != nil {
			return ev.Failf("go-representation", "%s: delivered payload: %v%s", what, err, ctxText())
		}
		if n.Canon() != c.Payload.Canon() {
			return ev.Failf("payload-mismatch", "%s: delivery %d payload differs\n   published: %s\n   delivered: %s%s", what, i, c.Payload.Canon(), n.Canon(), ctxText())
		}
		if d.headers["_cid"] != cids[i] || d.headers["user-header"] != fmt.Sprintf("value-%d", i) {
			return ev.Failf("headers-mismatch", "%s: delivery %d headers %v%s", what, i, d.headers, ctxText())
		}
		vi := 0
		for _, tok := range sb.Decl.Prefix {
			if tok.Var {
				if d.headers["_topic_"+tok.Text] != c.Vars[vi] {
					return ev.Failf("topic-header", "%s: header _topic_%s = %q, variable value %q%s", what, tok.Text, d.headers["_topic_"+tok.Text], c.Vars[vi], ctxText())
				}
				vi++
			}
		}
	}
	// middleware order (C16): publisher list = ctor ++ provider, later-listed wraps earlier; same for the subscriber
	if len(c.PubMW)+len(c.SubMW)+len(c.ProvMW) > 0 {
		var want []string
		pubChain := append(append([]MWSpec{}, c.PubMW...), c.ProvMW...)
		subChain := append(append([]MWSpec{}, c.SubMW...), c.ProvMW...)
		for i := 0; i < c.Count; i++ {
			for j := len(pubChain) - 1; j >= 0; j-- {
				want = append(want, "enter:"+mwName(pubChain, j, len(c.PubMW), "pub", "prov"))
			}
			for j := len(subChain) - 1; j >= 0; j-- {
				want = append(want, "enter:"+mwName(subChain, j, len(c.SubMW), "sub", "prov"))
			}
			want = append(want, "handler")
			for j := 0; j < len(subChain); j++ {
				want = append(want, "exit:"+mwName(subChain, j, len(c.SubMW), "sub", "prov"))
			}
			for j := 0; j < len(pubChain); j++ {
				want = append(want, "exit:"+mwName(pubChain, j, len(c.PubMW), "pub", "prov"))
			}
		}
		if g := trace.snapshot(); strings.Join(g, " ") != strings.Join(want, " ") {
			return ev.Failf("middleware-order:scope", "%s: middleware trace differs\n   want: %v\n   got : %v%s", what, want, g, ctxText())
		}
	}
	return nil
}

// checkScopeShared: one publisher used by several goroutines at once with different prefix
// variable values (every message goes to the topic of its own values), and one subscriber object
// subscribing the same operation twice with different handlers (every delivery reaches the handler
// of its own subscription).
func checkScopeShared(c ScopeCase) *ev.Failure {
	sb := Scopes[c.Scope]
	ob := sb.Ops[c.Op]
	p := Programs[sb.Prog].Model
	what := fmt.Sprintf("scope operation %s over %s", c.Name, c.Proto)
	ctxText := func() string { return "\n" + programText(sb.Prog) }
	broker := &memBroker{subs: map[string][]frugal.FAsyncCallback{}}
	pf := frugal.NewFProtocolFactory(ProtoFactory(c.Proto))
	provider := frugal.NewFScopeProvider(memPubFactory{broker}, memSubFactory{broker}, pf)
	pub := sb.NewPublisher(provider)
	sub := sb.NewSubscriber(provider)
	if o := reflect.ValueOf(pub).MethodByName("Open"); o.IsValid() {
		o.Call(nil)
	}
	sm := reflect.ValueOf(sub).MethodByName(ob.SubscribeName)
	pm := reflect.ValueOf(pub).MethodByName(ob.PublishName)
	st, pt := sm.Type(), pm.Type()
	payload, err := FromTree(p, ob.Op.Type, pt.In(len(c.Vars)+1), c.Payload)
	if err != nil {
		return nil
	}
	varsOf := func(tag string) []string {
		var out []string
		for i := range c.Vars {
			out = append(out, fmt.Sprintf("%s%d", tag, i))
		}
		return out
	}
	// two subscriptions of one subscriber object, each with its own handler
	ht := st.In(len(c.Vars))
	var mu sync.Mutex
	counts := map[string]int{}
	subscribe := func(tag string) *ev.Failure {
		handler := reflect.MakeFunc(ht, func(args []reflect.Value) []reflect.Value {
			mu.Lock()
			counts[tag]++
			mu.Unlock()
			return nil
		})
		var in []reflect.Value
		for _, v := range varsOf(tag) {
			in = append(in, reflect.ValueOf(v))
		}
		res := sm.Call(append(in, handler))
		if e := res[len(res)-1]; !e.IsNil() {
			return ev.Failf("subscribe-error", "%s: second subscription: %v%s", what, e.Interface(), ctxText())
		}
		return nil
	}
	publish := func(tag string) error {
		in := []reflect.Value{reflect.ValueOf(frugal.NewFContext("cid-" + tag))}
		for _, v := range varsOf(tag) {
			in = append(in, reflect.ValueOf(v))
		}
		res := pm.Call(append(in, payload))
		if e := res[len(res)-1]; !e.IsNil() {
			return e.Interface().(error)
		}
		return nil
	}
	for _, tag := range []string{"first", "second"} {
		if f := subscribe(tag); f != nil {
			return f
		}
	}
	if err := publish("second"); err != nil {
		return ev.Failf("publish-error", "%s: %v%s", what, err, ctxText())
	}
	mu.Lock()
	first, second := counts["first"], counts["second"]
	mu.Unlock()
	wantFirst := 0
	if len(c.Vars) == 0 {
		wantFirst = 1 // both subscriptions are on the same topic
	}
	if second != 1 || first != wantFirst {
		return ev.Failf("delivery-to-wrong-subscription", "%s: one subscriber object subscribed twice (handlers 'first' and 'second'%s); a message for the second subscription invoked first x%d, second x%d%s",
			what, map[bool]string{true: ", different prefix values", false: ", same topic"}[len(c.Vars) > 0], first, second, ctxText())
	}
	if len(c.Vars) == 0 {
		return nil
	}
	// one publisher, concurrent publishes with different prefix values
	broker.mu.Lock()
	broker.published = nil
	subTopic := broker.subTopics[0] // <prefix with first0..>.<Scope>.<op>
	broker.mu.Unlock()
	const n = 12
	var wg sync.WaitGroup
	start := make(chan struct{})
	errs := make([]error, n)
	for i := 0; i < n; i++ {
		wg.Add(1)
		go func(i int) {
			defer wg.Done()
			<-start
			errs[i] = publish(fmt.Sprintf("g%dv", i))
		}(i)
	}
	close(start)
	wg.Wait()
	for _, e := range errs {
		if e != nil {
			return ev.Failf("publish-error", "%s: concurrent publish: %v%s", what, e, ctxText())
		}
	}
	var want []string
	for i := 0; i < n; i++ {
		tp := subTopic
		for j := range c.Vars {
			tp = strings.Replace(tp, fmt.Sprintf("first%d", j), fmt.Sprintf("g%dv%d", i, j), 1)
		}
		want = append(want, tp)
	}
	broker.mu.Lock()
	gotTopics := append([]string{}, broker.published...)
	broker.mu.Unlock()
	sort.Strings(want)
	sort.Strings(gotTopics)
	if strings.Join(want, " ") != strings.Join(gotTopics, " ") {
		return ev.Failf("concurrent-publish-topics", "%s: %d concurrent publishes on one publisher, each with its own prefix values\n   want topics: %v\n   got topics : %v%s", what, n, want, gotTopics, ctxText())
	}
	return nil
}

func mwName(chain []MWSpec, j, nFirst int, first, second string) string {
	if j < nFirst {
		return fmt.Sprintf("%s%d", first, j)
	}
	return fmt.Sprintf("%s%d", second, j-nFirst)
}

var ScopeProp = ev.Prop("bed.scopes", GenScopeCase, CheckScope, ClassifyScope, func(c ScopeCase) interface{} {
	return map[string]interface{}{"operation": c.Name, "proto": c.Proto, "vars": c.Vars, "payload": c.Payload.Canon(), "publishes": c.Count}
})

func RunScopes(t *testing.T) { rapid.Check(t, ScopeProp) }
