package driver

// Schema-less Thrift value trees: a generic reader/writer on top of
// thrift.TProtocol (works for binary, compact and JSON because every protocol
// carries the wire types), and a canonical form for comparison.

import (
	"context"
	"fmt"
	"math"
	"sort"
	"strings"

	"github.com/apache/thrift/lib/go/thrift"
)

var bg = context.Background()

type FieldNode struct {
	ID  int16 `json:"id"`
	Val *Node `json:"v"`
}

type Node struct {
	T      thrift.TType `json:"t"`
	B      bool         `json:"b,omitempty"`
	I      int64        `json:"i,omitempty"`
	DB     uint64       `json:"d,omitempty"`   // DOUBLE, as IEEE-754 bits (JSON cannot carry Inf)
	S      []byte       `json:"s,omitempty"`   // STRING (string or binary)
	Bin    bool         `json:"bin,omitempty"` // STRING that the IDL declares as binary (matters for the JSON protocol: base64)
	Fields []FieldNode  `json:"f,omitempty"`
	ET     thrift.TType `json:"et,omitempty"` // LIST / SET element type
	KT     thrift.TType `json:"kt,omitempty"` // MAP
	VT     thrift.TType `json:"vt,omitempty"`
	Elems  []*Node      `json:"e,omitempty"` // LIST / SET elements, MAP values
	Keys   []*Node      `json:"k,omitempty"` // MAP keys
}

func (n *Node) Float() float64 { return math.Float64frombits(n.DB) }

// Canon renders a canonical form: struct fields by id, sets and maps sorted.
func (n *Node) Canon() string {
	var b strings.Builder
	n.canon(&b)
	return b.String()
}

func (n *Node) canon(b *strings.Builder) {
	switch n.T {
	case thrift.BOOL:
		fmt.Fprintf(b, "bool:%v", n.B)
	case thrift.BYTE:
		fmt.Fprintf(b, "i8:%d", n.I)
	case thrift.I16:
		fmt.Fprintf(b, "i16:%d", n.I)
	case thrift.I32:
		fmt.Fprintf(b, "i32:%d", n.I)
	case thrift.I64:
		fmt.Fprintf(b, "i64:%d", n.I)
	case thrift.DOUBLE:
		fmt.Fprintf(b, "double:%016x", n.DB)
	case thrift.STRING:
		fmt.Fprintf(b, "str:%x", n.S)
	case thrift.STRUCT:
		fs := append([]FieldNode{}, n.Fields...)
		sort.SliceStable(fs, func(i, j int) bool { return fs[i].ID < fs[j].ID })
		b.WriteString("{")
		for _, f := range fs {
			fmt.Fprintf(b, "%d=", f.ID)
			f.Val.canon(b)
			b.WriteString(";")
		}
		b.WriteString("}")
	case thrift.LIST:
		fmt.Fprintf(b, "list<%d>[", n.ET)
		for _, e := range n.Elems {
			e.canon(b)
			b.WriteString(",")
		}
		b.WriteString("]")
	case thrift.SET:
		var es []string
		for _, e := range n.Elems {
			es = append(es, e.Canon())
		}
		sort.Strings(es)
		fmt.Fprintf(b, "set<%d>[%s]", n.ET, strings.Join(es, ","))
	case thrift.MAP:
		var es []string
		for i := range n.Keys {
			es = append(es, n.Keys[i].Canon()+"=>"+n.Elems[i].Canon())
		}
		sort.Strings(es)
		if len(es) == 0 {
			// the compact protocol does not carry the key/value types of an empty map
			b.WriteString("map[]")
		} else {
			fmt.Fprintf(b, "map<%d,%d>[%s]", n.KT, n.VT, strings.Join(es, ","))
		}
	default:
		fmt.Fprintf(b, "?type%d", n.T)
	}
}

// containerTypeMatters: an empty container's element type is not observable in
// every protocol in the same way; canon keeps it, which is what the IDL declares.

// ReadTree reads a value of wire type t.
func ReadTree(p thrift.TProtocol, t thrift.TType, depth int) (*Node, error) {
	return ReadTreeHint(p, t, depth, nil)
}

func hintField(h *Node, id int16) *Node {
	if h == nil {
		return nil
	}
	for _, f := range h.Fields {
		if f.ID == id {
			return f.Val
		}
	}
	return nil
}

func hintElem(h *Node, i int, keys bool) *Node {
	if h == nil {
		return nil
	}
	l := h.Elems
	if keys {
		l = h.Keys
	}
	if len(l) == 0 {
		return nil
	}
	return l[i%len(l)]
}

// ReadTreeHint is ReadTree with a hint tree that tells string from binary
// leaves (text protocols encode them differently).
func ReadTreeHint(p thrift.TProtocol, t thrift.TType, depth int, hint *Node) (*Node, error) {
	if depth > 64 {
		return nil, fmt.Errorf("nesting too deep")
	}
	n := &Node{T: t}
	var err error
	switch t {
	case thrift.BOOL:
		n.B, err = p.ReadBool(bg)
	case thrift.BYTE:
		var v int8
		v, err = p.ReadByte(bg)
		n.I = int64(v)
	case thrift.I16:
		var v int16
		v, err = p.ReadI16(bg)
		n.I = int64(v)
	case thrift.I32:
		var v int32
		v, err = p.ReadI32(bg)
		n.I = int64(v)
	case thrift.I64:
		n.I, err = p.ReadI64(bg)
	case thrift.DOUBLE:
		var d float64
		d, err = p.ReadDouble(bg)
		n.DB = math.Float64bits(d)
	case thrift.STRING:
		if hint != nil && hint.Bin {
			n.Bin = true
			n.S, err = p.ReadBinary(bg)
		} else {
			var str string
			str, err = p.ReadString(bg)
			n.S = []byte(str)
		}
		if n.S == nil {
			n.S = []byte{}
		}
	case thrift.STRUCT:
		if _, err = p.ReadStructBegin(bg); err != nil {
			return nil, err
		}
		for {
			_, ft, id, e := p.ReadFieldBegin(bg)
			if e != nil {
				return nil, e
			}
			if ft == thrift.STOP {
				break
			}
			v, e := ReadTreeHint(p, ft, depth+1, hintField(hint, id))
			if e != nil {
				return nil, fmt.Errorf("field %d: %v", id, e)
			}
			n.Fields = append(n.Fields, FieldNode{id, v})
			if e := p.ReadFieldEnd(bg); e != nil {
				return nil, e
			}
		}
		err = p.ReadStructEnd(bg)
	case thrift.LIST, thrift.SET:
		var et thrift.TType
		var size int
		if t == thrift.LIST {
			et, size, err = p.ReadListBegin(bg)
		} else {
			et, size, err = p.ReadSetBegin(bg)
		}
		if err != nil {
			return nil, err
		}
		n.ET = et
		for i := 0; i < size; i++ {
			v, e := ReadTreeHint(p, et, depth+1, hintElem(hint, i, false))
			if e != nil {
				return nil, e
			}
			n.Elems = append(n.Elems, v)
		}
		if t == thrift.LIST {
			err = p.ReadListEnd(bg)
		} else {
			err = p.ReadSetEnd(bg)
		}
	case thrift.MAP:
		kt, vt, size, e := p.ReadMapBegin(bg)
		if e != nil {
			return nil, e
		}
		n.KT, n.VT = kt, vt
		for i := 0; i < size; i++ {
			k, e := ReadTreeHint(p, kt, depth+1, hintElem(hint, i, true))
			if e != nil {
				return nil, e
			}
			v, e := ReadTreeHint(p, vt, depth+1, hintElem(hint, i, false))
			if e != nil {
				return nil, e
			}
			n.Keys = append(n.Keys, k)
			n.Elems = append(n.Elems, v)
		}
		err = p.ReadMapEnd(bg)
	default:
		err = fmt.Errorf("unexpected wire type %d", t)
	}
	return n, err
}

// WriteTree writes a node; struct fields in the order given.
func WriteTree(p thrift.TProtocol, n *Node) error {
	switch n.T {
	case thrift.BOOL:
		return p.WriteBool(bg, n.B)
	case thrift.BYTE:
		return p.WriteByte(bg, int8(n.I))
	case thrift.I16:
		return p.WriteI16(bg, int16(n.I))
	case thrift.I32:
		return p.WriteI32(bg, int32(n.I))
	case thrift.I64:
		return p.WriteI64(bg, n.I)
	case thrift.DOUBLE:
		return p.WriteDouble(bg, n.Float())
	case thrift.STRING:
		if n.Bin {
			return p.WriteBinary(bg, n.S)
		}
		return p.WriteString(bg, string(n.S))
	case thrift.STRUCT:
		if err := p.WriteStructBegin(bg, "s"); err != nil {
			return err
		}
		for _, f := range n.Fields {
			if err := p.WriteFieldBegin(bg, "f", f.Val.T, f.ID); err != nil {
				return err
			}
			if err := WriteTree(p, f.Val); err != nil {
				return err
			}
			if err := p.WriteFieldEnd(bg); err != nil {
				return err
			}
		}
		if err := p.WriteFieldStop(bg); err != nil {
			return err
		}
		return p.WriteStructEnd(bg)
	case thrift.LIST, thrift.SET:
		var err error
		if n.T == thrift.LIST {
			err = p.WriteListBegin(bg, n.ET, len(n.Elems))
		} else {
			err = p.WriteSetBegin(bg, n.ET, len(n.Elems))
		}
		if err != nil {
			return err
		}
		for _, e := range n.Elems {
			if err := WriteTree(p, e); err != nil {
				return err
			}
		}
		if n.T == thrift.LIST {
			return p.WriteListEnd(bg)
		}
		return p.WriteSetEnd(bg)
	case thrift.MAP:
		if err := p.WriteMapBegin(bg, n.KT, n.VT, len(n.Keys)); err != nil {
			return err
		}
		for i := range n.Keys {
			if err := WriteTree(p, n.Keys[i]); err != nil {
				return err
			}
			if err := WriteTree(p, n.Elems[i]); err != nil {
				return err
			}
		}
		return p.WriteMapEnd(bg)
	}
	return fmt.Errorf("cannot write wire type %d", n.T)
}
