package driver

// C02 — generated Go types encode and decode exactly what the IDL declares.

import (
	"bytes"
	"fmt"
	"io"
	"reflect"
	"sort"
	"testing"

	"github.com/apache/thrift/lib/go/thrift"
	"pgregory.net/rapid"
	"verif/ev"
	idl "verif/idl"
)

func ProtoFactory(name string) thrift.TProtocolFactory {
	switch name {
	case "compact":
		return thrift.NewTCompactProtocolFactoryConf(nil)
	case "json":
		return thrift.NewTJSONProtocolFactory()
	}
	return thrift.NewTBinaryProtocolFactoryConf(nil)
}

var Protos = []string{"binary", "compact", "json"}

type C02Case struct {
	Struct       int         `json:"struct"`
	Name         string      `json:"name"` // informational
	Proto        string      `json:"proto"`
	Tree         *Node       `json:"tree"`
	Rot          int         `json:"rot"`     // rotation of the field order on the wire
	Unknown      []FieldNode `json:"unknown"` // unknown fields interleaved
	DropRequired int         `json:"drop_required"`
}

func genUnknownValue(t *rapid.T, depth int) *Node {
	k := rapid.IntRange(0, 7).Draw(t, "ukind")
	if depth > 1 && k > 4 {
		k = 1
	}
	switch k {
	case 0:
		return &Node{T: thrift.BOOL, B: rapid.Bool().Draw(t, "ub")}
	case 1:
		return &Node{T: thrift.I32, I: int64(rapid.Int32().Draw(t, "ui"))}
	case 2:
		return &Node{T: thrift.STRING, S: []byte(rapid.StringMatching(`[a-z]{0,6}`).Draw(t, "us"))}
	case 3:
		return &Node{T: thrift.I64, I: rapid.Int64().Draw(t, "ul")}
	case 4:
		return &Node{T: thrift.DOUBLE, DB: 0x3ff8000000000000}
	case 5:
		n := &Node{T: thrift.LIST, ET: thrift.I32}
		for i, c := 0, rapid.IntRange(0, 3).Draw(t, "ulen"); i < c; i++ {
			n.Elems = append(n.Elems, &Node{T: thrift.I32, I: int64(i)})
		}
		return n
	case 6:
		n := &Node{T: thrift.MAP, KT: thrift.STRING, VT: thrift.STRUCT}
		for i, c := 0, rapid.IntRange(0, 2).Draw(t, "umlen"); i < c; i++ {
			n.Keys = append(n.Keys, &Node{T: thrift.STRING, S: []byte(fmt.Sprint("k", i))})
			n.Elems = append(n.Elems, &Node{T: thrift.STRUCT, Fields: []FieldNode{{1, genUnknownValue(t, depth+1)}}})
		}
		return n
	default:
		return &Node{T: thrift.STRUCT, Fields: []FieldNode{{7, genUnknownValue(t, depth+1)}, {9, &Node{T: thrift.BYTE, I: 3}}}}
	}
}

func GenC02(t *rapid.T) C02Case {
	if len(Structs) == 0 {
		t.Skip("no structs registered")
	}
	c := C02Case{}
	c.Struct = rapid.IntRange(0, len(Structs)-1).Draw(t, "struct")
	sb := Structs[c.Struct]
	c.Name = fmt.Sprintf("p%d:%s", sb.Prog, sb.IDLName)
	c.Proto = rapid.SampledFrom(Protos).Draw(t, "proto")
	p := Programs[sb.Prog].Model
	c.Tree = GenStructTree(t, p, sb.Decl, 0)
	c.Rot = rapid.IntRange(0, 7).Draw(t, "rot")
	used := map[int]bool{}
	for _, f := range sb.Decl.Fields {
		used[f.ID] = true
	}
	for i, n := 0, rapid.IntRange(0, 3).Draw(t, "nunknown"); i < n; i++ {
		id := rapid.IntRange(1, 40).Draw(t, "uid")
		if used[id] {
			id += 1000
		}
		used[id] = true
		c.Unknown = append(c.Unknown, FieldNode{int16(id), genUnknownValue(t, 0)})
	}
	c.DropRequired = -1
	if rapid.IntRange(0, 5).Draw(t, "drop?") == 0 {
		var req []int
		for _, f := range sb.Decl.Fields {
			if f.Req == "required" && sb.Decl.Kind != "union" {
				req = append(req, f.ID)
			}
		}
		if len(req) > 0 {
			c.DropRequired = req[rapid.IntRange(0, len(req)-1).Draw(t, "dropidx")]
		}
	}
	return c
}

func typeFeatures(p *idl.Program, fi int, d *idl.Decl) []string {
	var out []string
	for _, f := range d.Fields {
		if f.Type.Kind == "ref" {
			if dd := p.Decl(f.Type.File, f.Type.Name); dd != nil && dd.Kind == "typedef" {
				out = append(out, "typedef-field")
			}
			if f.Type.File != fi {
				out = append(out, "include-qualified-field")
			}
		}
		k := p.KindOf(f.Type)
		if k == "list" || k == "set" || k == "map" {
			r := p.Resolve(f.Type)
			if typeHasCustom(r) {
				out = append(out, "container-of-custom-type")
			}
			if r.Val != nil && (r.Val.Kind == "list" || r.Val.Kind == "set" || r.Val.Kind == "map") {
				out = append(out, "nested-container")
			}
		}
		out = append(out, "kind="+k)
	}
	return out
}

func typeHasCustom(t *idl.Type) bool {
	if t == nil {
		return false
	}
	return t.Kind == "ref" || typeHasCustom(t.Key) || typeHasCustom(t.Val)
}

func ClassifyC02(c C02Case) ev.Class {
	sb := Structs[c.Struct]
	p := Programs[sb.Prog].Model
	labels := []string{"proto=" + c.Proto, "decl=" + sb.Decl.Kind}
	if sb.Synth {
		labels = append(labels, "args-or-result-struct")
	}
	feats := typeFeatures(p, sb.File, sb.Decl)
	labels = append(labels, feats...)
	if len(c.Unknown) > 0 {
		labels = append(labels, "unknown-fields")
	}
	if c.DropRequired >= 0 {
		labels = append(labels, "missing-required")
	}
	interesting := false
	for _, f := range feats {
		if f == "typedef-field" || f == "include-qualified-field" || f == "container-of-custom-type" {
			interesting = true
		}
	}
	sort.Strings(labels)
	return ev.Class{NonTrivial: interesting && len(c.Tree.Fields) > 0, Key: fmt.Sprintf("%s|%s|%s|%d|%d|%d", Programs[sb.Prog].Hash, sb.IDLName, c.Tree.Canon(), c.Rot, len(c.Unknown), c.DropRequired) + c.Proto, Labels: uniqStr(labels)}
}

func uniqStr(s []string) []string {
	sort.Strings(s)
	out := s[:0]
	for i, x := range s {
		if i == 0 || x != s[i-1] {
			out = append(out, x)
		}
	}
	return out
}

func programText(prog int) string {
	var ks []string
	for k := range Programs[prog].Text {
		ks = append(ks, k)
	}
	sort.Strings(ks)
	s := ""
	for _, k := range ks {
		s += "=== " + k + "\n" + Programs[prog].Text[k] + "\n"
	}
	return s
}

func catchPanic(f func()) (p string) {
	defer func() {
		if r := recover(); r != nil {
			p = fmt.Sprintf("panic: %v", r)
		}
	}()
	f()
	return ""
}

func CheckC02(c C02Case) *ev.Failure {
	if c.Struct >= len(Structs) {
		return ev.Failf("harness:bad-case", "struct index %d out of range", c.Struct)
	}
	sb := Structs[c.Struct]
	p := Programs[sb.Prog].Model
	pf := ProtoFactory(c.Proto)
	what := fmt.Sprintf("%s %s (program %d) over %s", sb.Decl.Kind, sb.IDLName, sb.Prog, c.Proto)
	ctx := func() string { return "\n--- tree: " + c.Tree.Canon() + "\n" + programText(sb.Prog) }

	encode := func(n *Node) []byte {
		buf := thrift.NewTMemoryBuffer()
		pr := pf.GetProtocol(buf)
		WriteTree(pr, n)
		pr.Flush(bg)
		return append([]byte{}, buf.Bytes()...)
	}
	// missing required field must be rejected
	if c.DropRequired >= 0 {
		t2 := &Node{T: thrift.STRUCT}
		found := false
		for _, f := range c.Tree.Fields {
			if int(f.ID) == c.DropRequired {
				found = true
				continue
			}
			t2.Fields = append(t2.Fields, f)
		}
		if found {
			obj := sb.New()
			var err error
			if pn := catchPanic(func() {
				err = obj.Read(bg, pf.GetProtocol(&thrift.TMemoryBuffer{Buffer: bytes.NewBuffer(encode(t2))}))
			}); pn != "" {
				return ev.Failf("read-panic", "%s: Read panicked on an encoding without required field %d: %s%s", what, c.DropRequired, pn, ctx())
			}
			if err == nil {
				return ev.Failf("missing-required-accepted", "%s: Read accepted an encoding that lacks required field %d%s", what, c.DropRequired, ctx())
			}
		}
	}
	// the wire form: declared fields rotated, unknown fields interleaved
	wire := &Node{T: thrift.STRUCT}
	fs := append([]FieldNode{}, c.Tree.Fields...)
	if len(fs) > 1 {
		r := c.Rot % len(fs)
		fs = append(fs[r:], fs[:r]...)
	}
	for i, f := range fs {
		if i < len(c.Unknown) {
			wire.Fields = append(wire.Fields, c.Unknown[i])
		}
		wire.Fields = append(wire.Fields, f)
	}
	for i := len(fs); i < len(c.Unknown); i++ {
		wire.Fields = append(wire.Fields, c.Unknown[i])
	}
	data := encode(wire)
	obj := sb.New()
	var err error
	if pn := catchPanic(func() { err = obj.Read(bg, pf.GetProtocol(&thrift.TMemoryBuffer{Buffer: bytes.NewBuffer(data)})) }); pn != "" {
		return ev.Failf("read-panic", "%s: Read panicked on a conforming encoding: %s%s", what, pn, ctx())
	}
	if err != nil {
		return ev.Failf("conforming-encoding-rejected", "%s: Read rejects a conforming encoding (fields rotated by %d, %d unknown fields): %v%s", what, c.Rot, len(c.Unknown), err, ctx())
	}
	got, serr := ExpectStruct(p, sb.Decl, reflect.ValueOf(obj))
	if serr != nil {
		return ev.Failf("go-representation", "%s: after Read the Go value does not represent the declaration: %v%s", what, serr, ctx())
	}
	if got.Canon() != c.Tree.Canon() {
		return ev.Failf("read-mismatch", "%s: Read produced a different value\n   sent: %s\n   got : %s%s", what, c.Tree.Canon(), got.Canon(), ctx())
	}
	// write it back
	out := thrift.NewTMemoryBuffer()
	opr := pf.GetProtocol(out)
	if pn := catchPanic(func() {
		if err = obj.Write(bg, opr); err == nil {
			err = opr.Flush(bg)
		}
	}); pn != "" {
		return ev.Failf("write-panic", "%s: Write panicked: %s%s", what, pn, ctx())
	}
	if err != nil {
		return ev.Failf("write-error", "%s: Write failed on a value it had just read: %v%s", what, err, ctx())
	}
	rb := &thrift.TMemoryBuffer{Buffer: bytes.NewBuffer(append([]byte{}, out.Bytes()...))}
	back, rerr := ReadTreeHint(pf.GetProtocol(rb), thrift.STRUCT, 0, SchemaOfDecl(p, sb.Decl, 0))
	if rerr != nil {
		return ev.Failf("write-malformed", "%s: what Write emitted cannot be parsed as a struct: %v%s", what, rerr, ctx())
	}
	if rest, _ := io.ReadAll(rb); len(bytes.TrimSpace(rest)) != 0 {
		return ev.Failf("write-trailing", "%s: %d trailing bytes after the struct%s", what, len(rest), ctx())
	}
	if back.Canon() != c.Tree.Canon() {
		return ev.Failf("write-mismatch", "%s: Write emitted field ids / wire types / values that differ from the declaration\n   expected: %s\n   written : %s%s", what, c.Tree.Canon(), back.Canon(), ctx())
	}
	return nil
}

var C02Prop = ev.Prop("c02.roundtrip", GenC02, CheckC02, ClassifyC02, func(c C02Case) interface{} {
	return map[string]interface{}{"type": c.Name, "proto": c.Proto, "tree": c.Tree.Canon(), "unknown_fields": len(c.Unknown), "rotation": c.Rot, "drop_required": c.DropRequired}
})

func RunC02(t *testing.T) { rapid.Check(t, C02Prop) }
