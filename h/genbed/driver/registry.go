package driver

// Registry filled by the generated reg file of a bed: models, constructors of
// generated struct types, service and scope bindings.

import (
	"crypto/sha256"
	"encoding/json"
	"fmt"
	"reflect"
	"sort"

	frugal "github.com/Workiva/frugal/lib/go"
	"github.com/apache/thrift/lib/go/thrift"
	idl "verif/idl"
)

type ProgramInfo struct {
	Index int
	Model *idl.Program
	Text  map[string]string // rendered IDL
	Hash  string            // identifies the program text
}

type StructBinding struct {
	Prog    int
	File    int    // model file index
	IDLName string // declaration name, or "<service>.<method>_args" / "_result"
	Decl    *idl.Decl
	New     func() thrift.TStruct
	Synth   bool // args/result struct synthesised from a service method
}

type MethodBinding struct {
	IDLName string
	GoName  string
	Method  *idl.Method
	Owner   string // service that declares it (for inherited methods)
}

type ServiceBinding struct {
	Prog         int
	File         int
	IDLName      string
	Decl         *idl.Decl
	NewClient    func(p *frugal.FServiceProvider, mw ...frugal.ServiceMiddleware) interface{}
	NewProcessor func(handler interface{}, mw ...frugal.ServiceMiddleware) frugal.FProcessor
	NewStub      func(rec Recorder) interface{}
	Methods      []MethodBinding // own and inherited
}

type OpBinding struct {
	IDLName       string
	PublishName   string // Go method on the publisher
	SubscribeName string // Go method on the subscriber
	Op            *idl.Op
}

type ScopeBinding struct {
	Prog          int
	File          int
	IDLName       string
	Decl          *idl.Decl
	NewPublisher  func(p *frugal.FScopeProvider, mw ...frugal.ServiceMiddleware) interface{}
	NewSubscriber func(p *frugal.FScopeProvider, mw ...frugal.ServiceMiddleware) interface{}
	Ops           []OpBinding
}

// Recorder is what generated stub handlers call.
type Recorder interface {
	Call(method string, args []interface{}, ret reflect.Type) (result interface{}, err error)
}

var (
	Programs []*ProgramInfo
	Structs  []*StructBinding
	Services []*ServiceBinding
	Scopes   []*ScopeBinding
	Problems []string // binding problems found while building the bed (declaration without counterpart, ...)
)

func RegisterProgram(index int, modelJSON string, texts map[string]string) {
	var p idl.Program
	if err := json.Unmarshal([]byte(modelJSON), &p); err != nil {
		panic(fmt.Sprintf("bad model json for program %d: %v", index, err))
	}
	for len(Programs) <= index {
		Programs = append(Programs, nil)
	}
	h := sha256.New()
	var ks []string
	for k := range texts {
		ks = append(ks, k)
	}
	sort.Strings(ks)
	for _, k := range ks {
		h.Write([]byte(k + "\x00" + texts[k] + "\x00"))
	}
	Programs[index] = &ProgramInfo{Index: index, Model: &p, Text: texts, Hash: fmt.Sprintf("%x", h.Sum(nil)[:8])}
}

func findDecl(p *idl.Program, file int, name string) *idl.Decl {
	for _, d := range p.Files[file].Decls {
		if d.Name == name {
			return d
		}
	}
	return nil
}

func RegisterStruct(prog, file int, idlName string, ctor func() thrift.TStruct) {
	d := findDecl(Programs[prog].Model, file, idlName)
	if d == nil {
		Problems = append(Problems, fmt.Sprintf("program %d: registered struct %s not in model", prog, idlName))
		return
	}
	Structs = append(Structs, &StructBinding{Prog: prog, File: file, IDLName: idlName, Decl: d, New: ctor})
}

// RegisterSynth registers the args or result struct of a method.
func RegisterSynth(prog, file int, service, method, kind string, ctor func() thrift.TStruct) {
	sd := findDecl(Programs[prog].Model, file, service)
	if sd == nil {
		Problems = append(Problems, fmt.Sprintf("program %d: service %s not in model", prog, service))
		return
	}
	for i := range sd.Methods {
		m := &sd.Methods[i]
		if m.Name != method {
			continue
		}
		d := &idl.Decl{Kind: "struct", Name: service + "." + method + "_" + kind}
		if kind == "args" {
			d.Fields = append(d.Fields, m.Args...)
		} else {
			if m.Ret != nil {
				d.Fields = append(d.Fields, idl.Field{ID: 0, Name: "success", Req: "optional", Type: m.Ret})
			}
			for _, e := range m.Throws {
				e.Req = "optional"
				d.Fields = append(d.Fields, e)
			}
		}
		Structs = append(Structs, &StructBinding{Prog: prog, File: file, IDLName: d.Name, Decl: d, New: ctor, Synth: true})
		return
	}
	Problems = append(Problems, fmt.Sprintf("program %d: method %s.%s not in model", prog, service, method))
}

func RegisterService(b *ServiceBinding) {
	b.Decl = findDecl(Programs[b.Prog].Model, b.File, b.IDLName)
	if b.Decl == nil {
		Problems = append(Problems, fmt.Sprintf("program %d: service %s not in model", b.Prog, b.IDLName))
		return
	}
	// methods: own and inherited, tied to the model by normalised name
	p := Programs[b.Prog].Model
	type owned struct {
		m     *idl.Method
		owner string
		file  int
	}
	var all []owned
	file, d := b.File, b.Decl
	for d != nil {
		for i := range d.Methods {
			all = append(all, owned{&d.Methods[i], d.Name, file})
		}
		if d.Extends == nil {
			break
		}
		file, d = d.Extends.File, p.Service(d.Extends.File, d.Extends.Name)
	}
	for i := range b.Methods {
		mb := &b.Methods[i]
		for _, o := range all {
			if idl.NormName(o.m.Name) == idl.NormName(mb.GoName) {
				mb.IDLName, mb.Method, mb.Owner = o.m.Name, o.m, o.owner
			}
		}
		if mb.Method == nil {
			Problems = append(Problems, fmt.Sprintf("program %d service %s: generated method %s has no IDL counterpart", b.Prog, b.IDLName, mb.GoName))
		}
	}
	if len(b.Methods) != len(all) {
		Problems = append(Problems, fmt.Sprintf("program %d service %s: %d generated interface methods, %d declared (incl. inherited)", b.Prog, b.IDLName, len(b.Methods), len(all)))
	}
	Services = append(Services, b)
}

func RegisterScope(b *ScopeBinding) {
	b.Decl = findDecl(Programs[b.Prog].Model, b.File, b.IDLName)
	if b.Decl == nil {
		Problems = append(Problems, fmt.Sprintf("program %d: scope %s not in model", b.Prog, b.IDLName))
		return
	}
	for i := range b.Ops {
		ob := &b.Ops[i]
		for j := range b.Decl.Ops {
			if idl.NormName("publish"+b.Decl.Ops[j].Name) == idl.NormName(ob.PublishName) {
				ob.IDLName, ob.Op = b.Decl.Ops[j].Name, &b.Decl.Ops[j]
			}
		}
		if ob.Op == nil {
			Problems = append(Problems, fmt.Sprintf("program %d scope %s: generated %s has no IDL counterpart", b.Prog, b.IDLName, ob.PublishName))
		}
	}
	if len(b.Ops) != len(b.Decl.Ops) {
		Problems = append(Problems, fmt.Sprintf("program %d scope %s: %d generated operations, %d declared", b.Prog, b.IDLName, len(b.Ops), len(b.Decl.Ops)))
	}
	Scopes = append(Scopes, b)
}
