package driver

import (
	"fmt"
	"testing"

	"verif/ev"
)

// RunBindings fails when a declaration of the IDL has no generated counterpart
// (or vice versa): such a gap is itself a violation of C02/C03.
func RunBindings(t *testing.T) {
	ev.Record("bed.bindings", ev.Class{NonTrivial: true, Key: fmt.Sprint(len(Structs), len(Services), len(Scopes), len(Problems)), Labels: []string{
		fmt.Sprintf("programs=%d", len(Programs))}}, func() interface{} {
		return map[string]int{"structs": len(Structs), "services": len(Services), "scopes": len(Scopes)}
	})
	ev.Count("bed.bindings", "structs", len(Structs))
	ev.Count("bed.bindings", "services", len(Services))
	ev.Count("bed.bindings", "scopes", len(Scopes))
	if len(Problems) > 0 {
		f := ev.Failf("binding-problem", "%d binding problems, first: %s", len(Problems), Problems[0])
		ev.RecordFailure("bed.bindings", f, Problems)
		t.Fatalf("%s", f.Msg)
	}
}

func Shutdown() {}
