package rt

import (
	"fmt"
	"os"
	"testing"

	"verif/ev"
)

func TestMain(m *testing.M) {
	code := m.Run()
	ev.Flush()
	os.Exit(code)
}

// TestReplay re-runs one saved case (file named by $VERIF_REPLAY), bypassing
// rapid. It prints REPLAY-FAIL <check> <sig> when the case still fails.
func TestReplay(t *testing.T) {
	path := os.Getenv("VERIF_REPLAY")
	if path == "" {
		t.Skip("no VERIF_REPLAY")
	}
	name, f, err := ev.Replay(path)
	if err != nil {
		fmt.Printf("REPLAY-ERROR %s %v\n", name, err)
		t.Fatalf("replay error: %v", err)
	}
	if f != nil {
		fmt.Printf("REPLAY-FAIL %s %s\n", name, f.Sig)
		t.Fatalf("[%s] %s: %s", name, f.Sig, f.Msg)
	}
	fmt.Printf("REPLAY-PASS %s\n", name)
}
