package rt

// C05 — no received byte sequence can crash or wedge a Frugal process.
// Synchronous leg: every receiving entry point is driven directly with
// structure-aware mutants of valid messages and with random bytes; the oracle
// is "returns (value or error) within the watchdog, no panic".

import (
	"bytes"
	"encoding/base64"
	"encoding/binary"
	"fmt"
	"net/http/httptest"
	"strings"
	"sync"
	"testing"
	"time"

	frugal "github.com/Workiva/frugal/lib/go"
	"github.com/apache/thrift/lib/go/thrift"
	"github.com/nats-io/nats.go"
	"pgregory.net/rapid"
	"verif/ev"
)

type c05Case struct {
	Entry string `json:"entry"`
	Proto string `json:"proto"`
	Data  []byte `json:"data"`
	Raw   bool   `json:"raw,omitempty"`    // http: body sent without base64
	Hdr   string `json:"status,omitempty"` // nats.client: Status header
	Subj  string `json:"subject,omitempty"`
	Desc  string `json:"desc"`
	// classification, filled by the generator
	SizeMut bool `json:"sizemut"`
	Deep    bool `json:"deep"` // passes the first length check of its entry point
}

var c05SyncEntries = []string{"readHeader", "headersFromFrame", "adapter.execute", "nats.client", "nats.server",
	"processor", "framed.processor", "http", "client.reply", "subscriber.callback"}

// entry point properties
func c05Framed(entry string) bool {
	switch entry {
	case "nats.client", "nats.server", "http", "http.client", "framed.processor", "nats.sub", "stomp.sub", "adapter.stream", "simple.stream", "adapter.sessions":
		return true
	}
	return false
}

func c05IsResponse(entry string) bool {
	switch entry {
	case "adapter.execute", "nats.client", "client.reply", "adapter.stream", "http.client", "adapter.sessions":
		return true
	}
	return false
}

// validMessage builds a well-formed message for an entry point and returns it
// together with the offsets of its 4-byte size fields.
func c05Valid(entry, proto string, opid uint64, user []KV, v string) (data []byte, sizeOffsets []int) {
	hdrs := []KV{kv("_opid", fmt.Sprint(opid)), kv("_cid", "cid-1")}
	hdrs = append(hdrs, user...)
	var msg []byte
	switch {
	case entry == "readHeader" || entry == "headersFromFrame":
		msg = []byte(v)
	case c05IsResponse(entry):
		msg = thriftMessage(proto, "echo", thrift.REPLY, &echoResult{Success: &v})
	case entry == "subscriber.callback" || entry == "nats.sub" || entry == "stomp.sub":
		msg = thriftMessage(proto, "Evt", thrift.CALL, &strStruct{Name: "Evt", ID: 1, V: &v})
	default:
		msg = thriftMessage(proto, "echo", thrift.CALL, &strStruct{Name: "echo_args", ID: 1, V: &v})
	}
	content := frameContent(hdrs, msg)
	base := 0
	if c05Framed(entry) {
		content = refFrame(content)
		sizeOffsets = append(sizeOffsets, 0)
		base = 4
	}
	// header block size, then each pair's sizes
	sizeOffsets = append(sizeOffsets, base+1)
	i := base + 5
	for _, p := range hdrs {
		sizeOffsets = append(sizeOffsets, i)
		i += 4 + len(p.K)
		sizeOffsets = append(sizeOffsets, i)
		i += 4 + len(p.V)
	}
	if proto == "binary" && len(msg) >= 12 && !(entry == "readHeader" || entry == "headersFromFrame") {
		sizeOffsets = append(sizeOffsets, i+4) // message name length
		nameLen := int(binary.BigEndian.Uint32(content[i+4:]))
		strOff := i + 8 + nameLen + 4 + 1 + 2
		if strOff+4 <= len(content) {
			sizeOffsets = append(sizeOffsets, strOff) // string field length
		}
	}
	return content, sizeOffsets
}

var hostile = []uint32{0, 1, 2, 3, 4, 5, 8, 0x7f, 0x80, 0xff, 0x100, 0xffff, 0x10000, 0xfa0000, 0xfa0001, 0x7ffffffb, 0x7ffffffc, 0x7fffffff,
	0x80000000, 0x80000001, 0xfffffff7, 0xfffffffb, 0xfffffffc, 0xffffffff}

func genC05For(entries []string) func(t *rapid.T) c05Case {
	return func(t *rapid.T) c05Case {
		c := c05Case{}
		c.Entry = rapid.SampledFrom(entries).Draw(t, "entry")
		c.Proto = rapid.SampledFrom([]string{"binary", "binary", "compact", "json"}).Draw(t, "proto")
		nUser := rapid.IntRange(0, 2).Draw(t, "nuser")
		var user []KV
		for i := 0; i < nUser; i++ {
			user = append(user, kv(fmt.Sprintf("h%d", i), rapid.StringMatching(`[a-z]{0,6}`).Draw(t, "hv")))
		}
		val := rapid.StringMatching(`[a-z]{0,12}`).Draw(t, "val")
		data, offs := c05Valid(c.Entry, c.Proto, 7, user, val)
		minLen := 1
		if c05Framed(c.Entry) {
			minLen = 5
		}
		kinds := []string{"size", "size", "size", "truncate", "truncate", "random", "dup", "drop", "version", "flip", "none", "size2"}
		if !c05IsResponse(c.Entry) && c.Entry != "readHeader" && c.Entry != "headersFromFrame" && c.Entry != "subscriber.callback" && c.Entry != "nats.sub" && c.Entry != "stomp.sub" {
			kinds = append(kinds, "huge-name")
			if c.Entry == "nats.server" {
				// the reply buffer of the NATS server is the one that is bounded
				kinds = append(kinds, "huge-name", "huge-name", "huge-name")
			}
		}
		if c05Framed(c.Entry) {
			kinds = append(kinds, "prefix-only")
		}
		if !c05IsResponse(c.Entry) && c.Entry != "readHeader" && c.Entry != "headersFromFrame" {
			kinds = append(kinds, "odd-name", "odd-name")
		}
		if c.Entry == "framed.processor" || c.Entry == "adapter.stream" || c.Entry == "simple.stream" || c.Entry == "adapter.sessions" {
			kinds = append(kinds, "empty-frames")
		}
		kind := rapid.SampledFrom(kinds).Draw(t, "mut")
		switch kind {
		case "prefix-only":
			// nothing but a 4-byte frame size (its own, zero or hostile)
			cur := binary.BigEndian.Uint32(data)
			nv := rapid.SampledFrom(append([]uint32{cur, 0, 0}, hostile...)).Draw(t, "prefix")
			data = data[:4]
			binary.BigEndian.PutUint32(data, nv)
			c.Desc = fmt.Sprintf("only a frame size prefix %#x", nv)
			c.SizeMut = true
		case "huge-name":
			// a well-formed request for an unknown method whose name is so long that the
			// UNKNOWN_METHOD reply (which repeats it) cannot fit a bounded reply buffer
			n := rapid.SampledFrom([]int{300 * 1024, 520 * 1024, 700 * 1024, 1000 * 1024, 1048300, 1048300, 1048260}).Draw(t, "namelen")
			hdrs := []KV{kv("_opid", "7"), kv("_cid", "cid-1")}
			msg := thriftMessage(c.Proto, strings.Repeat("m", n), thrift.CALL, &strStruct{Name: "x_args", ID: 1, V: &val})
			data = frameContent(hdrs, msg)
			if c05Framed(c.Entry) {
				data = refFrame(data)
			}
			c.Desc = fmt.Sprintf("unknown method with a %d byte name", n)
			c.SizeMut = true
		case "odd-name":
			// a well-formed message whose method / operation name is not text: continuation bytes,
			// invalid UTF-8, NULs, of a length around the limits replies truncate names to
			n := rapid.SampledFrom([]int{1, 2, 255, 256, 257, 258, 300, 1000, 5000}).Draw(t, "namelen")
			fill := rapid.SampledFrom([]string{"\x80", "\xbf", "\xff", "\x00", "\xc3", "\xe2\x82", "\xf0\x9f\x98", "é", "\x80\xbfa"}).Draw(t, "namefill")
			name := strings.Repeat(fill, n/len(fill)+1)[:n]
			if rapid.Bool().Draw(t, "asciiPrefix") && n > 3 {
				name = "ab" + name[2:]
			}
			hdrs := []KV{kv("_opid", "7"), kv("_cid", "cid-1")}
			msg := thriftMessage(c.Proto, name, thrift.CALL, &strStruct{Name: "x_args", ID: 1, V: &val})
			data = frameContent(hdrs, msg)
			if c05Framed(c.Entry) {
				data = refFrame(data)
			}
			c.Desc = fmt.Sprintf("method name of %d bytes made of %q", n, fill)
			c.SizeMut = true
		case "empty-frames":
			// a run of empty frames (size prefix 0) before / instead of a message
			n := rapid.SampledFrom([]int{1, 2, 3, 100, 100000, 6000000}).Draw(t, "emptyframes")
			z := make([]byte, 4*n)
			if rapid.Bool().Draw(t, "thenValid") {
				data = append(z, data...)
			} else {
				data = z
			}
			c.Desc = fmt.Sprintf("%d empty frames", n)
			c.SizeMut = true
		case "size", "size2":
			n := 1
			if kind == "size2" {
				n = 2
			}
			for j := 0; j < n; j++ {
				off := rapid.SampledFrom(offs).Draw(t, "off")
				cur := binary.BigEndian.Uint32(data[off:])
				vals := append([]uint32{cur - 1, cur + 1, cur + 4, cur - 4, uint32(len(data)), uint32(len(data) + 1), uint32(len(data) - off - 4), uint32(len(data)-off-4) + 1}, hostile...)
				nv := rapid.SampledFrom(vals).Draw(t, "val")
				binary.BigEndian.PutUint32(data[off:], nv)
				c.Desc += fmt.Sprintf("size@%d:%d->%#x ", off, cur, nv)
			}
			c.SizeMut = true
		case "truncate":
			n := rapid.IntRange(0, len(data)).Draw(t, "cut")
			data = data[:n]
			c.Desc = fmt.Sprintf("truncate@%d", n)
		case "random":
			data = rapid.SliceOfN(rapid.Byte(), 0, 64).Draw(t, "bytes")
			if rapid.Bool().Draw(t, "zeroVersion") && len(data) > minLen-1 {
				data[minLen-1] = 0
			}
			if c05Framed(c.Entry) && len(data) >= 4 && rapid.Bool().Draw(t, "fixFrame") {
				binary.BigEndian.PutUint32(data, uint32(len(data)-4))
			}
			c.Desc = "random"
		case "dup":
			a := rapid.IntRange(0, len(data)-1).Draw(t, "a")
			b := rapid.IntRange(a, len(data)).Draw(t, "b")
			data = append(append(append([]byte{}, data[:b]...), data[a:b]...), data[b:]...)
			c.Desc = fmt.Sprintf("dup[%d:%d]", a, b)
		case "drop":
			a := rapid.IntRange(0, len(data)-1).Draw(t, "a")
			b := rapid.IntRange(a, len(data)).Draw(t, "b")
			data = append(append([]byte{}, data[:a]...), data[b:]...)
			c.Desc = fmt.Sprintf("drop[%d:%d]", a, b)
		case "version":
			data[minLen-1] = rapid.Byte().Draw(t, "ver")
			c.Desc = fmt.Sprintf("version=%d", data[minLen-1])
		case "flip":
			i := rapid.IntRange(0, len(data)-1).Draw(t, "i")
			data[i] ^= 1 << uint(rapid.IntRange(0, 7).Draw(t, "bit"))
			c.Desc = fmt.Sprintf("flip@%d", i)
		case "none":
			c.Desc = "valid"
		}
		c.Data = data
		c.Deep = len(data) >= minLen && data[minLen-1] == 0
		if c.Entry == "http" || c.Entry == "http.client" {
			c.Raw = rapid.IntRange(0, 5).Draw(t, "raw") == 0
		}
		if c.Entry == "http.client" {
			c.Hdr = rapid.SampledFrom([]string{"", "", "", "", "413", "500", "204"}).Draw(t, "httpstatus")
		}
		if c.Entry == "nats.client" {
			c.Hdr = rapid.SampledFrom([]string{"", "", "", "503", "404", "x"}).Draw(t, "status")
			c.Subj = rapid.SampledFrom([]string{"inbox.7", "inbox.", "inbox", "", ".", "inbox.99999999999999999999999", "inbox.-1"}).Draw(t, "subj")
		}
		return c
	}
}

func classifyC05(c c05Case) ev.Class {
	labels := []string{"entry=" + c.Entry, "proto=" + c.Proto}
	if c.SizeMut {
		labels = append(labels, "size-field-mutation")
	}
	if c.Deep {
		labels = append(labels, "reaches-header-parsing")
	}
	if len(c.Data) < 4 {
		labels = append(labels, "len<4")
	}
	return ev.Class{NonTrivial: c.SizeMut || c.Deep, Key: fmt.Sprintf("%s|%s|%x|%v|%s|%s", c.Entry, c.Proto, c.Data, c.Raw, c.Hdr, c.Subj), Labels: labels}
}

func sampleC05(c c05Case) interface{} {
	return map[string]interface{}{"entry": c.Entry, "proto": c.Proto, "mutation": c.Desc, "len": len(c.Data), "head_hex": fmt.Sprintf("%x", head(c.Data))}
}

// ---- fixtures for the synchronous leg

func okHandler() *svcHandler {
	return &svcHandler{
		echo: func(ctx frugal.FContext, v string) (string, error) { return "echo:" + v, nil },
		fire: func(ctx frugal.FContext, v string) error { return nil },
	}
}

// stubFT is an FTransport whose Request returns scripted bytes.
type stubFT struct {
	resp  []byte
	limit uint
	sent  [][]byte
	mu    sync.Mutex
}

func (s *stubFT) SetMonitor(frugal.FTransportMonitor) {}
func (s *stubFT) Closed() <-chan error                { return nil }
func (s *stubFT) Open() error                         { return nil }
func (s *stubFT) IsOpen() bool                        { return true }
func (s *stubFT) Close() error                        { return nil }
func (s *stubFT) Oneway(ctx frugal.FContext, p []byte) error {
	s.mu.Lock()
	s.sent = append(s.sent, append([]byte{}, p...))
	s.mu.Unlock()
	return nil
}
func (s *stubFT) Request(ctx frugal.FContext, p []byte) (thrift.TTransport, error) {
	s.mu.Lock()
	s.sent = append(s.sent, append([]byte{}, p...))
	s.mu.Unlock()
	return &thrift.TMemoryBuffer{Buffer: bytes.NewBuffer(append([]byte{}, s.resp...))}, nil
}
func (s *stubFT) GetRequestSizeLimit() uint { return s.limit }

var (
	c05Once    sync.Once
	c05Nats    *nats.Conn
	c05NatsErr error
)

// subscriberCallback mirrors the generated recv<Op> callback.
// evtSubscriber stands for the generated <scope>Subscriber: the generated recv<Op> builds a
// frugal.Method over the user's handler (middleware hooks in there) and invokes it per message.
type evtSubscriber struct{}

func (s *evtSubscriber) SubscribeEvt(handler func(frugal.FContext, string) error) {}

func subscriberCallback(op string, pf *frugal.FProtocolFactory, handler func(frugal.FContext, string) error) frugal.FAsyncCallback {
	method := frugal.NewMethod(&evtSubscriber{}, handler, "SubscribeEvt", nil)
	return func(transport thrift.TTransport) error {
		iprot := pf.GetProtocol(transport)
		fctx, err := iprot.ReadRequestHeader()
		if err != nil {
			return err
		}
		ctx, cancelFn := frugal.ToContext(fctx)
		defer cancelFn()
		name, _, _, err := iprot.ReadMessageBegin(ctx)
		if err != nil {
			return err
		}
		if name != op {
			iprot.Skip(ctx, thrift.STRUCT)
			iprot.ReadMessageEnd(ctx)
			return thrift.NewTApplicationException(frugal.APPLICATION_EXCEPTION_UNKNOWN_METHOD, "Unknown function"+name)
		}
		req := &strStruct{Name: "Evt", ID: 1}
		if err := req.Read(ctx, iprot); err != nil {
			return thrift.PrependError(fmt.Sprintf("%T error reading struct: ", req), err)
		}
		iprot.ReadMessageEnd(ctx)
		v := ""
		if req.V != nil {
			v = *req.V
		}
		return method.Invoke([]interface{}{fctx, v}).Error()
	}
}

func execC05Sync(c c05Case) *ev.Failure {
	var run func()
	pf := fpf(c.Proto)
	data := append([]byte{}, c.Data...)
	switch c.Entry {
	case "readHeader":
		run = func() { frugal.VerifReadHeader(bytes.NewReader(data)) }
	case "headersFromFrame":
		run = func() { frugal.VerifGetHeadersFromFrame(data) }
	case "adapter.execute":
		tr := frugal.NewAdapterTransport(newScriptT())
		run = func() { frugal.VerifExecuteFrame(tr, data) }
	case "nats.client":
		tr := frugal.NewFNatsTransport(nil, "subj", "inbox")
		msg := &nats.Msg{Subject: c.Subj, Data: data}
		if c.Hdr != "" {
			msg.Header = nats.Header{"Status": []string{c.Hdr}}
		}
		run = func() { frugal.VerifNatsClientHandle(tr, msg) }
	case "nats.server":
		c05Once.Do(func() { c05Nats, c05NatsErr = natsConnect() })
		if c05NatsErr != nil {
			return ev.Failf("harness:nats", "%v", c05NatsErr)
		}
		srv := frugal.NewFNatsServerBuilder(c05Nats, newSvcProcessor(okHandler()), pf, []string{"c05.unused"}).Build()
		run = func() { frugal.VerifNatsServerProcess(srv, data, "c05.reply") }
	case "processor":
		proc := newSvcProcessor(okHandler())
		run = func() {
			in := &thrift.TMemoryBuffer{Buffer: bytes.NewBuffer(data)}
			out := frugal.NewTMemoryOutputBuffer(0)
			proc.Process(pf.GetProtocol(in), pf.GetProtocol(out))
		}
	case "framed.processor":
		// what FSimpleServer.accept does with a connection's bytes
		proc := newSvcProcessor(okHandler())
		run = func() {
			st := newScriptT()
			st.Open()
			st.feed(data)
			st.cut(eofErr())
			framed := frugal.NewTFramedTransport(st)
			iprot, oprot := pf.GetProtocol(framed), pf.GetProtocol(framed)
			for i := 0; i < 64; i++ {
				if err := proc.Process(iprot, oprot); err != nil {
					return
				}
			}
		}
	case "http":
		h := frugal.NewFrugalHandlerFunc(newSvcProcessor(okHandler()), pf)
		body := data
		if !c.Raw {
			body = []byte(base64.StdEncoding.EncodeToString(data))
		}
		run = func() {
			req := httptest.NewRequest("POST", "/frugal", bytes.NewReader(body))
			h(httptest.NewRecorder(), req)
		}
	case "client.reply":
		st := &stubFT{resp: data}
		cl := newSvcClient(frugal.NewFServiceProvider(st, pf))
		run = func() { cl.Echo(frugal.NewFContext(""), "x") }
	case "subscriber.callback":
		cb := subscriberCallback("Evt", pf, func(frugal.FContext, string) error { return nil })
		run = func() { cb(&thrift.TMemoryBuffer{Buffer: bytes.NewBuffer(data)}) }
	default:
		return ev.Failf("harness:entry", "unknown entry %q", c.Entry)
	}
	returned, p := within(10*time.Second, run)
	if !returned {
		return ev.Failf("hang:"+c.Entry, "entry point %s did not return within 10s on %d bytes (%s)\n%s", c.Entry, len(c.Data), c.Desc, allStacks())
	}
	if p != "" {
		return ev.Failf("panic:"+c.Entry, "entry point %s panicked on %x (%s): %s", c.Entry, head(c.Data), c.Desc, p)
	}
	return nil
}

var c05SyncProp = ev.Prop("c05.sync", genC05For(c05SyncEntries), execC05Sync, classifyC05, sampleC05)

func TestC05Sync(t *testing.T) {
	rapid.Check(t, c05SyncProp)
}
