package rt

// refhdr: an independent encoder/decoder for the v0 FContext header layout,
// written from documentation/protocol.md only.
//
//   [ver=0 : 1][headers size m : 4 BE][ (name size k : 4 BE)(name)(value size v : 4 BE)(value) ]*
//
// and a complete frame is [frame size n : 4 BE] followed by n bytes = headers + payload.

import (
	"encoding/binary"
	"errors"
	"fmt"
)

// KV is one header pair with raw bytes (header content is arbitrary bytes on
// the Go side; JSON keeps []byte intact through base64).
type KV struct {
	K []byte `json:"k"`
	V []byte `json:"v"`
}

func refEncodeHeaders(pairs []KV) []byte {
	m := 0
	for _, p := range pairs {
		m += 8 + len(p.K) + len(p.V)
	}
	out := make([]byte, 0, 5+m)
	out = append(out, 0)
	out = binary.BigEndian.AppendUint32(out, uint32(m))
	for _, p := range pairs {
		out = binary.BigEndian.AppendUint32(out, uint32(len(p.K)))
		out = append(out, p.K...)
		out = binary.BigEndian.AppendUint32(out, uint32(len(p.V)))
		out = append(out, p.V...)
	}
	return out
}

// refDecodeHeaders decodes headers at the start of b and returns the pairs in
// wire order and the number of bytes consumed.
func refDecodeHeaders(b []byte) ([]KV, int, error) {
	if len(b) < 5 {
		return nil, 0, errors.New("short header block")
	}
	if b[0] != 0 {
		return nil, 0, fmt.Errorf("version byte %d", b[0])
	}
	m := int(binary.BigEndian.Uint32(b[1:5]))
	if m > len(b)-5 {
		return nil, 0, fmt.Errorf("headers size %d exceeds available %d", m, len(b)-5)
	}
	body := b[5 : 5+m]
	var pairs []KV
	i := 0
	for i < len(body) {
		if len(body)-i < 4 {
			return nil, 0, errors.New("truncated name size")
		}
		k := int(binary.BigEndian.Uint32(body[i:]))
		i += 4
		if k > len(body)-i {
			return nil, 0, errors.New("name overruns headers")
		}
		name := append([]byte{}, body[i:i+k]...)
		i += k
		if len(body)-i < 4 {
			return nil, 0, errors.New("truncated value size")
		}
		v := int(binary.BigEndian.Uint32(body[i:]))
		i += 4
		if v > len(body)-i {
			return nil, 0, errors.New("value overruns headers")
		}
		val := append([]byte{}, body[i:i+v]...)
		i += v
		pairs = append(pairs, KV{name, val})
	}
	return pairs, 5 + m, nil
}

func refFrame(content []byte) []byte {
	out := make([]byte, 4, 4+len(content))
	binary.BigEndian.PutUint32(out, uint32(len(content)))
	return append(out, content...)
}

func pairsToMap(pairs []KV) map[string]string {
	m := make(map[string]string, len(pairs))
	for _, p := range pairs {
		m[string(p.K)] = string(p.V) // later pair wins, like any map-building reader
	}
	return m
}

func mapsEqual(a, b map[string]string) bool {
	if len(a) != len(b) {
		return false
	}
	for k, v := range a {
		if w, ok := b[k]; !ok || w != v {
			return false
		}
	}
	return true
}
