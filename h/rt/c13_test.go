package rt

// C13 — every call returns within its FContext timeout.

import (
	"fmt"
	"io"
	"net"
	"net/http"
	"net/http/httptest"
	"strings"
	"sync"
	"testing"
	"time"

	frugal "github.com/Workiva/frugal/lib/go"
	"github.com/apache/thrift/lib/go/thrift"
	"github.com/nats-io/nats.go"
	"pgregory.net/rapid"
	"verif/ev"
)

type c13Sub struct {
	Transport string `json:"transport"` // adapter.request | adapter.oneway | nats | http
	TimeoutUs int    `json:"timeout_us"`
	Behaviour string `json:"behaviour"` // silent | late | blockwrite | blockflush | otherop | noresponder
	LateMs    int    `json:"late_ms"`
}

type c13Case struct {
	Subs []c13Sub `json:"subs"` // run concurrently, each on its own transport
}

const c13Allowance = 400 * time.Millisecond

func genC13(t *rapid.T) c13Case {
	n := rapid.IntRange(1, 8).Draw(t, "n")
	c := c13Case{}
	for i := 0; i < n; i++ {
		s := c13Sub{}
		s.Transport = rapid.SampledFrom([]string{"adapter.request", "adapter.request", "adapter.oneway", "nats", "http"}).Draw(t, "transport")
		ms := rapid.IntRange(1, 300).Draw(t, "ms")
		s.TimeoutUs = ms * 1000
		if rapid.IntRange(0, 7).Draw(t, "subms") == 0 {
			s.TimeoutUs = rapid.IntRange(1, 999).Draw(t, "us")
		}
		switch s.Transport {
		case "adapter.request":
			s.Behaviour = rapid.SampledFrom([]string{"silent", "late", "blockwrite", "blockflush", "otherop", "reopening"}).Draw(t, "b")
		case "adapter.oneway":
			s.Behaviour = rapid.SampledFrom([]string{"blockwrite", "blockflush", "reopening"}).Draw(t, "b")
		case "nats":
			s.Behaviour = rapid.SampledFrom([]string{"silent", "late", "otherop", "noresponder", "stalled-link", "stalled-link-oneway", "slow-link"}).Draw(t, "b")
		case "http":
			s.Behaviour = rapid.SampledFrom([]string{"silent", "late", "drop-then-silent", "stall-body", "stall-body-partial"}).Draw(t, "b")
		}
		s.LateMs = rapid.IntRange(1, 200).Draw(t, "late")
		if s.Behaviour == "slow-link" || s.Behaviour == "drop-then-silent" {
			// the peer uses up 60..80% of the timeout before the call can make its next step, so a
			// timeout that is restarted per step overruns by more than the allowance
			s.TimeoutUs = rapid.IntRange(800, 1200).Draw(t, "longms") * 1000
		}
		c.Subs = append(c.Subs, s)
	}
	return c
}

func classifyC13(c c13Case) ev.Class {
	var labels []string
	nt := false
	for _, s := range c.Subs {
		labels = append(labels, "t="+s.Transport, "b="+s.Behaviour)
		if s.TimeoutUs < 1000 {
			labels = append(labels, "sub-millisecond")
		}
		if s.Behaviour != "silent" || s.Transport == "nats" || s.Transport == "http" {
			nt = true
		}
	}
	return ev.Class{NonTrivial: nt, Key: fmt.Sprintf("%+v", c), Labels: uniq(labels)}
}

func execC13(c c13Case) *ev.Failure {
	res := make([]*ev.Failure, len(c.Subs))
	var wg sync.WaitGroup
	for i := range c.Subs {
		wg.Add(1)
		go func(i int) {
			defer wg.Done()
			s := c.Subs[i]
			ok, p := within(25*time.Second, func() { res[i] = execC13Sub(s) })
			if !ok {
				res[i] = ev.Failf("hang:c13", "sub-case %+v did not finish in 25s", s)
			} else if p != "" {
				res[i] = ev.Failf("panic:c13", "%s", p)
			}
		}(i)
	}
	wg.Wait()
	for _, f := range res {
		if f != nil {
			return f
		}
	}
	return nil
}

func isTimedOut(err error) bool {
	te, ok := err.(thrift.TTransportException)
	return ok && te.TypeId() == frugal.TRANSPORT_EXCEPTION_TIMED_OUT
}

func execC13Sub(s c13Sub) *ev.Failure {
	timeout := time.Duration(s.TimeoutUs) * time.Microsecond
	ctx := frugal.NewFContext("").SetTimeout(timeout)
	if timeout < time.Millisecond {
		timeout = time.Millisecond // the wire format carries whole milliseconds
	}
	// a response that is late by less than 30 ms races the deadline: either
	// outcome (own frame or TIMED_OUT) is legal there
	strict := s.Behaviour != "late" || s.LateMs >= 30
	opid := opidOf(ctx)
	req := refFrame(frameContent([]KV{kv("_opid", opid)}, []byte("ping")))
	late := timeout + time.Duration(s.LateMs)*time.Millisecond
	limit := timeout + c13Allowance
	what := fmt.Sprintf("%s timeout=%v peer=%s", s.Transport, timeout, s.Behaviour)

	// call runs op and applies the timing / TIMED_OUT oracle
	call := func(op func() error, wantTimedOut bool) *ev.Failure {
		done := make(chan error, 1)
		t0 := time.Now()
		go func() { done <- op() }()
		var err error
		select {
		case err = <-done:
		case <-time.After(10 * time.Second):
			return ev.Failf("never-returned", "%s: call did not return within 10s (limit %v)", what, limit)
		}
		el := time.Since(t0)
		if el > limit {
			return ev.Failf("returned-late", "%s: call returned after %v, limit timeout+%v = %v", what, el, c13Allowance, limit)
		}
		if wantTimedOut && !isTimedOut(err) && (strict || err != nil) {
			return ev.Failf("not-timed-out", "%s: returned %T %v after %v, want a TIMED_OUT transport exception", what, err, err, el)
		}
		return nil
	}

	switch s.Transport {
	case "adapter.request", "adapter.oneway":
		st := newScriptT()
		tr := frugal.NewAdapterTransport(st)
		if err := tr.Open(); err != nil {
			return ev.Failf("harness:open", "%v", err)
		}
		defer tr.Close()
		if s.Behaviour == "reopening" {
			// the transport was closed and is being reopened (by the monitor, say) while the connect
			// hangs: a call made meanwhile must come back within its own timeout, with whatever error
			tr.Close()
			st.mu.Lock()
			st.openDelay = timeout + 1500*time.Millisecond
			st.mu.Unlock()
			opened := make(chan error, 1)
			go func() { opened <- tr.Open() }()
			time.Sleep(3 * time.Millisecond)
			var f *ev.Failure
			if s.Transport == "adapter.oneway" {
				f = call(func() error { return tr.Oneway(ctx, req) }, false)
			} else {
				f = call(func() error { _, err := tr.Request(ctx, req); return err }, false)
			}
			if f != nil {
				f.Sig = "during-reopen:" + f.Sig
				f.Msg = "call made while a reopen of the transport hangs in connect: " + f.Msg
			}
			select {
			case <-opened:
			case <-time.After(10 * time.Second):
				return ev.Failf("harness:reopen", "the slow Open never returned")
			}
			st.mu.Lock()
			st.openDelay = 0
			st.mu.Unlock()
			return f
		}
		var gate chan struct{}
		switch s.Behaviour {
		case "blockwrite":
			gate = make(chan struct{})
			st.writeBlock = gate
		case "blockflush":
			gate = make(chan struct{})
			st.flushBlock = gate
		case "late":
			st.onFlush = func([]byte) {
				time.AfterFunc(late, func() { st.feed(refFrame(frameContent([]KV{kv("_opid", opid)}, []byte("late")))) })
			}
		case "otherop":
			st.onFlush = func([]byte) {
				st.feed(refFrame(frameContent([]KV{kv("_opid", "4611686018427387999")}, []byte("other"))))
			}
		}
		var f *ev.Failure
		var f2 *ev.Failure
		second := make(chan struct{})
		if gate != nil {
			// a second call on the same transport while the first one's write is stalled must
			// honour its own timeout too
			go func() {
				defer close(second)
				time.Sleep(time.Duration(s.LateMs%5) * time.Millisecond)
				ctxB := frugal.NewFContext("").SetTimeout(timeout)
				reqB := refFrame(frameContent([]KV{kv("_opid", opidOf(ctxB))}, []byte("ping-b")))
				if s.LateMs%2 == 0 {
					f2 = call(func() error { _, err := tr.Request(ctxB, reqB); return err }, true)
				} else {
					f2 = call(func() error { return tr.Oneway(ctxB, reqB) }, true)
				}
				if f2 != nil {
					f2.Sig = "second-call:" + f2.Sig
					f2.Msg = "second concurrent call on the transport whose write is stalled: " + f2.Msg
				}
			}()
		} else {
			close(second)
		}
		if s.Transport == "adapter.oneway" {
			f = call(func() error { return tr.Oneway(ctx, req) }, true)
		} else {
			f = call(func() error { _, err := tr.Request(ctx, req); return err }, true)
		}
		<-second
		if f == nil {
			f = f2
		}
		if gate != nil {
			st.mu.Lock()
			st.writeBlock, st.flushBlock = nil, nil
			st.mu.Unlock()
			close(gate)
		}
		if f != nil {
			return f
		}
		if n := frugal.VerifRegistryLen(tr); n != 0 {
			return ev.Failf("registration-left", "%s: %d registrations left after the call returned", what, n)
		}
		if s.Behaviour == "late" {
			time.Sleep(late - timeout + 5*time.Millisecond)
		}
		// the transport keeps working
		ctx2 := frugal.NewFContext("").SetTimeout(3 * time.Second)
		id2 := opidOf(ctx2)
		st.onFlush = func(b []byte) {
			st.feed(refFrame(frameContent([]KV{kv("_opid", id2)}, []byte("pong"))))
		}
		if _, err := tr.Request(ctx2, refFrame(frameContent([]KV{kv("_opid", id2)}, []byte("ping2")))); err != nil {
			return ev.Failf("followup-failed", "%s: request after the timed-out one failed: %v", what, err)
		}
		return nil

	case "nats":
		var conn *nats.Conn
		var err error
		var proxy *pauseProxy
		if strings.HasPrefix(s.Behaviour, "stalled-link") || s.Behaviour == "slow-link" {
			// the client talks to the broker through a TCP proxy that can stop forwarding:
			// the link looks CONNECTED but nothing moves
			u, uerr := natsURL()
			if uerr != nil {
				return ev.Failf("harness:nats", "%v", uerr)
			}
			proxy, err = newPauseProxy(strings.TrimPrefix(u, "nats://"))
			if err != nil {
				return ev.Failf("harness:proxy", "%v", err)
			}
			defer proxy.close()
			conn, err = nats.Connect("nats://"+proxy.addr(), nats.NoReconnect(), nats.PingInterval(time.Hour))
		} else {
			conn, err = natsConnect()
		}
		if err != nil {
			return ev.Failf("harness:nats", "%v", err)
		}
		defer conn.Close()
		raw, _ := natsConnect()
		defer raw.Close()
		subj := fmt.Sprintf("c13.svc.%d", uniq64())
		answer := false
		var mu sync.Mutex
		if s.Behaviour != "noresponder" {
			sub, _ := raw.Subscribe(subj, func(m *nats.Msg) {
				mu.Lock()
				a := answer
				mu.Unlock()
				id := lastToken(m.Reply)
				switch {
				case a:
					raw.Publish(m.Reply, refFrame(frameContent([]KV{kv("_opid", id)}, []byte("pong"))))
				case s.Behaviour == "late":
					time.AfterFunc(late, func() { raw.Publish(m.Reply, refFrame(frameContent([]KV{kv("_opid", id)}, []byte("late")))) })
				case s.Behaviour == "otherop":
					raw.Publish(m.Reply, refFrame(frameContent([]KV{kv("_opid", "4611686018427387999")}, []byte("other"))))
				}
			})
			defer sub.Unsubscribe()
			raw.Flush()
		}
		tr := frugal.NewFNatsTransport(conn, subj, "")
		if err := tr.Open(); err != nil {
			return ev.Failf("harness:open", "%v", err)
		}
		defer tr.Close()
		if proxy != nil && s.Behaviour == "slow-link" {
			// everything the broker sends (PONGs included) reaches the client late, nobody answers
			conn.Flush()
			proxy.setDelay(time.Duration(float64(timeout) * (0.6 + float64(s.LateMs)/1000)))
			f := call(func() error { _, err := tr.Request(ctx, req); return err }, true)
			proxy.setDelay(0)
			if f != nil {
				return f
			}
			if n := frugal.VerifRegistryLen(tr); n != 0 {
				return ev.Failf("registration-left", "%s: %d registrations left after the call returned", what, n)
			}
			return nil
		}
		if proxy != nil {
			conn.Flush()
			proxy.pause()
			var f *ev.Failure
			if s.Behaviour == "stalled-link-oneway" {
				// Oneway only has to return in time; publishing into the client's buffer is success
				f = call(func() error { return tr.Oneway(ctx, req) }, false)
			} else {
				f = call(func() error { _, err := tr.Request(ctx, req); return err }, true)
			}
			proxy.resume()
			if f != nil {
				return f
			}
			if n := frugal.VerifRegistryLen(tr); n != 0 {
				return ev.Failf("registration-left", "%s: %d registrations left after the call returned", what, n)
			}
			return nil
		}
		if s.Behaviour == "noresponder" {
			// the broker answers 503: the legal outcomes are SERVICE_NOT_AVAILABLE or TIMED_OUT, in time
			var rerr error
			if f := call(func() error { _, rerr = tr.Request(ctx, req); return rerr }, false); f != nil {
				return f
			}
			te, ok := rerr.(thrift.TTransportException)
			if !ok || (te.TypeId() != frugal.TRANSPORT_EXCEPTION_SERVICE_NOT_AVAILABLE && te.TypeId() != frugal.TRANSPORT_EXCEPTION_TIMED_OUT) {
				return ev.Failf("noresponder-error", "%s: got %T %v, want SERVICE_NOT_AVAILABLE or TIMED_OUT", what, rerr, rerr)
			}
		} else if f := call(func() error { _, err := tr.Request(ctx, req); return err }, true); f != nil {
			return f
		}
		if n := frugal.VerifRegistryLen(tr); n != 0 {
			return ev.Failf("registration-left", "%s: %d registrations left after the call returned", what, n)
		}
		if s.Behaviour == "noresponder" {
			return nil
		}
		if s.Behaviour == "late" {
			time.Sleep(late - timeout + 5*time.Millisecond)
		}
		mu.Lock()
		answer = true
		mu.Unlock()
		ctx2 := frugal.NewFContext("").SetTimeout(3 * time.Second)
		if _, err := tr.Request(ctx2, refFrame(frameContent([]KV{kv("_opid", opidOf(ctx2))}, []byte("ping2")))); err != nil {
			return ev.Failf("followup-failed", "%s: request after the timed-out one failed: %v", what, err)
		}
		return nil

	case "http":
		if s.Behaviour == "drop-then-silent" {
			// a peer that takes the request, stays quiet for most of the timeout, drops the
			// connection without answering and is silent on every later connection
			l, err := net.Listen("tcp", "127.0.0.1:0")
			if err != nil {
				return ev.Failf("harness:listen", "%v", err)
			}
			defer l.Close()
			quiet := time.Duration(float64(timeout) * (0.6 + float64(s.LateMs)/1000))
			stop := make(chan struct{})
			defer close(stop)
			go func() {
				for n := 0; ; n++ {
					c, err := l.Accept()
					if err != nil {
						return
					}
					go func(c net.Conn, first bool) {
						defer c.Close()
						buf := make([]byte, 4096)
						c.SetReadDeadline(time.Now().Add(5 * time.Second))
						c.Read(buf)
						d := 8 * time.Second
						if first {
							d = quiet
						}
						select {
						case <-time.After(d):
						case <-stop:
						}
					}(c, n == 0)
				}
			}()
			tr := frugal.NewFHTTPTransportBuilder(&http.Client{}, "http://"+l.Addr().String()).Build()
			// any error will do (the connection was dropped), but within the caller's timeout
			var rerr error
			if f := call(func() error { _, rerr = tr.Request(ctx, req); return rerr }, false); f != nil {
				return f
			}
			if rerr == nil {
				return ev.Failf("no-error", "%s: Request returned no error although the peer never answered", what)
			}
			return nil
		}
		if strings.HasPrefix(s.Behaviour, "stall-body") {
			// status and headers arrive at once, (part of) the body never does
			release := make(chan struct{})
			ts := httptest.NewServer(http.HandlerFunc(func(w http.ResponseWriter, r *http.Request) {
				w.Header().Set("Content-Length", "4000")
				w.WriteHeader(200)
				if s.Behaviour == "stall-body-partial" {
					w.Write([]byte("AAAAAAAAAAAAAAAA"))
				}
				if fl, ok := w.(http.Flusher); ok {
					fl.Flush()
				}
				select {
				case <-release:
				case <-r.Context().Done():
				case <-time.After(8 * time.Second):
				}
			}))
			defer ts.Close()
			defer close(release)
			tr := frugal.NewFHTTPTransportBuilder(&http.Client{}, ts.URL).Build()
			return call(func() error { _, err := tr.Request(ctx, req); return err }, true)
		}
		release := make(chan struct{})
		ts := httptest.NewServer(http.HandlerFunc(func(w http.ResponseWriter, r *http.Request) {
			select {
			case <-release:
			case <-time.After(late):
			case <-r.Context().Done():
			}
			if s.Behaviour == "silent" {
				select {
				case <-release:
				case <-r.Context().Done():
				case <-time.After(8 * time.Second):
				}
			}
			w.WriteHeader(200)
		}))
		defer ts.Close()
		defer close(release)
		tr := frugal.NewFHTTPTransportBuilder(&http.Client{}, ts.URL).Build()
		return call(func() error { _, err := tr.Request(ctx, req); return err }, strict)
	}
	return ev.Failf("harness:transport", "unknown transport %q", s.Transport)
}

var c13Prop = ev.Prop("c13.timeout", genC13, execC13, classifyC13, nil)

func TestC13Timeout(t *testing.T) { rapid.Check(t, c13Prop) }

// pauseProxy is a TCP proxy whose forwarding can be suspended.
type pauseProxy struct {
	l      net.Listener
	target string
	mu     sync.Mutex
	cond   *sync.Cond
	paused bool
	delay  time.Duration
	conns  []net.Conn
}

func newPauseProxy(target string) (*pauseProxy, error) {
	l, err := net.Listen("tcp", "127.0.0.1:0")
	if err != nil {
		return nil, err
	}
	p := &pauseProxy{l: l, target: target}
	p.cond = sync.NewCond(&p.mu)
	go func() {
		for {
			c, err := l.Accept()
			if err != nil {
				return
			}
			up, err := net.Dial("tcp", target)
			if err != nil {
				c.Close()
				continue
			}
			p.mu.Lock()
			p.conns = append(p.conns, c, up)
			p.mu.Unlock()
			go p.pipe(c, up, true)
			go p.pipe(up, c, false)
		}
	}()
	return p, nil
}

// setDelay makes the proxy hold back every chunk travelling towards the client for d.
func (p *pauseProxy) setDelay(d time.Duration) {
	p.mu.Lock()
	p.delay = d
	p.mu.Unlock()
}

func (p *pauseProxy) pipe(dst, src net.Conn, towardsClient bool) {
	buf := make([]byte, 32*1024)
	for {
		n, err := src.Read(buf)
		if n > 0 {
			p.mu.Lock()
			for p.paused {
				p.cond.Wait()
			}
			d := p.delay
			p.mu.Unlock()
			if towardsClient && d > 0 {
				time.Sleep(d)
			}
			if _, werr := dst.Write(buf[:n]); werr != nil {
				return
			}
		}
		if err != nil {
			if err != io.EOF {
				dst.Close()
			}
			return
		}
	}
}

func (p *pauseProxy) addr() string { return p.l.Addr().String() }
func (p *pauseProxy) pause()       { p.mu.Lock(); p.paused = true; p.mu.Unlock() }
func (p *pauseProxy) resume()      { p.mu.Lock(); p.paused = false; p.cond.Broadcast(); p.mu.Unlock() }
func (p *pauseProxy) close() {
	p.resume()
	p.l.Close()
	p.mu.Lock()
	for _, c := range p.conns {
		c.Close()
	}
	p.mu.Unlock()
}
