package rt

// scriptT: an in-memory thrift.TTransport whose inbound byte stream, EOF,
// errors and blocking are scripted by the test.

import (
	"context"
	"errors"
	"fmt"
	"io"
	"runtime/debug"
	"strings"
	"sync"
	"time"

	"github.com/apache/thrift/lib/go/thrift"
)

type scriptT struct {
	mu   sync.Mutex
	cond *sync.Cond

	open     bool
	gen      int    // incremented on every successful Open (stream generation)
	in       []byte // pending inbound bytes of the current generation
	inErr    error  // returned by Read once `in` is exhausted (nil = block)
	failOpen int    // next n Open calls fail
	openDelay   time.Duration // Open takes this long (a slow connect)
	lenientOpen bool          // Open on an open stream returns nil (as TMemoryBuffer, THttpClient, StreamTransport do)
	openErr  error
	closeErr error // returned by the next Close (transport stays open then)

	writeErr   error         // next Write fails with this
	flushErr   error         // next Flush fails with this
	writeBlock chan struct{} // if non-nil Write blocks until closed
	flushBlock chan struct{} // if non-nil Flush blocks until closed or ctx done

	wbuf         []byte         // written, not yet flushed
	onFlush      func(b []byte) // called (outside the lock) with each flushed chunk
	staleEOF     bool           // see Read
	staleEOFWait time.Duration
	lastClose    string // who closed it last (diagnostics)
	readLog      []string
	flushed      [][]byte

	opens, closes int
}

func newScriptT() *scriptT {
	s := &scriptT{}
	s.cond = sync.NewCond(&s.mu)
	return s
}

var errScriptClosed = thrift.NewTTransportException(thrift.NOT_OPEN, "scriptT: read on closed transport")

func eofErr() error { return thrift.NewTTransportExceptionFromError(io.EOF) }

func (s *scriptT) Open() error {
	s.mu.Lock()
	d := s.openDelay
	s.mu.Unlock()
	if d > 0 {
		time.Sleep(d)
	}
	s.mu.Lock()
	defer s.mu.Unlock()
	s.opens++
	if s.failOpen > 0 {
		s.failOpen--
		if s.openErr != nil {
			return s.openErr
		}
		return thrift.NewTTransportException(thrift.NOT_OPEN, "scriptT: scripted open failure")
	}
	if s.open {
		if s.lenientOpen {
			return nil
		}
		return thrift.NewTTransportException(thrift.ALREADY_OPEN, "scriptT: already open")
	}
	s.open = true
	s.gen++
	s.readLog = append(s.readLog, fmt.Sprintf("Open -> gen %d", s.gen))
	s.in = nil
	s.inErr = nil
	s.wbuf = nil
	s.cond.Broadcast()
	return nil
}

func (s *scriptT) IsOpen() bool {
	s.mu.Lock()
	defer s.mu.Unlock()
	return s.open
}

func (s *scriptT) Close() error {
	s.mu.Lock()
	defer s.mu.Unlock()
	s.closes++
	if s.closeErr != nil {
		err := s.closeErr
		s.closeErr = nil
		return err
	}
	if !s.open {
		return thrift.NewTTransportException(thrift.NOT_OPEN, "scriptT: not open")
	}
	s.open = false
	s.readLog = append(s.readLog, fmt.Sprintf("Close at gen %d", s.gen))
	s.lastClose = fmt.Sprintf("gen=%d readlog=%v\n%s", s.gen, strings.Join(s.readLog, "\n   "), debug.Stack())
	s.cond.Broadcast()
	return nil
}

func (s *scriptT) Read(p []byte) (int, error) {
	s.mu.Lock()
	defer s.mu.Unlock()
	gen := s.gen
	for {
		if !s.open || s.gen != gen {
			if s.staleEOF {
				// a pipe-like stream: the local close reaches the blocked reader as EOF, and late
				deadline := time.Now().Add(s.staleEOFWait)
				for !(s.open && s.gen != gen) && time.Now().Before(deadline) {
					s.mu.Unlock()
					time.Sleep(200 * time.Microsecond)
					s.mu.Lock()
				}
				return 0, eofErr()
			}
			s.readLog = append(s.readLog, fmt.Sprintf("Read(entered gen %d, now %d open=%v) -> closed", gen, s.gen, s.open))
			return 0, errScriptClosed
		}
		if len(s.in) > 0 {
			n := copy(p, s.in)
			s.in = s.in[n:]
			s.readLog = append(s.readLog, fmt.Sprintf("Read(entered gen %d, now %d, buf %d) -> %d bytes", gen, s.gen, len(p), n))
			return n, nil
		}
		if s.inErr != nil {
			s.readLog = append(s.readLog, fmt.Sprintf("Read(entered at gen %d, now gen %d) -> %v", gen, s.gen, s.inErr))
			return 0, s.inErr
		}
		if len(p) == 0 {
			return 0, nil
		}
		s.cond.Wait()
	}
}

func (s *scriptT) Write(p []byte) (int, error) {
	s.mu.Lock()
	if wb := s.writeBlock; wb != nil {
		s.mu.Unlock()
		<-wb
		s.mu.Lock()
	}
	defer s.mu.Unlock()
	if s.writeErr != nil {
		err := s.writeErr
		s.writeErr = nil
		return 0, err
	}
	if !s.open {
		return 0, thrift.NewTTransportException(thrift.NOT_OPEN, "scriptT: write on closed transport")
	}
	s.wbuf = append(s.wbuf, p...)
	return len(p), nil
}

func (s *scriptT) Flush(ctx context.Context) error {
	s.mu.Lock()
	if fb := s.flushBlock; fb != nil {
		s.mu.Unlock()
		select {
		case <-fb:
		case <-ctx.Done():
			return thrift.NewTTransportExceptionFromError(ctx.Err())
		}
		s.mu.Lock()
	}
	if s.flushErr != nil {
		err := s.flushErr
		s.flushErr = nil
		s.mu.Unlock()
		return err
	}
	if !s.open {
		s.mu.Unlock()
		return thrift.NewTTransportException(thrift.NOT_OPEN, "scriptT: flush on closed transport")
	}
	b := s.wbuf
	s.wbuf = nil
	s.flushed = append(s.flushed, b)
	cb := s.onFlush
	s.mu.Unlock()
	if cb != nil && len(b) > 0 {
		cb(b)
	}
	return nil
}

func (s *scriptT) RemainingBytes() uint64 { return ^uint64(0) }

// ---- scripting side

// feed appends inbound bytes.
func (s *scriptT) feed(b []byte) {
	s.mu.Lock()
	s.in = append(s.in, b...)
	s.cond.Broadcast()
	s.mu.Unlock()
}

// cut makes Read return err once the pending bytes are consumed.
func (s *scriptT) cut(err error) {
	s.mu.Lock()
	s.inErr = err
	s.cond.Broadcast()
	s.mu.Unlock()
}

func (s *scriptT) pendingIn() int {
	s.mu.Lock()
	defer s.mu.Unlock()
	return len(s.in)
}

var errIO = errors.New("scriptT: scripted I/O error")

var _ thrift.TTransport = (*scriptT)(nil)
