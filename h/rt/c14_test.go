package rt

// C14 — the server answers every two-way request exactly once with a
// well-formed reply. A raw client (not an FTransport) writes request frames
// and captures reply frames; replies are parsed independently.

import (
	"bytes"
	"encoding/base64"
	"encoding/binary"
	"fmt"
	"io"
	"net"
	"net/http"
	"net/http/httptest"
	"strings"
	"sync"
	"sync/atomic"
	"testing"
	"time"

	frugal "github.com/Workiva/frugal/lib/go"
	"github.com/apache/thrift/lib/go/thrift"
	"github.com/nats-io/nats.go"
	"pgregory.net/rapid"
	"verif/ev"
)

type c14Req struct {
	Kind string `json:"kind"` // ok declared error appex unknown missing wrongtype oneway truncated
	Conn int    `json:"conn"` // connection / publisher index
	// big (NATS server only): the handler's result is sized so that the complete reply frame is
	// 1 MiB + Delta bytes; the reply must be that result (Delta <= 0) or RESPONSE_TOO_LARGE
	Delta int `json:"delta,omitempty"`
}

type c14Case struct {
	Server  string   `json:"server"` // simple | nats | http | loop
	Proto   string   `json:"proto"`
	Conns   int      `json:"conns"`   // simple: connections; nats/http: concurrent senders
	Workers int      `json:"workers"` // nats
	WatermarkMs int `json:"watermark_ms,omitempty"` // nats: WithHighWatermark (a logging threshold); 0 = default
	// Chunk > 0 (simple server): request frames reach the socket in pieces of that many bytes
	Chunk int      `json:"chunk,omitempty"`
	Reqs  []c14Req `json:"reqs"`
}

// limit413: a well-formed call whose reply exceeds the payload limit the client asked for
// (HTTP only; elsewhere it is an ordinary "ok" call)
var c14Kinds = []string{"ok", "ok", "ok", "declared", "error", "appex", "unknown", "missing", "wrongtype", "oneway", "truncated", "limit413"}

func genC14(t *rapid.T) c14Case {
	c := c14Case{}
	c.Server = rapid.SampledFrom([]string{"simple", "simple", "nats", "http", "loop"}).Draw(t, "server")
	c.Proto = rapid.SampledFrom([]string{"binary", "compact", "json"}).Draw(t, "proto")
	c.Conns = rapid.IntRange(1, 4).Draw(t, "conns")
	c.Workers = rapid.IntRange(1, 4).Draw(t, "workers")
	c.WatermarkMs = rapid.SampledFrom([]int{0, 0, 1, 1, 20}).Draw(t, "watermark")
	n := rapid.IntRange(1, 30).Draw(t, "n")
	for i := 0; i < n; i++ {
		c.Reqs = append(c.Reqs, c14Req{Kind: rapid.SampledFrom(c14Kinds).Draw(t, "kind"), Conn: rapid.IntRange(0, c.Conns-1).Draw(t, "conn")})
	}
	if c.Server == "simple" && rapid.IntRange(0, 2).Draw(t, "chunk?") == 0 {
		c.Chunk = rapid.SampledFrom([]int{1, 3, 7, 16, 50, 200}).Draw(t, "chunk")
	}
	if c.Server == "simple" && c.Conns >= 2 && rapid.IntRange(0, 2).Draw(t, "stalled?") == 0 {
		// an unknown-method request whose last byte arrives only after every other connection
		// has been served
		at := rapid.IntRange(0, len(c.Reqs)-1).Draw(t, "stalledat")
		c.Reqs[at].Kind = "unknown-stalled"
	}
	if c.Server == "simple" && rapid.IntRange(0, 2).Draw(t, "gone?") == 0 {
		// the client hangs up while its handler is still running: the reply cannot be written
		at := rapid.IntRange(0, len(c.Reqs)-1).Draw(t, "goneat")
		c.Reqs[at].Kind = "clientgone"
	}
	if (c.Server == "nats" || c.Server == "loop") && rapid.IntRange(0, 3).Draw(t, "hugename?") == 0 {
		at := rapid.IntRange(0, len(c.Reqs)-1).Draw(t, "hugeat")
		c.Reqs[at].Kind = "unknown-huge"
	}
	if c.Server == "nats" {
		for i, k := 0, rapid.IntRange(0, 2).Draw(t, "nbig"); i < k; i++ {
			at := rapid.IntRange(0, len(c.Reqs)-1).Draw(t, "bigat")
			c.Reqs[at].Kind = "big"
			c.Reqs[at].Delta = rapid.IntRange(-9, 12).Draw(t, "delta")
		}
	}
	return c
}

func classifyC14(c c14Case) ev.Class {
	labels := []string{"server=" + c.Server, "proto=" + c.Proto}
	kinds := map[string]bool{}
	badThenOk := false
	lastBad := map[int]bool{}
	for _, r := range c.Reqs {
		kinds[r.Kind] = true
		if r.Kind == "ok" && lastBad[r.Conn] {
			badThenOk = true
		}
		if r.Kind != "ok" && r.Kind != "oneway" {
			lastBad[r.Conn] = true
		}
	}
	for k := range kinds {
		labels = append(labels, "kind="+k)
	}
	if c.Chunk > 0 {
		labels = append(labels, "request-frames-arrive-in-pieces")
	}
	for _, r := range c.Reqs {
		if r.Kind == "big" {
			switch {
			case r.Delta <= 0:
				labels = append(labels, "big-reply-at-or-below-1MiB")
			case r.Delta <= 4:
				labels = append(labels, "big-reply-1..4-bytes-above-1MiB")
			default:
				labels = append(labels, "big-reply-above-1MiB")
			}
		}
	}
	conc := (c.Server == "simple" || c.Server == "http") && c.Conns >= 2 || c.Server == "nats" && (c.Workers >= 2 || c.Conns >= 2)
	if conc {
		labels = append(labels, "concurrent")
	}
	if badThenOk {
		labels = append(labels, "success-after-failure-same-conn")
	}
	return ev.Class{NonTrivial: badThenOk || conc, Key: fmt.Sprintf("%+v", c), Labels: uniq(labels)}
}

// request frame for a kind; returns the frame (with size prefix), the op id and
// whether a reply is expected.
func c14Frame(proto string, kind string, id int) (frame []byte, opid string) {
	return c14FrameL(proto, kind, id, 0)
}

func c14FrameL(proto string, kind string, id int, size int) (frame []byte, opid string) {
	opid = fmt.Sprint(900000 + id)
	hdr := []KV{kv("_opid", opid), kv("_cid", fmt.Sprintf("cid-%d", id)), kv("_timeout", "5000")}
	arg := fmt.Sprintf("%s:%d", kind, id)
	if kind == "big" {
		arg = fmt.Sprintf("big:%d:%d", id, size)
	}
	var msg []byte
	switch kind {
	case "ok", "declared", "error", "appex", "limit413", "big", "clientgone":
		msg = thriftMessage(proto, "echo", thrift.CALL, &strStruct{Name: "echo_args", ID: 1, V: &arg})
	case "oneway":
		msg = thriftMessage(proto, "fire", thrift.ONEWAY, &strStruct{Name: "fire_args", ID: 1, V: &arg})
	case "unknown-huge":
		// an unknown method whose name takes most of a NATS message: the reply still has to fit
		msg = thriftMessage(proto, strings.Repeat("m", 600*1024), thrift.CALL, &shapeStruct{Fields: []shapeField{{"string", 3}}})
	case "unknown", "unknown-stalled":
		msg = thriftMessage(proto, "nosuch", thrift.CALL, &shapeStruct{Fields: []shapeField{{"string", 3}, {"list", 2}, {"struct", 1}}})
	case "missing":
		msg = thriftMessage(proto, "echo", thrift.CALL, &shapeStruct{})
	case "wrongtype":
		msg = thriftMessage(proto, "echo", thrift.CALL, &shapeStruct{Fields: []shapeField{{"i32", 7}}})
	case "truncated":
		msg = thriftMessage(proto, "echo", thrift.CALL, &strStruct{Name: "echo_args", ID: 1, V: &arg})
		msg = msg[:len(msg)-3]
	}
	return refFrame(frameContent(hdr, msg)), opid
}

type c14Reply struct {
	mtype  thrift.TMessageType
	name   string
	exType int32
	result echoResult
	opid   string
	cid    string
}

func parseReply(proto string, content []byte) (*c14Reply, error) {
	pairs, n, err := refDecodeHeaders(content)
	if err != nil {
		return nil, fmt.Errorf("headers: %v", err)
	}
	m := pairsToMap(pairs)
	r := &c14Reply{opid: m["_opid"], cid: m["_cid"]}
	buf := &thrift.TMemoryBuffer{Buffer: bytes.NewBuffer(append([]byte{}, content[n:]...))}
	p := protoFactory(proto).GetProtocol(buf)
	name, mt, _, err := p.ReadMessageBegin(bg)
	if err != nil {
		return nil, fmt.Errorf("message begin: %v", err)
	}
	r.name, r.mtype = name, mt
	switch mt {
	case thrift.EXCEPTION:
		ex := thrift.NewTApplicationException(0, "")
		if err := ex.Read(bg, p); err != nil {
			return nil, fmt.Errorf("exception body: %v", err)
		}
		r.exType = ex.TypeId()
	case thrift.REPLY:
		if err := r.result.Read(bg, p); err != nil {
			return nil, fmt.Errorf("result body: %v", err)
		}
	default:
		return nil, fmt.Errorf("message type %d", mt)
	}
	if err := p.ReadMessageEnd(bg); err != nil {
		return nil, fmt.Errorf("message end: %v", err)
	}
	if rest, _ := io.ReadAll(buf); len(bytes.TrimSpace(rest)) != 0 {
		return nil, fmt.Errorf("%d trailing bytes after the message: %q", len(rest), head(rest))
	}
	return r, nil
}

func checkReply(proto, kind string, id int, opid string, content []byte) *ev.Failure {
	what := fmt.Sprintf("request %d (%s)", id, kind)
	r, err := parseReply(proto, content)
	if err != nil {
		return ev.Failf("reply-malformed", "%s: reply frame is not well-formed: %v (% x)", what, err, head(content))
	}
	if r.opid != opid {
		return ev.Failf("reply-opid", "%s: reply carries op id %q, request had %s", what, r.opid, opid)
	}
	if r.cid != fmt.Sprintf("cid-%d", id) {
		return ev.Failf("reply-cid", "%s: reply carries correlation id %q", what, r.cid)
	}
	wantEx := int32(-1)
	switch kind {
	case "ok", "limit413":
		if r.mtype != thrift.REPLY || r.result.Success == nil || *r.result.Success != fmt.Sprintf("echo:%s:%d", kind, id) {
			return ev.Failf("reply-content", "%s: want REPLY echo:%s:%d, got type %d %+v", what, kind, id, r.mtype, r.result)
		}
	case "declared":
		if r.mtype != thrift.REPLY || r.result.Oops == nil || r.result.Oops.V == nil || *r.result.Oops.V != fmt.Sprintf("declared:%d", id) || r.result.Success != nil {
			return ev.Failf("reply-content", "%s: want REPLY carrying the declared exception, got type %d %+v", what, r.mtype, r.result)
		}
	case "error":
		wantEx = frugal.APPLICATION_EXCEPTION_INTERNAL_ERROR
	case "appex":
		wantEx = 42
	case "unknown", "unknown-stalled", "unknown-huge":
		wantEx = frugal.APPLICATION_EXCEPTION_UNKNOWN_METHOD
	case "missing", "wrongtype", "truncated":
		wantEx = frugal.APPLICATION_EXCEPTION_PROTOCOL_ERROR
	}
	if wantEx >= 0 {
		if r.mtype != thrift.EXCEPTION || r.exType != wantEx {
			return ev.Failf("reply-content", "%s: want EXCEPTION of type %d, got message type %d exception type %d", what, wantEx, r.mtype, r.exType)
		}
	}
	return nil
}

func execC14(c c14Case) *ev.Failure {
	var f *ev.Failure
	ok, p := within(60*time.Second, func() { f = execC14Inner(c) })
	if !ok {
		return ev.Failf("hang:c14", "case did not finish in 60s\n%s", allStacks())
	}
	if p != "" {
		return ev.Failf("panic:c14", "%s", p)
	}
	return f
}

func execC14Inner(c c14Case) *ev.Failure {
	pf := fpf(c.Proto)
	var mu sync.Mutex
	calls := map[string]int{}
	goneClosed := make(chan struct{})
	var goneOnce sync.Once
	h := &svcHandler{
		echo: func(ctx frugal.FContext, v string) (string, error) {
			key := v
			size := 0
			if strings.HasPrefix(v, "big:") {
				p := strings.SplitN(v, ":", 3)
				key = p[0] + ":" + p[1]
				fmt.Sscan(p[2], &size)
			}
			mu.Lock()
			calls[key]++
			mu.Unlock()
			if strings.HasPrefix(v, "clientgone:") {
				// wait until the test has closed the caller's connection
				select {
				case <-goneClosed:
				case <-time.After(5 * time.Second):
				}
				time.Sleep(2 * time.Millisecond)
			}
			switch {
			case strings.HasPrefix(v, "big:"):
				return strings.Repeat("a", size), nil
			case strings.HasPrefix(v, "declared:"):
				return "", &oopsError{v}
			case strings.HasPrefix(v, "error:"):
				return "", fmt.Errorf("boom %s", v)
			case strings.HasPrefix(v, "appex:"):
				return "", thrift.NewTApplicationException(42, "custom "+v)
			}
			return "echo:" + v, nil
		},
		fire: func(ctx frugal.FContext, v string) error {
			mu.Lock()
			calls[v]++
			mu.Unlock()
			return nil
		},
	}
	proc := newSvcProcessor(h)

	// split by connection, truncating a connection's list after "truncated" on the stream server
	type item struct {
		id   int
		kind string
	}
	byConn := make([][]item, c.Conns)
	dead := make([]bool, c.Conns)
	for i, r := range c.Reqs {
		cn := r.Conn % c.Conns
		if dead[cn] {
			continue
		}
		byConn[cn] = append(byConn[cn], item{i, r.Kind})
		if (r.Kind == "truncated" || r.Kind == "clientgone") && c.Server == "simple" {
			dead[cn] = true
		}
	}
	fails := make([]*ev.Failure, c.Conns)
	var wg sync.WaitGroup

	switch c.Server {
	case "loop":
		lt := &loopT{proc: proc, pf: pf}
		for _, items := range byConn {
			for _, it := range items {
				frame, opid := c14Frame(c.Proto, it.kind, it.id)
				out, err := lt.run(frame)
				if it.kind == "oneway" {
					if out != nil {
						return ev.Failf("oneway-replied", "request %d (oneway): the server produced a reply frame", it.id)
					}
					continue
				}
				if out == nil {
					return ev.Failf("no-reply", "request %d (%s): no reply frame (Process error: %v)", it.id, it.kind, err)
				}
				if f := checkReply(c.Proto, it.kind, it.id, opid, out); f != nil {
					return f
				}
			}
		}

	case "simple":
		sock, err := thrift.NewTServerSocket("127.0.0.1:0")
		if err != nil {
			return ev.Failf("harness:listen", "%v", err)
		}
		if err := sock.Listen(); err != nil {
			return ev.Failf("harness:listen", "%v", err)
		}
		srv := frugal.NewFSimpleServer(proc, sock, pf)
		go srv.Serve()
		defer srv.Stop()
		addr := sock.Addr().String()
		stalledConn := -1
		for cn := range byConn {
			for _, it := range byConn[cn] {
				if it.kind == "unknown-stalled" {
					stalledConn = cn
				}
			}
		}
		var othersLeft int32
		for cn := range byConn {
			if cn != stalledConn {
				othersLeft++
			}
		}
		replyWait := 5 * time.Second
		if stalledConn >= 0 {
			replyWait = 2 * time.Second // must be answered while the stalled request is pending
		}
		for cn := range byConn {
			wg.Add(1)
			go func(cn int) {
				defer wg.Done()
				if cn != stalledConn {
					defer atomic.AddInt32(&othersLeft, -1)
				}
				conn, err := net.Dial("tcp", addr)
				if err != nil {
					fails[cn] = ev.Failf("harness:dial", "%v", err)
					return
				}
				defer conn.Close()
				readFrame := func(d time.Duration) ([]byte, error) {
					conn.SetReadDeadline(time.Now().Add(d))
					var sz [4]byte
					if _, err := io.ReadFull(conn, sz[:]); err != nil {
						return nil, err
					}
					n := binary.BigEndian.Uint32(sz[:])
					if n > 1<<20 {
						return nil, fmt.Errorf("absurd reply frame size %d", n)
					}
					b := make([]byte, n)
					conn.SetReadDeadline(time.Now().Add(3 * time.Second))
					if _, err := io.ReadFull(conn, b); err != nil {
						return nil, fmt.Errorf("reply frame announced %d bytes: %v", n, err)
					}
					return b, nil
				}
				for _, it := range byConn[cn] {
					frame, opid := c14Frame(c.Proto, it.kind, it.id)
					var werr error
					if it.kind == "unknown-stalled" {
						if _, werr = conn.Write(frame[:len(frame)-1]); werr == nil {
							waitFor(4*time.Second, func() bool { return atomic.LoadInt32(&othersLeft) == 0 })
							_, werr = conn.Write(frame[len(frame)-1:])
						}
					} else if c.Chunk > 0 {
						for off := 0; off < len(frame) && werr == nil; off += c.Chunk {
							end := off + c.Chunk
							if end > len(frame) {
								end = len(frame)
							}
							_, werr = conn.Write(frame[off:end])
							time.Sleep(50 * time.Microsecond)
						}
					} else {
						_, werr = conn.Write(frame)
					}
					if werr != nil {
						fails[cn] = ev.Failf("conn-broken", "connection %d: write of request %d (%s) failed: %v", cn, it.id, it.kind, werr)
						return
					}
					if it.kind == "oneway" {
						continue // verified by the absence of an extra frame before the next reply / at the end
					}
					if it.kind == "truncated" {
						return // nothing is asserted about this connection from here on
					}
					if it.kind == "clientgone" {
						// hang up once the handler is running; its reply has nowhere to go
						waitFor(2*time.Second, func() bool { mu.Lock(); defer mu.Unlock(); return calls[fmt.Sprintf("clientgone:%d", it.id)] > 0 })
						conn.Close()
						goneOnce.Do(func() { close(goneClosed) })
						return
					}
					wait := replyWait
					if cn == stalledConn {
						wait = 5 * time.Second
					}
					b, err := readFrame(wait)
					if err != nil {
						fails[cn] = ev.Failf("no-reply", "connection %d: no reply to request %d (%s) within %v (a request on connection %d is pending with its last byte outstanding: %v): %v", cn, it.id, it.kind, wait, stalledConn, stalledConn >= 0 && cn != stalledConn, err)
						return
					}
					if f := checkReply(c.Proto, it.kind, it.id, opid, b); f != nil {
						fails[cn] = f
						return
					}
				}
				// nothing else must arrive (a reply to a oneway, a duplicate reply)
				if b, err := readFrame(15 * time.Millisecond); err == nil {
					fails[cn] = ev.Failf("extra-reply", "connection %d: an unsolicited extra frame arrived: % x", cn, head(b))
				}
			}(cn)
		}
		wg.Wait()
		// whatever happened on those connections, a new connection is served
		for cn := range fails {
			if fails[cn] != nil {
				return fails[cn]
			}
		}
		{
			conn, err := net.Dial("tcp", addr)
			if err != nil {
				return ev.Failf("harness:dial", "%v", err)
			}
			defer conn.Close()
			time.Sleep(5 * time.Millisecond) // let a reply to a hung-up client fail first
			frame, opid := c14Frame(c.Proto, "ok", 99999)
			conn.Write(frame)
			conn.SetReadDeadline(time.Now().Add(5 * time.Second))
			var sz [4]byte
			if _, err := io.ReadFull(conn, sz[:]); err != nil {
				return ev.Failf("no-reply", "simple server: a request on a new connection opened after the scripted ones got no reply within 5s: %v", err)
			}
			b := make([]byte, binary.BigEndian.Uint32(sz[:]))
			if _, err := io.ReadFull(conn, b); err != nil {
				return ev.Failf("reply-malformed", "simple server, final connection: %v", err)
			}
			if f := checkReply(c.Proto, "ok", 99999, opid, b); f != nil {
				return f
			}
		}

	case "http":
		ts := httptest.NewServer(frugal.NewFrugalHandlerFunc(proc, pf))
		defer ts.Close()
		for cn := range byConn {
			wg.Add(1)
			go func(cn int) {
				defer wg.Done()
				hc := &http.Client{Timeout: 10 * time.Second}
				for _, it := range byConn[cn] {
					frame, opid := c14Frame(c.Proto, it.kind, it.id)
					hreq, _ := http.NewRequest("POST", ts.URL, strings.NewReader(base64.StdEncoding.EncodeToString(frame)))
					hreq.Header.Set("Content-Type", "application/x-frugal")
					if it.kind == "limit413" {
						hreq.Header.Set("x-frugal-payload-limit", "5")
					}
					resp, err := hc.Do(hreq)
					if err != nil {
						fails[cn] = ev.Failf("no-reply", "http request %d (%s): %v", it.id, it.kind, err)
						return
					}
					body, _ := io.ReadAll(resp.Body)
					resp.Body.Close()
					if it.kind == "limit413" {
						if resp.StatusCode != http.StatusRequestEntityTooLarge {
							fails[cn] = ev.Failf("limit-not-enforced", "http request %d: reply above the requested payload limit was answered with status %d", it.id, resp.StatusCode)
							return
						}
						continue
					}
					if resp.StatusCode != 200 {
						fails[cn] = ev.Failf("no-reply", "http request %d (%s): status %d %q", it.id, it.kind, resp.StatusCode, trunc(string(body), 120))
						return
					}
					raw, err := base64.StdEncoding.DecodeString(string(body))
					if err != nil || len(raw) < 4 || int(binary.BigEndian.Uint32(raw)) != len(raw)-4 {
						fails[cn] = ev.Failf("reply-malformed", "http request %d (%s): body is not a base64 frame with a correct size prefix (%v, %d bytes)", it.id, it.kind, err, len(raw))
						return
					}
					if it.kind == "oneway" {
						if len(raw) != 4 {
							fails[cn] = ev.Failf("oneway-replied", "http request %d (oneway): %d reply bytes", it.id, len(raw)-4)
							return
						}
						continue
					}
					if f := checkReply(c.Proto, it.kind, it.id, opid, raw[4:]); f != nil {
						fails[cn] = f
						return
					}
				}
			}(cn)
		}
		wg.Wait()

	case "nats":
		sconn, err := natsConnect()
		if err != nil {
			return ev.Failf("harness:nats", "%v", err)
		}
		defer sconn.Close()
		raw, _ := natsConnect()
		defer raw.Close()
		subj := fmt.Sprintf("c14.svc.%d", uniq64())
		inbox := fmt.Sprintf("c14.inbox.%d", uniq64())
		sb := frugal.NewFNatsServerBuilder(sconn, proc, pf, []string{subj}).WithWorkerCount(uint(c.Workers))
		if c.WatermarkMs > 0 {
			sb = sb.WithHighWatermark(time.Duration(c.WatermarkMs) * time.Millisecond)
		}
		srv := sb.Build()
		served := make(chan error, 1)
		go func() { served <- srv.Serve() }()
		awaitSubscribed(sconn)
		defer func() { srv.Stop(); <-served }()
		var rmu sync.Mutex
		replies := map[string][][]byte{}
		total := 0
		sub, _ := raw.Subscribe(inbox+".*", func(m *nats.Msg) {
			rmu.Lock()
			replies[m.Subject] = append(replies[m.Subject], append([]byte{}, m.Data...))
			total++
			rmu.Unlock()
		})
		defer sub.Unsubscribe()
		raw.Flush()
		expected := 0
		for cn := range byConn {
			for _, it := range byConn[cn] {
				if it.kind != "oneway" {
					expected++
				}
				if it.kind == "big" {
					expected++ // the calibration call
				}
			}
		}
		const calSize = 1000000
		var bigMu sync.Mutex
		bigSize := map[int]int{}
		for cn := range byConn {
			wg.Add(1)
			go func(cn int) {
				defer wg.Done()
				pc, err := natsConnect()
				if err != nil {
					fails[cn] = ev.Failf("harness:nats", "%v", err)
					return
				}
				defer pc.Close()
				for _, it := range byConn[cn] {
					size := 0
					if it.kind == "big" {
						// calibration: the same call with a result of calSize bytes tells how much the
						// frame adds around the result (same id, same protocol, same number of digits)
						calFrame, _ := c14FrameL(c.Proto, "big", it.id, calSize)
						calSubj := fmt.Sprintf("%s.cal-%d", inbox, it.id)
						pc.PublishRequest(subj, calSubj, calFrame)
						pc.Flush()
						var calReply []byte
						waitFor(5*time.Second, func() bool {
							rmu.Lock()
							defer rmu.Unlock()
							if len(replies[calSubj]) > 0 {
								calReply = replies[calSubj][0]
							}
							return calReply != nil
						})
						if calReply == nil {
							fails[cn] = ev.Failf("no-reply", "nats: request %d (big, calibration call with a %d byte result) got no reply within 5s", it.id, calSize)
							return
						}
						size = calSize + (1 << 20) + c.Reqs[it.id].Delta - len(calReply)
						bigMu.Lock()
						bigSize[it.id] = size
						bigMu.Unlock()
					}
					frame, _ := c14FrameL(c.Proto, it.kind, it.id, size)
					pc.PublishRequest(subj, fmt.Sprintf("%s.%d", inbox, it.id), frame)
				}
				pc.Flush()
			}(cn)
		}
		wg.Wait()
		if !waitFor(5*time.Second, func() bool { rmu.Lock(); defer rmu.Unlock(); return total >= expected }) {
			rmu.Lock()
			got := total
			rmu.Unlock()
			// find a request without reply for the message
			for cn := range byConn {
				for _, it := range byConn[cn] {
					rmu.Lock()
					n := len(replies[fmt.Sprintf("%s.%d", inbox, it.id)])
					rmu.Unlock()
					if it.kind != "oneway" && n == 0 {
						return ev.Failf("no-reply", "nats: request %d (%s) got no reply within 5s (%d of %d replies arrived, %d workers)", it.id, it.kind, got, expected, c.Workers)
					}
				}
			}
		}
		time.Sleep(15 * time.Millisecond) // grace for duplicates / oneway replies
		rmu.Lock()
		defer rmu.Unlock()
		for cn := range byConn {
			for _, it := range byConn[cn] {
				rs := replies[fmt.Sprintf("%s.%d", inbox, it.id)]
				_, opid := c14Frame(c.Proto, it.kind, it.id)
				if it.kind == "oneway" {
					if len(rs) != 0 {
						return ev.Failf("oneway-replied", "nats: request %d (oneway) got %d replies", it.id, len(rs))
					}
					continue
				}
				if len(rs) != 1 {
					return ev.Failf("reply-count", "nats: request %d (%s) got %d replies, want exactly 1", it.id, it.kind, len(rs))
				}
				if len(rs[0]) < 4 || int(binary.BigEndian.Uint32(rs[0])) != len(rs[0])-4 {
					return ev.Failf("reply-malformed", "nats: request %d (%s): reply size prefix does not match its length %d", it.id, it.kind, len(rs[0]))
				}
				if it.kind == "big" {
					delta, size := c.Reqs[it.id].Delta, bigSize[it.id]
					what := fmt.Sprintf("nats: request %d (big: handler result of %d bytes, complete reply frame = 1 MiB %+d bytes)", it.id, size, delta)
					if n := len(replies[fmt.Sprintf("%s.cal-%d", inbox, it.id)]); n != 1 {
						return ev.Failf("reply-count", "%s: its calibration call got %d replies", what, n)
					}
					r, err := parseReply(c.Proto, rs[0][4:])
					if err != nil {
						return ev.Failf("reply-malformed", "%s: %v", what, err)
					}
					if r.opid != opid {
						return ev.Failf("reply-opid", "%s: reply carries op id %q, request had %s", what, r.opid, opid)
					}
					if delta <= 0 {
						if r.mtype != thrift.REPLY || r.result.Success == nil || len(*r.result.Success) != size || strings.Trim(*r.result.Success, "a") != "" {
							return ev.Failf("reply-content", "%s: want REPLY with the %d byte result, got message type %d exception type %d (reply of %d bytes)", what, size, r.mtype, r.exType, len(rs[0]))
						}
						if len(rs[0]) != (1<<20)+delta {
							return ev.Failf("harness:calibration", "%s: reply frame has %d bytes", what, len(rs[0]))
						}
					} else if r.mtype != thrift.EXCEPTION || r.exType != frugal.APPLICATION_EXCEPTION_RESPONSE_TOO_LARGE {
						return ev.Failf("reply-content", "%s: want EXCEPTION RESPONSE_TOO_LARGE, got message type %d exception type %d", what, r.mtype, r.exType)
					}
					continue
				}
				if f := checkReply(c.Proto, it.kind, it.id, opid, rs[0][4:]); f != nil {
					return f
				}
			}
		}
	}
	for _, f := range fails {
		if f != nil {
			return f
		}
	}
	// handler invocation counts
	mu.Lock()
	defer mu.Unlock()
	for cn := range byConn {
		for _, it := range byConn[cn] {
			key := fmt.Sprintf("%s:%d", it.kind, it.id)
			want := 0
			switch it.kind {
			case "ok", "declared", "error", "appex", "oneway", "limit413":
				want = 1
			case "big":
				want = 2 // calibration + the call itself
			case "clientgone":
				want = 1
			}
			if it.kind == "oneway" && c.Server == "simple" {
				// processed asynchronously after the last reply was read; give it a moment
				mu.Unlock()
				waitFor(2*time.Second, func() bool { mu.Lock(); defer mu.Unlock(); return calls[key] >= 1 })
				mu.Lock()
			}
			if calls[key] != want {
				return ev.Failf("handler-count", "request %d (%s): handler invoked %d times, want %d", it.id, it.kind, calls[key], want)
			}
		}
	}
	return nil
}

var c14Prop = ev.Prop("c14.replies", genC14, execC14, classifyC14, func(c c14Case) interface{} {
	var ks []string
	for _, r := range c.Reqs {
		ks = append(ks, fmt.Sprintf("%s@%d", r.Kind, r.Conn))
	}
	return map[string]interface{}{"server": c.Server, "proto": c.Proto, "conns": c.Conns, "workers": c.Workers, "requests": strings.Join(ks, " ")}
})

func TestC14Replies(t *testing.T) { rapid.Check(t, c14Prop) }
