package rt

// C07 — pub/sub delivers each message once, intact, and isolates bad messages.

import (
	"fmt"
	"sort"
	"strings"
	"sync"
	"testing"
	"time"

	frugal "github.com/Workiva/frugal/lib/go"
	"github.com/apache/thrift/lib/go/thrift"
	"github.com/go-stomp/stomp"
	"github.com/nats-io/nats.go"
	"pgregory.net/rapid"
	"verif/ev"
)

type c07Msg struct {
	Kind string `json:"kind"` // valid short empty badversion badheadersize wrongop truncated foreign-op foreign-prefix foreign-scope
	V    string `json:"v,omitempty"`
	User []KV   `json:"user,omitempty"`
}

type c07Case struct {
	Transport string   `json:"transport"` // nats | stomp
	Workers   int      `json:"workers"`   // nats
	Queue     bool     `json:"queue"`     // nats queue group
	Proto     string   `json:"proto"`
	Msgs      []c07Msg `json:"msgs"`
	After     int      `json:"after"`      // valid messages published after Unsubscribe returned (nats)
	Burst     int      `json:"burst"`      // additional valid messages published back to back (nats)
	HoldFirst bool     `json:"hold_first"` // the first handler invocation blocks until everything was published
	// Siblings (nats): the same factory also provides subscriptions to the three foreign
	// topics; each subscription must get exactly the messages of its own topic
	Siblings bool `json:"siblings,omitempty"`
}

var c07Kinds = []string{"valid", "valid", "valid", "valid", "short", "empty", "badversion", "badheadersize", "wrongop", "truncated", "foreign-op", "foreign-prefix", "foreign-scope"}

func genC07(t *rapid.T) c07Case {
	c := c07Case{}
	c.Transport = rapid.SampledFrom([]string{"nats", "nats", "stomp"}).Draw(t, "transport")
	c.Workers = rapid.IntRange(1, 4).Draw(t, "workers")
	c.Queue = rapid.Bool().Draw(t, "queue")
	c.Proto = rapid.SampledFrom([]string{"binary", "compact", "json"}).Draw(t, "proto")
	c.Siblings = c.Transport == "nats" && rapid.IntRange(0, 2).Draw(t, "siblings") == 0
	n := rapid.IntRange(1, 40).Draw(t, "n")
	for i := 0; i < n; i++ {
		m := c07Msg{Kind: rapid.SampledFrom(c07Kinds).Draw(t, "kind")}
		if m.Kind == "valid" || strings.HasPrefix(m.Kind, "foreign") {
			m.V = rapid.StringMatching(`[a-zé]{0,8}`).Draw(t, "v")
			m.User = genUserPairs(t, "user", 3)
		}
		c.Msgs = append(c.Msgs, m)
	}
	c.After = rapid.IntRange(0, 3).Draw(t, "after")
	if c.Transport == "nats" && rapid.IntRange(0, 3).Draw(t, "burst?") == 0 {
		c.Burst = rapid.SampledFrom([]int{10, 70, 130, 300}).Draw(t, "burst")
		c.HoldFirst = rapid.Bool().Draw(t, "hold")
	}
	return c
}

func classifyC07(c c07Case) ev.Class {
	labels := []string{"transport=" + c.Transport, "proto=" + c.Proto}
	if c.Transport == "nats" {
		labels = append(labels, fmt.Sprintf("workers=%d", c.Workers))
		if c.Queue {
			labels = append(labels, "queue-group")
		}
	}
	nt := false
	bad := false
	for _, m := range c.Msgs {
		switch {
		case m.Kind == "valid":
			if bad {
				labels = append(labels, "valid-after-malformed")
				nt = true
			}
		case strings.HasPrefix(m.Kind, "foreign"):
			labels = append(labels, "foreign-topic")
			nt = true
		default:
			bad = true
			labels = append(labels, "malformed="+m.Kind)
		}
	}
	if c.Burst > 64 {
		labels = append(labels, "burst-beyond-work-queue")
		nt = true
	}
	if c.HoldFirst {
		labels = append(labels, "slow-first-handler")
	}
	if c.After > 0 && c.Transport == "nats" {
		labels = append(labels, "post-unsubscribe-publish")
		nt = true
	}
	if c.Siblings {
		labels = append(labels, "several-subscriptions-from-one-factory")
	}
	return ev.Class{NonTrivial: nt, Key: fmt.Sprintf("%+v", c), Labels: uniq(labels)}
}

type c07Recv struct {
	v    string
	user string
	cid  string
}

func userKey(p []KV) string { return fmt.Sprintf("%x", canonPairs(p)) }

func execC07(c c07Case) *ev.Failure {
	var f *ev.Failure
	ok, p := within(90*time.Second, func() { f = execC07Inner(c) })
	if !ok {
		return ev.Failf("hang:c07", "case did not finish in 90s\n%s", allStacks())
	}
	if p != "" {
		return ev.Failf("panic:c07", "%s", p)
	}
	return f
}

func execC07Inner(c c07Case) *ev.Failure {
	pf := fpf(c.Proto)
	n := uniq64()
	topic := fmt.Sprintf("pre.u%d.Scope.Evt", n) // prefix.var.scope.op
	foreign := map[string]string{
		"foreign-op":     fmt.Sprintf("pre.u%d.Scope.Evt2", n),
		"foreign-prefix": fmt.Sprintf("pre.v%d.Scope.Evt", n),
		"foreign-scope":  fmt.Sprintf("pre.u%d.Scope2.Evt", n),
	}
	var mu sync.Mutex
	var got []c07Recv
	sibGot := map[string][]string{}
	sibWant := map[string][]string{}
	syncC := make(chan struct{}, 256)
	unsubscribed := false
	var lateStart []string
	hold := make(chan struct{})
	first := true
	cb := subscriberCallback("Evt", pf, func(ctx frugal.FContext, v string) error {
		if v == "__sync__" {
			syncC <- struct{}{}
			return nil
		}
		if c.HoldFirst {
			mu.Lock()
			wasFirst := first
			first = false
			mu.Unlock()
			if wasFirst {
				select {
				case <-hold:
				case <-time.After(10 * time.Second):
				}
			}
		}
		h := ctx.RequestHeaders()
		var user []KV
		for k, val := range h {
			if k != "_opid" && k != "_cid" && k != "_timeout" {
				user = append(user, kv(k, val))
			}
		}
		mu.Lock()
		if unsubscribed && strings.HasPrefix(v, "__after__") {
			lateStart = append(lateStart, v)
		}
		got = append(got, c07Recv{v, userKey(user), ctx.CorrelationID()})
		mu.Unlock()
		return nil
	})

	var pubF frugal.FPublisherTransportFactory
	var sub frugal.FSubscriberTransport
	var rawPublish func(topic string, b []byte) error
	var flush func()
	switch c.Transport {
	case "nats":
		sc, err := natsConnect()
		if err != nil {
			return ev.Failf("harness:nats", "%v", err)
		}
		defer sc.Close()
		pc, _ := natsConnect()
		defer pc.Close()
		pubF = frugal.NewFNatsPublisherTransportFactory(pc)
		b := frugal.NewFNatsSubscriberFactoryBuilder(sc).WithWorkerCount(uint(c.Workers))
		if c.Queue {
			b = b.WithQueue(fmt.Sprintf("q%d", n))
		}
		factory := b.Build()
		sub = factory.GetTransport()
		if c.Siblings {
			for _, kind := range []string{"foreign-op", "foreign-prefix", "foreign-scope"} {
				kind := kind
				op := "Evt"
				if kind == "foreign-op" {
					op = "Evt2"
				}
				sib := factory.GetTransport()
				if err := sib.Subscribe(foreign[kind], subscriberCallback(op, pf, func(ctx frugal.FContext, v string) error {
					mu.Lock()
					sibGot[kind] = append(sibGot[kind], v)
					mu.Unlock()
					return nil
				})); err != nil {
					return ev.Failf("harness:subscribe", "sibling %s: %v", kind, err)
				}
				defer sib.Unsubscribe()
			}
			sc.Flush()
		}
		rawPublish = func(t string, b []byte) error { return pc.Publish("frugal."+t, b) }
		flush = func() { pc.Flush() }
		_ = nats.DefaultURL
	case "stomp":
		sc, err := stompConnect()
		if err != nil {
			return ev.Failf("harness:stomp", "%v", err)
		}
		defer sc.MustDisconnect()
		pc, err := stompConnect()
		if err != nil {
			return ev.Failf("harness:stomp", "%v", err)
		}
		defer pc.MustDisconnect()
		pubF = frugal.NewFStompPublisherTransportFactoryBuilder(pc).Build()
		sub = frugal.NewFStompSubscriberTransportFactoryBuilder(sc).Build().GetTransport()
		rawPublish = func(t string, b []byte) error {
			return pc.Send("/topic/frugal."+t, "application/octet-stream", b, stomp.SendOpt.Header("persistent", "true"))
		}
		flush = func() {}
	}
	if err := sub.Subscribe(topic, cb); err != nil {
		return ev.Failf("harness:subscribe", "%v", err)
	}
	cl := frugal.NewFScopeClient(frugal.NewFScopeProvider(pubF, nil, pf))
	if err := cl.Open(); err != nil {
		return ev.Failf("harness:open", "%v", err)
	}
	pubValid := func(t, op, v string, user []KV, cid string) error {
		ctx := frugal.NewFContext(cid)
		for _, p := range user {
			ctx.AddRequestHeader(string(p.K), string(p.V))
		}
		return cl.Publish(ctx, op, t, &strStruct{Name: "Evt", ID: 1, V: &v})
	}
	if c.Transport == "stomp" {
		okSync := false
		for i := 0; i < 1500 && !okSync; i++ {
			pubValid(topic, "Evt", "__sync__", nil, "")
			select {
			case <-syncC:
				okSync = true
			case <-time.After(3 * time.Millisecond):
			}
		}
		if !okSync {
			return ev.Failf("harness:stomp-sync", "subscription never became active")
		}
	}
	var want []c07Recv
	for i, m := range c.Msgs {
		cid := fmt.Sprintf("cid-%d", i)
		valid := refFrame(frameContent([]KV{kv("_opid", "1"), kv("_cid", cid)}, thriftMessage(c.Proto, "Evt", thrift.CALL, &strStruct{Name: "Evt", ID: 1, V: sp("raw")})))
		var err error
		switch m.Kind {
		case "valid":
			v := fmt.Sprintf("%d:%s", i, m.V)
			err = pubValid(topic, "Evt", v, m.User, cid)
			want = append(want, c07Recv{v, userKey(m.User), cid})
		case "foreign-op":
			err = pubValid(foreign[m.Kind], "Evt2", fmt.Sprintf("foreign:%d:%s", i, m.V), m.User, cid)
			sibWant[m.Kind] = append(sibWant[m.Kind], fmt.Sprintf("foreign:%d:%s", i, m.V))
		case "foreign-prefix", "foreign-scope":
			err = pubValid(foreign[m.Kind], "Evt", fmt.Sprintf("foreign:%d:%s", i, m.V), m.User, cid)
			sibWant[m.Kind] = append(sibWant[m.Kind], fmt.Sprintf("foreign:%d:%s", i, m.V))
		case "short":
			err = rawPublish(topic, []byte{0, 0, 1}[:1+i%3])
		case "empty":
			err = rawPublish(topic, []byte{})
		case "badversion":
			b := append([]byte{}, valid...)
			b[4] = 7
			err = rawPublish(topic, b)
		case "badheadersize":
			b := append([]byte{}, valid...)
			copy(b[5:9], []byte{0xff, 0xff, 0xff, 0xfb})
			err = rawPublish(topic, b)
		case "wrongop":
			err = rawPublish(topic, refFrame(frameContent([]KV{kv("_opid", "1"), kv("_cid", cid)}, thriftMessage(c.Proto, "Other", thrift.CALL, &strStruct{Name: "Evt", ID: 1, V: sp("wrongop")}))))
		case "truncated":
			err = rawPublish(topic, valid[:len(valid)-2])
		}
		if err != nil {
			return ev.Failf("harness:publish", "message %d (%s): %v", i, m.Kind, err)
		}
	}
	for i := 0; i < c.Burst; i++ {
		cid := fmt.Sprintf("cid-b%d", i)
		v := fmt.Sprintf("burst-%04d", i)
		if err := pubValid(topic, "Evt", v, nil, cid); err != nil {
			return ev.Failf("harness:publish", "burst message %d: %v", i, err)
		}
		want = append(want, c07Recv{v, userKey(nil), cid})
	}
	flush()
	if c.HoldFirst {
		time.Sleep(30 * time.Millisecond) // let the backlog build up behind the blocked handler
	}
	close(hold)
	// count-based wait, then a grace window for duplicates / foreign deliveries
	if !waitFor(5*time.Second, func() bool { mu.Lock(); defer mu.Unlock(); return len(got) >= len(want) }) {
		mu.Lock()
		g := len(got)
		mu.Unlock()
		return ev.Failf("message-lost", "%s: %d of %d valid same-topic messages were delivered within 5s (%d messages published in total)", c.Transport, g, len(want), len(c.Msgs))
	}
	if c.Siblings {
		waitFor(3*time.Second, func() bool {
			mu.Lock()
			defer mu.Unlock()
			for k, w := range sibWant {
				if len(sibGot[k]) < len(w) {
					return false
				}
			}
			return true
		})
	}
	time.Sleep(20 * time.Millisecond)
	if c.Siblings {
		mu.Lock()
		for _, kind := range []string{"foreign-op", "foreign-prefix", "foreign-scope"} {
			g, w := append([]string{}, sibGot[kind]...), append([]string{}, sibWant[kind]...)
			if c.Workers != 1 {
				sort.Strings(g)
				sort.Strings(w)
			}
			if strings.Join(g, "\x00") != strings.Join(w, "\x00") {
				mu.Unlock()
				return ev.Failf("sibling-subscription", "a second subscription of the same factory (topic %s, %d workers) got %q, its topic was sent %q", foreign[kind], c.Workers, g, w)
			}
		}
		mu.Unlock()
	}
	if c.Transport == "nats" {
		if err := sub.Unsubscribe(); err != nil {
			return ev.Failf("unsubscribe-error", "%v", err)
		}
		mu.Lock()
		unsubscribed = true
		mu.Unlock()
		for i := 0; i < c.After; i++ {
			pubValid(topic, "Evt", fmt.Sprintf("__after__%d", i), nil, "")
		}
		flush()
		time.Sleep(40 * time.Millisecond)
	}
	mu.Lock()
	defer mu.Unlock()
	if len(lateStart) > 0 {
		return ev.Failf("delivered-after-unsubscribe", "handler invoked for %v, published after Unsubscribe had returned", lateStart)
	}
	gotC := append([]c07Recv{}, got...)
	wantC := append([]c07Recv{}, want...)
	ordered := c.Transport == "stomp" || c.Workers == 1
	if !ordered {
		less := func(s []c07Recv) func(i, j int) bool { return func(i, j int) bool { return s[i].v < s[j].v } }
		sort.Slice(gotC, less(gotC))
		sort.Slice(wantC, less(wantC))
	}
	for i := 0; i < len(gotC) || i < len(wantC); i++ {
		switch {
		case i >= len(wantC):
			return ev.Failf("unexpected-delivery", "handler invoked %d times, only %d valid same-topic messages were published; extra: %+v", len(gotC), len(wantC), gotC[i])
		case i >= len(gotC):
			return ev.Failf("message-lost", "message %+v was never delivered", wantC[i])
		case gotC[i].v != wantC[i].v:
			if ordered {
				return ev.Failf("order-or-content", "delivery %d: got %q, want %q (single-worker subscriber must preserve publish order)", i, gotC[i].v, wantC[i].v)
			}
			return ev.Failf("multiset-differs", "deliveries differ at sorted position %d: got %q, want %q", i, gotC[i].v, wantC[i].v)
		case gotC[i].user != wantC[i].user:
			return ev.Failf("headers-differ", "message %q: the subscriber saw different user headers than the publisher set", gotC[i].v)
		case gotC[i].cid != wantC[i].cid:
			return ev.Failf("cid-differs", "message %q: correlation id %q, publisher used %q", gotC[i].v, gotC[i].cid, wantC[i].cid)
		}
	}
	return nil
}

var c07Prop = ev.Prop("c07.pubsub", genC07, execC07, classifyC07, func(c c07Case) interface{} {
	var ks []string
	for _, m := range c.Msgs {
		ks = append(ks, m.Kind)
	}
	return map[string]interface{}{"transport": c.Transport, "workers": c.Workers, "queue": c.Queue, "proto": c.Proto, "messages": strings.Join(ks, " "), "after_unsubscribe": c.After}
})

func TestC07PubSub(t *testing.T) { rapid.Check(t, c07Prop) }
