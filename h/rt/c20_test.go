package rt

// C20 — NATS server shutdown drains: accepted requests answered, none lost or
// duplicated, Stop and Serve return.

import (
	"fmt"
	"strconv"
	"strings"
	"sync"
	"testing"
	"time"

	frugal "github.com/Workiva/frugal/lib/go"
	"github.com/apache/thrift/lib/go/thrift"
	"github.com/nats-io/nats.go"
	"pgregory.net/rapid"
	"verif/ev"
)

type c20Case struct {
	Workers   int    `json:"workers"`
	WatermarkMs int `json:"watermark_ms,omitempty"` // nats: WithHighWatermark (a logging threshold); 0 = default
	QueueLen  int    `json:"queue_len"`
	Durations []int  `json:"durations_ms"` // one request per entry (the burst)
	StopAfter int    `json:"stop_after"`   // Stop is called after this many requests were published and flushed
	Tail      int    `json:"tail"`         // requests published after Stop returned
	OwnConn   bool   `json:"own_conn"`     // publisher uses the server's connection
	Proto     string `json:"proto"`
	// PadKB: every request carries a header of that many KiB (large but legal messages pile up
	// in the subscription while the work queue is full)
	PadKB int `json:"pad_kb,omitempty"`
	// Poison: that many messages of fewer than 4 bytes (with a reply subject) precede the burst
	Poison int `json:"poison,omitempty"`
	// Subjects > 1: the server listens on that many subjects, requests are spread over them
	Subjects int `json:"subjects,omitempty"`
	// DrainMs > 0: the server's connection was opened with nats.DrainTimeout of that many ms
	DrainMs int `json:"drain_ms,omitempty"`
	// EarlyStop: Stop is called right after `go Serve()`, before Serve had time to subscribe
	EarlyStop bool `json:"early_stop,omitempty"`
	// ReplyKB: every reply is padded to that many KiB
	ReplyKB int `json:"reply_kb,omitempty"`
	// CloseAtReturn: the server's connection is closed as soon as Serve has returned (the replies of
	// everything accepted must have been published by then; Close flushes what was published)
	CloseAtReturn bool `json:"close_at_return,omitempty"`
}

func genC20(t *rapid.T) c20Case {
	c := c20Case{}
	c.Workers = rapid.IntRange(1, 4).Draw(t, "workers")
	c.WatermarkMs = rapid.SampledFrom([]int{0, 0, 1, 1, 20}).Draw(t, "watermark")
	c.QueueLen = rapid.IntRange(0, 8).Draw(t, "queue")
	n := rapid.IntRange(0, 30).Draw(t, "burst")
	for i := 0; i < n; i++ {
		c.Durations = append(c.Durations, rapid.SampledFrom([]int{0, 0, 0, 1, 2, 5, 15}).Draw(t, "dur"))
	}
	c.StopAfter = rapid.IntRange(0, n).Draw(t, "stopAfter")
	c.Tail = rapid.IntRange(0, 4).Draw(t, "tail")
	c.OwnConn = rapid.IntRange(0, 3).Draw(t, "own") == 0
	c.Proto = rapid.SampledFrom([]string{"binary", "compact", "json"}).Draw(t, "proto")
	c.Subjects = rapid.SampledFrom([]int{1, 1, 2, 3, 4}).Draw(t, "subjects")
	if c.Subjects > 1 && c.Tail < c.Subjects {
		c.Tail = c.Subjects // at least one late request per subject
	}
	if rapid.IntRange(0, 3).Draw(t, "drain?") == 0 {
		c.DrainMs = rapid.SampledFrom([]int{20, 100, 300}).Draw(t, "drainms")
	}
	if rapid.IntRange(0, 2).Draw(t, "poison?") == 0 {
		c.Poison = rapid.IntRange(1, 6).Draw(t, "poison")
	}
	if rapid.IntRange(0, 3).Draw(t, "pad?") == 0 {
		c.PadKB = rapid.SampledFrom([]int{64, 200, 500}).Draw(t, "padkb")
	}
	if rapid.IntRange(0, 5).Draw(t, "early?") == 0 {
		c.EarlyStop = true
		c.StopAfter = 0
	}
	c.ReplyKB = rapid.SampledFrom([]int{0, 0, 0, 64, 256}).Draw(t, "replykb")
	c.CloseAtReturn = !c.OwnConn && rapid.Bool().Draw(t, "closeAtReturn")
	return c
}

func classifyC20(c c20Case) ev.Class {
	labels := []string{fmt.Sprintf("workers=%d", c.Workers), "queue=" + bucket(c.QueueLen), "burst=" + bucket(len(c.Durations))}
	nt := false
	if len(c.Durations) > c.QueueLen+c.Workers {
		labels = append(labels, "burst>queue+workers")
		nt = true
	}
	if c.EarlyStop {
		labels = append(labels, "stop-before-serve-subscribed")
		nt = true
	}
	if c.CloseAtReturn {
		labels = append(labels, "connection-closed-when-serve-returns")
	}
	if c.ReplyKB > 0 {
		labels = append(labels, "big-replies")
	}
	if c.StopAfter > 0 && c.StopAfter < len(c.Durations) {
		labels = append(labels, "stop-inside-burst")
		nt = true
	}
	if c.QueueLen == 0 {
		labels = append(labels, "unbuffered-queue")
	}
	if c.Poison > 0 {
		labels = append(labels, "malformed-messages-before-the-burst")
	}
	if c.Subjects > 1 {
		labels = append(labels, "several-subjects")
	}
	if c.DrainMs > 0 {
		labels = append(labels, "short-drain-timeout")
	}
	if c.PadKB > 0 && len(c.Durations)*c.PadKB > 1024*(c.QueueLen+1) {
		labels = append(labels, "pending-bytes>queue-length-MiB")
	}
	if c.Tail > 0 {
		labels = append(labels, "tail-after-stop")
	}
	if c.OwnConn {
		labels = append(labels, "publisher-on-server-conn")
	}
	return ev.Class{NonTrivial: nt, Key: fmt.Sprintf("%+v", c), Labels: labels}
}

func execC20(c c20Case) *ev.Failure {
	var f *ev.Failure
	ok, p := within(60*time.Second, func() { f = execC20Inner(c) })
	if !ok {
		return ev.Failf("hang:c20", "case did not finish in 60s\n%s", allStacks())
	}
	if p != "" {
		return ev.Failf("panic:c20", "%s", p)
	}
	return f
}

func execC20Inner(c c20Case) *ev.Failure {
	pf := fpf(c.Proto)
	var mu sync.Mutex
	calls := map[string]int{}
	h := &svcHandler{
		echo: func(ctx frugal.FContext, v string) (string, error) {
			mu.Lock()
			calls[v]++
			mu.Unlock()
			if i := strings.LastIndex(v, ":"); i >= 0 {
				if d, err := strconv.Atoi(v[i+1:]); err == nil && d > 0 {
					time.Sleep(time.Duration(d) * time.Millisecond)
				}
			}
			if c.ReplyKB > 0 {
				return "done:" + v + strings.Repeat("r", c.ReplyKB*1024), nil
			}
			return "done:" + v, nil
		},
		fire: func(ctx frugal.FContext, v string) error { return nil },
	}
	var sconn *nats.Conn
	var err error
	if c.DrainMs > 0 {
		u, uerr := natsURL()
		if uerr != nil {
			return ev.Failf("harness:nats", "%v", uerr)
		}
		sconn, err = nats.Connect(u, nats.NoReconnect(), nats.DrainTimeout(time.Duration(c.DrainMs)*time.Millisecond))
	} else {
		sconn, err = natsConnect()
	}
	if err != nil {
		return ev.Failf("harness:nats", "%v", err)
	}
	defer sconn.Close()
	pconn := sconn
	if !c.OwnConn {
		if pconn, err = natsConnect(); err != nil {
			return ev.Failf("harness:nats", "%v", err)
		}
		defer pconn.Close()
	}
	rconn, _ := natsConnect()
	defer rconn.Close()
	subj := fmt.Sprintf("c20.svc.%d", uniq64())
	inbox := fmt.Sprintf("c20.inbox.%d", uniq64())
	var rmu sync.Mutex
	replies := map[string]int{}
	rsub, _ := rconn.Subscribe(inbox+".*", func(m *nats.Msg) {
		rmu.Lock()
		replies[lastToken(m.Subject)]++
		rmu.Unlock()
	})
	defer rsub.Unsubscribe()
	rconn.Flush()

	subjects := []string{subj}
	for k := 1; k < c.Subjects; k++ {
		subjects = append(subjects, fmt.Sprintf("%s.s%d", subj, k))
	}
	sb := frugal.NewFNatsServerBuilder(sconn, newSvcProcessor(h), pf, subjects).
		WithWorkerCount(uint(c.Workers)).WithQueueLength(uint(c.QueueLen))
	if c.WatermarkMs > 0 {
		sb = sb.WithHighWatermark(time.Duration(c.WatermarkMs) * time.Millisecond)
	}
	srv := sb.Build()
	served := make(chan error, 1)
	go func() { served <- srv.Serve() }()
	if !c.EarlyStop {
		for i := 0; i < 2000 && sconn.NumSubscriptions() < len(subjects); i++ {
			time.Sleep(200 * time.Microsecond)
		}
		if err := sconn.Flush(); err != nil {
			return ev.Failf("harness:flush", "%v", err)
		}
	}
	name := func(kind string, i, dur int) string { return fmt.Sprintf("%s%d:%d", kind, i, dur) }
	publish := func(kind string, i, dur int) {
		v := name(kind, i, dur)
		opid := fmt.Sprint(700000 + i)
		hdrs := []KV{kv("_opid", opid), kv("_cid", "c"), kv("_timeout", "5000")}
		if c.PadKB > 0 {
			hdrs = append(hdrs, kv("pad", strings.Repeat("p", c.PadKB*1024)))
		}
		frame := refFrame(frameContent(hdrs,
			thriftMessage(c.Proto, "echo", thrift.CALL, &strStruct{Name: "echo_args", ID: 1, V: &v})))
		pconn.PublishRequest(subjects[i%len(subjects)], inbox+"."+kind+strconv.Itoa(i), frame)
	}
	for i := 0; i < c.Poison; i++ {
		pconn.PublishRequest(subj, inbox+".poison"+strconv.Itoa(i), []byte{0, 0, 1}[:i%4%3+0])
	}
	for i := 0; i < c.StopAfter; i++ {
		publish("pre", i, c.Durations[i])
	}
	if err := pconn.Flush(); err != nil {
		return ev.Failf("harness:flush", "%v", err)
	}
	// Stop, racing with the rest of the burst
	stopped := make(chan error, 1)
	go func() { stopped <- srv.Stop() }()
	for i := c.StopAfter; i < len(c.Durations); i++ {
		publish("race", i, c.Durations[i])
	}
	pconn.Flush()
	select {
	case err := <-stopped:
		if err != nil {
			return ev.Failf("stop-error", "Stop returned %v", err)
		}
	case <-time.After(10 * time.Second):
		return ev.Failf("stop-deadlock", "Stop did not return within 10s (workers=%d queue=%d burst=%d stopAfter=%d)\n%s", c.Workers, c.QueueLen, len(c.Durations), c.StopAfter, allStacks())
	}
	for i := 0; i < c.Tail; i++ {
		publish("tail", i, 0)
	}
	pconn.Flush()
	select {
	case err := <-served:
		if err != nil {
			return ev.Failf("serve-error", "Serve returned %v", err)
		}
	case <-time.After(10 * time.Second):
		return ev.Failf("serve-deadlock", "Serve did not return within 10s after Stop (workers=%d queue=%d burst=%d stopAfter=%d)\n%s", c.Workers, c.QueueLen, len(c.Durations), c.StopAfter, allStacks())
	}
	// "replies are published before Serve returns": flush the server connection now and
	// expect every pre-Stop reply to be on its way.
	mu.Lock()
	atReturn := map[string]int{}
	for k, v := range calls {
		atReturn[k] = v
	}
	mu.Unlock()
	if c.CloseAtReturn {
		sconn.Close()
	} else {
		sconn.Flush()
	}
	rconn.Flush()
	want := 0
	for i := 0; i < c.StopAfter; i++ {
		want++
		if atReturn[name("pre", i, c.Durations[i])] != 1 {
			return ev.Failf("request-lost", "request pre%d, published and flushed before Stop was called, was processed %d times when Serve returned (workers=%d queue=%d burst=%d stopAfter=%d)",
				i, atReturn[name("pre", i, c.Durations[i])], c.Workers, c.QueueLen, len(c.Durations), c.StopAfter)
		}
	}
	waitFor(3*time.Second, func() bool {
		rmu.Lock()
		defer rmu.Unlock()
		n := 0
		for i := 0; i < c.StopAfter; i++ {
			if replies["pre"+strconv.Itoa(i)] > 0 {
				n++
			}
		}
		return n >= want
	})
	time.Sleep(10 * time.Millisecond)
	mu.Lock()
	defer mu.Unlock()
	rmu.Lock()
	defer rmu.Unlock()
	for i := 0; i < c.StopAfter; i++ {
		if r := replies["pre"+strconv.Itoa(i)]; r != 1 {
			return ev.Failf("reply-count", "request pre%d (accepted before Stop): %d replies, want 1", i, r)
		}
	}
	for i := c.StopAfter; i < len(c.Durations); i++ {
		k := name("race", i, c.Durations[i])
		if calls[k] > 1 {
			return ev.Failf("request-duplicated", "request race%d processed %d times", i, calls[k])
		}
		if replies["race"+strconv.Itoa(i)] != calls[k] {
			return ev.Failf("reply-count", "request race%d: processed %d times but %d replies", i, calls[k], replies["race"+strconv.Itoa(i)])
		}
	}
	for i := 0; i < c.Tail; i++ {
		if calls[name("tail", i, 0)] != 0 {
			return ev.Failf("processed-after-stop", "request tail%d, published after Stop had returned, was processed", i)
		}
	}
	for k, v := range calls {
		if v != atReturn[k] {
			return ev.Failf("processed-after-serve", "request %s was processed after Serve had returned", k)
		}
	}
	return nil
}

var c20Prop = ev.Prop("c20.shutdown", genC20, execC20, classifyC20, nil)

func TestC20Shutdown(t *testing.T) { rapid.Check(t, c20Prop) }
