package rt

// C09 — the request context travels with the call and back.

import (
	"bytes"
	"fmt"
	"strconv"
	"strings"
	"sync"
	"sync/atomic"
	"testing"
	"time"

	frugal "github.com/Workiva/frugal/lib/go"
	"github.com/apache/thrift/lib/go/thrift"
	"pgregory.net/rapid"
	"verif/ev"
)

type c09Case struct {
	Mode      string `json:"mode"` // rpc | pubsub
	Transport string `json:"transport"`
	Proto     string `json:"proto"`
	User      []KV   `json:"user"` // request headers, names not starting with "_"
	Resp      []KV   `json:"resp"` // response headers set by the handler
	Cid       string `json:"cid"`  // "" = generated
	TimeoutMs int    `json:"timeout_ms"`
	Calls     int    `json:"calls"`   // sequential calls on the same env (op id freshness)
	Outcome   string `json:"outcome"` // ok | declared | error (rpc only)
	Reuse     bool   `json:"reuse"`   // all calls of the case reuse one FContext (allowed once a request has completed)
	// Burst (rpc): after the sequential calls, that many calls are made at once, each with its own
	// FContext, and requests are decoded concurrently; every received context needs its own op id
	Burst int `json:"burst,omitempty"`
	// BigUser / BigResp > 0: one more request / response header whose value has that many bytes
	// (header blocks beyond 64 KiB take another path through the reader)
	BigUser int `json:"big_user,omitempty"`
	BigResp int `json:"big_resp,omitempty"`
	// Onward (rpc): the handler makes an onward call to another service with the context it received
	// ("it can be used for onward calls"), between setting the first and the second half of its
	// response headers; same = with the received context itself, clone = with a clone of it
	Onward string `json:"onward,omitempty"`
}

func genUserPairs(t *rapid.T, label string, max int) []KV {
	n := rapid.IntRange(0, max).Draw(t, label+".n")
	seen := map[string]bool{}
	var out []KV
	for i := 0; i < n; i++ {
		k := genHdrBytes(false).Draw(t, label+".k")
		if len(k) > 0 && k[0] == '_' {
			k[0] = 'u'
		}
		if seen[string(k)] {
			continue
		}
		seen[string(k)] = true
		out = append(out, KV{k, genHdrBytes(false).Draw(t, label+".v")})
	}
	return out
}

func genC09(t *rapid.T) c09Case {
	c := c09Case{}
	c.Mode = rapid.SampledFrom([]string{"rpc", "rpc", "rpc", "pubsub"}).Draw(t, "mode")
	if c.Mode == "rpc" {
		c.Transport = rapid.SampledFrom([]string{"loop", "loop", "tcp", "http", "nats"}).Draw(t, "transport")
		c.Outcome = rapid.SampledFrom([]string{"ok", "ok", "declared", "error"}).Draw(t, "outcome")
		if c.Transport == "nats" && rapid.IntRange(0, 3).Draw(t, "toolarge") == 0 {
			// the handler's result does not fit a NATS message: the caller gets RESPONSE_TOO_LARGE
			c.Outcome = "toolarge"
		}
		if rapid.IntRange(0, 2).Draw(t, "burst?") == 0 {
			c.Burst = rapid.IntRange(2, 8).Draw(t, "burst")
		}
	} else {
		c.Transport = rapid.SampledFrom([]string{"nats", "stomp"}).Draw(t, "transport")
	}
	c.Proto = rapid.SampledFrom([]string{"binary", "compact", "json"}).Draw(t, "proto")
	c.User = genUserPairs(t, "user", 6)
	c.Resp = genUserPairs(t, "resp", 5)
	c.Cid = rapid.StringMatching(`[A-Za-z0-9_\-]{0,16}`).Draw(t, "cid")
	lo := 1
	if c.Transport != "loop" {
		lo = 3000
	}
	c.TimeoutMs = rapid.IntRange(lo, 3600000).Draw(t, "timeout")
	if rapid.IntRange(0, 3).Draw(t, "defaultTimeout") == 0 {
		c.TimeoutMs = 5000
	}
	if c.Mode == "rpc" && (c.Transport == "loop" || c.Transport == "tcp") && rapid.IntRange(0, 5).Draw(t, "nodeadline") == 0 {
		// zero / negative = no deadline; transports that do not need a deadline carry the call
		c.TimeoutMs = rapid.SampledFrom([]int{0, -1, -2000}).Draw(t, "nodeadline.ms")
	}
	if rapid.IntRange(0, 5).Draw(t, "big?") == 0 {
		sizes := []int{60000, 65500, 65536, 65537, 70000, 140000, 300000}
		c.BigUser = rapid.SampledFrom(sizes).Draw(t, "biguser")
		if c.Mode == "rpc" && rapid.Bool().Draw(t, "bigresp?") {
			c.BigResp = rapid.SampledFrom(sizes).Draw(t, "bigresp")
		}
	}
	c.Calls = rapid.IntRange(1, 4).Draw(t, "calls")
	c.Reuse = rapid.IntRange(0, 2).Draw(t, "reuse") == 0
	c.Onward = rapid.SampledFrom([]string{"", "", "same", "same", "clone"}).Draw(t, "onward")
	return c
}

func classifyC09(c c09Case) ev.Class {
	labels := []string{"mode=" + c.Mode, "transport=" + c.Transport, "proto=" + c.Proto}
	if c.Mode == "rpc" {
		labels = append(labels, "outcome="+c.Outcome)
	}
	if c.Cid == "" {
		labels = append(labels, "generated-cid")
	}
	if c.TimeoutMs != 5000 {
		labels = append(labels, "non-default-timeout")
	}
	if c.TimeoutMs <= 0 {
		labels = append(labels, "zero-or-negative-timeout")
	}
	if len(c.User) > 0 {
		labels = append(labels, "user-headers")
	}
	if len(c.Resp) > 0 {
		labels = append(labels, "response-headers")
	}
	if c.Onward != "" && c.Mode == "rpc" {
		labels = append(labels, "handler-makes-onward-call-with-"+c.Onward+"-context")
	}
	if c.Reuse && c.Calls > 1 {
		labels = append(labels, "fcontext-reused")
	}
	if c.Calls > 1 {
		labels = append(labels, "several-calls-one-connection")
	}
	if c.Burst > 0 {
		labels = append(labels, "concurrent-calls")
	}
	if c.BigUser > 65536 || c.BigResp > 65536 {
		labels = append(labels, "header-block>64KiB")
	}
	nt := (len(c.User) >= 1 && (len(c.Resp) >= 1 || c.Mode == "pubsub")) || c.TimeoutMs != 5000
	return ev.Class{NonTrivial: nt, Key: fmt.Sprintf("%s|%s|%s|%x|%x|%s|%d|%d|%s", c.Mode, c.Transport, c.Proto, canonPairs(c.User), canonPairs(c.Resp), c.Cid, c.TimeoutMs, c.Calls, c.Outcome) + fmt.Sprint(c.Burst, c.BigUser, c.BigResp), Labels: labels}
}

var (
	c09Ops   = map[string]string{}
	c09OpsMu sync.Mutex
)

func noteOp(id, where string) *ev.Failure {
	c09OpsMu.Lock()
	defer c09OpsMu.Unlock()
	if w, dup := c09Ops[id]; dup {
		return ev.Failf("opid-collision", "op id %s seen twice: %s and %s", id, w, where)
	}
	c09Ops[id] = where
	return nil
}

type seenCtx struct {
	req     map[string]string
	cid     string
	timeout time.Duration
}

// userFor returns the user headers of call i: the header set differs from call to call
// (a stale header of an earlier call must not reappear).
func (c c09Case) userFor(i int) []KV {
	out := c.userFor0(i)
	if c.BigUser > 0 {
		out = append(out, kv("big-request-header", strings.Repeat("u", c.BigUser)))
	}
	return out
}

func (c c09Case) userFor0(i int) []KV {
	if c.Reuse {
		// a reused context can only accumulate headers
		out := append([]KV{}, c.User...)
		// (every other call adds nothing new: only its timeout differs from the previous call)
		for j := 1; j <= i; j += 2 {
			out = append(out, kv(fmt.Sprintf("added-in-call-%d", j), fmt.Sprint(j)))
		}
		return out
	}
	var out []KV
	for j, p := range c.User {
		if (j+i)%3 == 2 {
			continue // this call does not send that header
		}
		v := p.V
		if (j+i)%2 == 1 {
			v = append(append([]byte{}, v...), []byte(fmt.Sprintf("#%d", i))...)
		}
		out = append(out, KV{p.K, v})
	}
	return out
}

// timeoutFor: the timeout of call i (sequential calls of one case use different timeouts).
func (c c09Case) timeoutFor(i int) int {
	if i < 0 || c.TimeoutMs <= 0 {
		return c.TimeoutMs
	}
	return c.TimeoutMs + 37*i
}

func (c c09Case) respFor(i int) []KV {
	var out []KV
	for _, p := range c.Resp {
		out = append(out, KV{p.K, append(append([]byte{}, p.V...), []byte(fmt.Sprintf("@%d", i))...)})
	}
	if c.BigResp > 0 {
		out = append(out, kv("big-response-header", strings.Repeat("r", c.BigResp)))
	}
	return out
}

func checkSeen(c c09Case, s seenCtx, callerOp, wantCid string, where string, user []KV) *ev.Failure {
	want := pairsToMap(user)
	for k, v := range want {
		if g, ok := s.req[k]; !ok || g != v {
			return ev.Failf("header-lost", "%s: user header %q = %q,%v on the receiving side, sent %q", where, k, g, ok, v)
		}
	}
	for k := range s.req {
		if _, ok := want[k]; !ok && k != "_opid" && k != "_cid" && k != "_timeout" && !(c.Mode == "pubsub" && len(k) > 7 && k[:7] == "_topic_") {
			return ev.Failf("header-invented", "%s: receiving side sees header %q that was never sent", where, k)
		}
	}
	if s.cid != wantCid {
		return ev.Failf("cid-changed", "%s: correlation id %q on the receiving side, %q on the sending side", where, s.cid, wantCid)
	}
	if s.timeout != time.Duration(c.TimeoutMs)*time.Millisecond {
		return ev.Failf("timeout-changed", "%s: Timeout() = %v on the receiving side, caller set %d ms", where, s.timeout, c.TimeoutMs)
	}
	op, ok := s.req["_opid"]
	if !ok || op == "" {
		return ev.Failf("no-fresh-opid", "%s: the received context has no op id", where)
	}
	if op == callerOp {
		return ev.Failf("opid-not-fresh", "%s: the received context reuses the caller's op id %s", where, op)
	}
	return noteOp(op, where)
}

func execC09(c c09Case) *ev.Failure {
	var f *ev.Failure
	ok, p := within(60*time.Second, func() {
		if c.Mode == "rpc" {
			f = execC09RPC(c)
		} else {
			f = execC09PubSub(c)
		}
	})
	if !ok {
		return ev.Failf("hang:c09", "case did not finish in 60s\n%s", allStacks())
	}
	if p != "" {
		return ev.Failf("panic:c09", "%s", p)
	}
	return f
}

func execC09RPC(c c09Case) *ev.Failure {
	var mu sync.Mutex
	var seen []seenCtx
	var burstOps []string
	var leaf *rpcEnv
	var onwardErr error
	h := &svcHandler{
		echo: func(ctx frugal.FContext, v string) (string, error) {
			if b, ok := ctx.RequestHeader("burst-call"); ok {
				// concurrent phase: answer with this call's own marker, note the received op id
				ctx.AddResponseHeader("burst-reply", b)
				op, _ := ctx.RequestHeader("_opid")
				mu.Lock()
				burstOps = append(burstOps, op)
				mu.Unlock()
				return "burst:" + b, nil
			}
			mu.Lock()
			seen = append(seen, seenCtx{ctx.RequestHeaders(), ctx.CorrelationID(), ctx.Timeout()})
			callNo := len(seen) - 1
			mu.Unlock()
			resp := c.respFor(callNo)
			for _, p := range resp[:len(resp)/2] {
				ctx.AddResponseHeader(string(p.K), string(p.V))
			}
			if c.Onward != "" && leaf != nil {
				octx := ctx
				if c.Onward == "clone" {
					octx = frugal.Clone(ctx)
				}
				if r, err := leaf.client.Echo(octx, "onward"); err != nil || r != "leaf:onward" {
					mu.Lock()
					onwardErr = fmt.Errorf("onward call with the received context: %q, %v", r, err)
					mu.Unlock()
				}
			}
			for _, p := range resp[len(resp)/2:] {
				ctx.AddResponseHeader(string(p.K), string(p.V))
			}
			switch c.Outcome {
			case "toolarge":
				return strings.Repeat("L", 1<<20+1000), nil
			case "declared":
				return "", &oopsError{"declared"}
			case "error":
				return "", fmt.Errorf("undeclared")
			}
			return "echo:" + v, nil
		},
		fire: func(ctx frugal.FContext, v string) error { return nil },
	}
	if c.Onward != "" {
		lh := &svcHandler{
			echo: func(ctx frugal.FContext, v string) (string, error) {
				ctx.AddResponseHeader("leaf-header", "from-leaf")
				return "leaf:" + v, nil
			},
			fire: func(ctx frugal.FContext, v string) error { return nil },
		}
		le, lerr := newRPCEnv("loop", c.Proto, newSvcProcessor(lh), rpcOpts{})
		if lerr != nil {
			return ev.Failf("harness:env", "%v", lerr)
		}
		defer le.close()
		leaf = le
	}
	opts := rpcOpts{}
	if c.Burst > 0 {
		opts.natsWorkers = 4
	}
	env, err := newRPCEnv(c.Transport, c.Proto, newSvcProcessor(h), opts)
	if err != nil {
		return ev.Failf("harness:env", "%v", err)
	}
	defer env.close()
	var shared frugal.FContext
	for i := 0; i < c.Calls; i++ {
		var ctx frugal.FContext
		if c.Reuse && shared != nil {
			ctx = shared
		} else {
			ctx = frugal.NewFContext(c.Cid)
			shared = ctx
		}
		// the timeout differs from call to call; on a reused context it is set before or after the
		// headers of that call are added (both are legal orders of the same API calls)
		callTimeout := c.timeoutFor(i)
		timeoutLast := c.Reuse && i%2 == 1
		if !timeoutLast && (callTimeout != 5000 || i%2 == 1) {
			ctx.SetTimeout(time.Duration(callTimeout) * time.Millisecond)
		}
		user := c.userFor(i)
		for _, p := range user {
			ctx.AddRequestHeader(string(p.K), string(p.V))
		}
		if timeoutLast {
			ctx.SetTimeout(time.Duration(callTimeout) * time.Millisecond)
		}
		callerOp := opidOf(ctx)
		if !(c.Reuse && i > 0) {
			if f := noteOp(callerOp, fmt.Sprintf("caller NewFContext (call %d)", i)); f != nil {
				return f
			}
		}
		wantCid := ctx.CorrelationID()
		if c.Cid != "" && wantCid != c.Cid {
			return ev.Failf("cid-changed", "NewFContext(%q).CorrelationID() = %q", c.Cid, wantCid)
		}
		r, cerr := env.client.Echo(ctx, "x")
		where := fmt.Sprintf("rpc %s/%s call %d", c.Transport, c.Proto, i)
		switch c.Outcome {
		case "ok":
			if cerr != nil || r != "echo:x" {
				return ev.Failf("call-failed", "%s: %q, %v", where, r, cerr)
			}
		case "declared":
			if _, ok := cerr.(*oopsError); !ok {
				return ev.Failf("call-failed", "%s: want declared exception, got %T %v", where, cerr, cerr)
			}
		case "error":
			if ae, ok := cerr.(thrift.TApplicationException); !ok || ae.TypeId() != frugal.APPLICATION_EXCEPTION_INTERNAL_ERROR {
				return ev.Failf("call-failed", "%s: want INTERNAL_ERROR, got %T %v", where, cerr, cerr)
			}
		case "toolarge":
			if !isTooLarge(cerr, frugal.TRANSPORT_EXCEPTION_RESPONSE_TOO_LARGE) {
				return ev.Failf("call-failed", "%s: want RESPONSE_TOO_LARGE, got %T %v", where, cerr, cerr)
			}
		}
		mu.Lock()
		n := len(seen)
		var s seenCtx
		if n > 0 {
			s = seen[n-1]
		}
		mu.Unlock()
		mu.Lock()
		oe := onwardErr
		mu.Unlock()
		if oe != nil {
			return ev.Failf("onward-call-failed", "%s: %v", where, oe)
		}
		if n != i+1 {
			return ev.Failf("handler-count", "%s: handler ran %d times after %d calls", where, n, i+1)
		}
		cc := c
		cc.TimeoutMs = callTimeout
		if f := checkSeen(cc, s, callerOp, wantCid, where, user); f != nil {
			return f
		}
		// caller side
		if opidOf(ctx) != callerOp {
			return ev.Failf("caller-opid-changed", "%s: the caller's request op id changed from %s to %s", where, callerOp, opidOf(ctx))
		}
		rh := ctx.ResponseHeaders()
		for _, p := range c.respFor(i) {
			if g, ok := rh[string(p.K)]; !ok || g != string(p.V) {
				return ev.Failf("response-header-lost", "%s: response header %q = %q,%v on the caller when the call returned, the handler set %q for this call (FContext reused: %v)", where, p.K, g, ok, p.V, c.Reuse && i > 0)
			}
		}
		// the reply frame as captured at the transport
		reply := env.tee.lastReply()
		pairs, _, derr := refDecodeHeaders(reply)
		if derr != nil {
			return ev.Failf("reply-frame", "%s: reply frame headers undecodable: %v", where, derr)
		}
		m := pairsToMap(pairs)
		if m["_opid"] != callerOp {
			return ev.Failf("reply-opid", "%s: reply carries op id %q, request had %s", where, m["_opid"], callerOp)
		}
		if m["_cid"] != wantCid {
			return ev.Failf("reply-cid", "%s: reply carries correlation id %q, request had %q", where, m["_cid"], wantCid)
		}
	}
	if c.Burst > 0 {
		return c09Burst(c, env, &mu, &burstOps)
	}
	return nil
}

// c09Burst: Burst calls at once, each with its own FContext; then request headers are decoded
// by several goroutines at once, the way concurrent server workers do. Every caller gets the
// response headers of its own call and every received context has an op id of its own.
func c09Burst(c c09Case, env *rpcEnv, mu *sync.Mutex, burstOps *[]string) *ev.Failure {
	where := fmt.Sprintf("rpc %s/%s, %d concurrent calls", c.Transport, c.Proto, c.Burst)
	fails := make([]*ev.Failure, c.Burst)
	var wg sync.WaitGroup
	start := make(chan struct{})
	for k := 0; k < c.Burst; k++ {
		wg.Add(1)
		go func(k int) {
			defer wg.Done()
			ctx := frugal.NewFContext("").SetTimeout(20 * time.Second)
			ctx.AddRequestHeader("burst-call", fmt.Sprint(k))
			<-start
			r, err := env.client.Echo(ctx, "b")
			if err != nil || r != "burst:"+fmt.Sprint(k) {
				fails[k] = ev.Failf("call-failed:concurrent", "%s: call %d returned %q, %v", where, k, r, err)
				return
			}
			if g, _ := ctx.ResponseHeader("burst-reply"); g != fmt.Sprint(k) {
				fails[k] = ev.Failf("response-header-lost:concurrent", "%s: call %d sees response header burst-reply=%q, its handler set %q", where, k, g, fmt.Sprint(k))
			}
		}(k)
	}
	close(start)
	wg.Wait()
	for _, f := range fails {
		if f != nil {
			return f
		}
	}
	mu.Lock()
	ops := append([]string{}, *burstOps...)
	mu.Unlock()
	if len(ops) != c.Burst {
		return ev.Failf("handler-count", "%s: handler ran %d times", where, len(ops))
	}
	for _, op := range ops {
		if f := noteOp(op, where+" (received context)"); f != nil {
			return f
		}
	}
	// the server-side decoding step on its own, under contention
	frame := refFrame(frameContent([]KV{kv("_opid", "9223372036854775812"), kv("_cid", "c")}, thriftMessage(c.Proto, "echo", thrift.CALL, &strStruct{Name: "echo_args", ID: 1, V: sp("x")})))
	const workers, rounds = 8, 3000
	got := make([][]string, workers)
	var derr atomic.Value
	start2 := make(chan struct{})
	for w := 0; w < workers; w++ {
		wg.Add(1)
		go func(w int) {
			defer wg.Done()
			pf := fpf(c.Proto)
			<-start2
			for i := 0; i < rounds; i++ {
				ctx, err := pf.GetProtocol(&thrift.TMemoryBuffer{Buffer: bytes.NewBuffer(frame[4:])}).ReadRequestHeader()
				if err != nil {
					derr.Store(err)
					return
				}
				op, _ := ctx.RequestHeader("_opid")
				got[w] = append(got[w], op)
			}
		}(w)
	}
	close(start2)
	wg.Wait()
	if e := derr.Load(); e != nil {
		return ev.Failf("harness:decode", "%v", e)
	}
	seenOp := map[string]bool{}
	for _, l := range got {
		for _, op := range l {
			if seenOp[op] || op == "9223372036854775812" {
				return ev.Failf("opid-collision", "%s: %d goroutines decoding request headers concurrently produced contexts sharing op id %s", where, workers, op)
			}
			seenOp[op] = true
		}
	}
	return nil
}

func execC09PubSub(c c09Case) *ev.Failure {
	pf := fpf(c.Proto)
	topic := fmt.Sprintf("c09.topic.%d", uniq64())
	got := make(chan seenCtx, 16)
	sync1 := make(chan string, 64)
	cb := subscriberCallback("Evt", pf, func(ctx frugal.FContext, v string) error {
		if v == "__sync__" {
			sync1 <- v
			return nil
		}
		got <- seenCtx{ctx.RequestHeaders(), ctx.CorrelationID(), ctx.Timeout()}
		return nil
	})
	var pubF frugal.FPublisherTransportFactory
	var sub frugal.FSubscriberTransport
	switch c.Transport {
	case "nats":
		sc, err := natsConnect()
		if err != nil {
			return ev.Failf("harness:nats", "%v", err)
		}
		defer sc.Close()
		pc, _ := natsConnect()
		defer pc.Close()
		pubF = frugal.NewFNatsPublisherTransportFactory(pc)
		sub = frugal.NewFNatsSubscriberTransportFactory(sc).GetTransport()
	case "stomp":
		sc, err := stompConnect()
		if err != nil {
			return ev.Failf("harness:stomp", "%v", err)
		}
		defer sc.MustDisconnect()
		pc, err := stompConnect()
		if err != nil {
			return ev.Failf("harness:stomp", "%v", err)
		}
		defer pc.MustDisconnect()
		pubF = frugal.NewFStompPublisherTransportFactoryBuilder(pc).Build()
		sub = frugal.NewFStompSubscriberTransportFactoryBuilder(sc).Build().GetTransport()
	}
	if err := sub.Subscribe(topic, cb); err != nil {
		return ev.Failf("harness:subscribe", "%v", err)
	}
	if c.Transport == "nats" {
		defer sub.Unsubscribe()
	}
	cl := frugal.NewFScopeClient(frugal.NewFScopeProvider(pubF, nil, pf))
	if err := cl.Open(); err != nil {
		return ev.Failf("harness:open", "%v", err)
	}
	if c.Transport == "stomp" {
		ok := false
		for i := 0; i < 1000 && !ok; i++ {
			cl.Publish(frugal.NewFContext(""), "Evt", topic, &strStruct{Name: "Evt", ID: 1, V: sp("__sync__")})
			select {
			case <-sync1:
				ok = true
			case <-time.After(3 * time.Millisecond):
			}
		}
		if !ok {
			return ev.Failf("harness:stomp-sync", "subscription never became active")
		}
	}
	for i := 0; i < c.Calls; i++ {
		ctx := frugal.NewFContext(c.Cid)
		if c.TimeoutMs != 5000 {
			ctx.SetTimeout(time.Duration(c.TimeoutMs) * time.Millisecond)
		}
		for _, p := range c.User {
			ctx.AddRequestHeader(string(p.K), string(p.V))
		}
		callerOp := opidOf(ctx)
		if f := noteOp(callerOp, "publisher NewFContext"); f != nil {
			return f
		}
		if err := cl.Publish(ctx, "Evt", topic, &strStruct{Name: "Evt", ID: 1, V: sp("v" + strconv.Itoa(i))}); err != nil {
			return ev.Failf("publish-failed", "%v", err)
		}
		select {
		case s := <-got:
			if f := checkSeen(c, s, callerOp, ctx.CorrelationID(), fmt.Sprintf("pubsub %s/%s message %d", c.Transport, c.Proto, i), c.User); f != nil {
				return f
			}
		case <-time.After(5 * time.Second):
			return ev.Failf("message-lost", "pubsub %s: message %d never delivered", c.Transport, i)
		}
	}
	return nil
}

var c09Prop = ev.Prop("c09.context", genC09, execC09, classifyC09, func(c c09Case) interface{} {
	return map[string]interface{}{"mode": c.Mode, "transport": c.Transport, "proto": c.Proto, "user_headers": len(c.User), "response_headers": len(c.Resp),
		"cid": c.Cid, "timeout_ms": c.TimeoutMs, "calls": c.Calls, "outcome": c.Outcome}
})

func TestC09Context(t *testing.T) { rapid.Check(t, c09Prop) }
