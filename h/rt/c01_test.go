package rt

import (
	"testing"

	"pgregory.net/rapid"
	"verif/ev"
)

// C01 — under multiplexing every RPC gets exactly its own response.
var c01Prop = ev.Prop("c01.mux", genMux(2, "correlation"), execMux, classifyMux, sampleMux)

func TestC01Mux(t *testing.T) { rapid.Check(t, c01Prop) }

// C06 — the inbound path never stalls (duplicates x1..5, unsolicited, late).
var c06Prop = ev.Prop("c06.stall", genMux(5, "stall"), execMux, classifyMux, sampleMux)

func TestC06Stall(t *testing.T) { rapid.Check(t, c06Prop) }
