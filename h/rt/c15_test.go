package rt

// C15 — transport failure is detected, reported once and recoverable, repeatedly.

import (
	"fmt"
	"strings"
	"sync"
	"testing"
	"time"

	frugal "github.com/Workiva/frugal/lib/go"
	"github.com/apache/thrift/lib/go/thrift"
	"pgregory.net/rapid"
	"verif/ev"
)

// ---- recording monitor

type monEvent struct {
	Kind     string
	Cause    string
	Attempts uint
	Reopen   bool
	Wait     time.Duration
}

type recMonitor struct {
	base   *frugal.BaseFTransportMonitor
	mu     sync.Mutex
	events []monEvent
	// reopenedDelay makes OnReopenSucceeded slow (an application doing work in its callback)
	reopenedDelay time.Duration
}

func (m *recMonitor) add(e monEvent) {
	m.mu.Lock()
	m.events = append(m.events, e)
	m.mu.Unlock()
}

func (m *recMonitor) OnClosedCleanly() { m.base.OnClosedCleanly(); m.add(monEvent{Kind: "cleanly"}) }
func (m *recMonitor) OnClosedUncleanly(cause error) (bool, time.Duration) {
	r, w := m.base.OnClosedUncleanly(cause)
	m.add(monEvent{Kind: "uncleanly", Cause: fmt.Sprint(cause), Reopen: r, Wait: w})
	return r, w
}
func (m *recMonitor) OnReopenFailed(prev uint, prevWait time.Duration) (bool, time.Duration) {
	r, w := m.base.OnReopenFailed(prev, prevWait)
	m.add(monEvent{Kind: "reopenFailed", Attempts: prev, Reopen: r, Wait: w})
	return r, w
}
func (m *recMonitor) OnReopenSucceeded() {
	m.base.OnReopenSucceeded()
	m.add(monEvent{Kind: "reopenSucceeded"})
	if m.reopenedDelay > 0 {
		time.Sleep(m.reopenedDelay)
	}
}

func (m *recMonitor) snapshot() []monEvent {
	m.mu.Lock()
	defer m.mu.Unlock()
	return append([]monEvent{}, m.events...)
}

// terminal reports whether the event list ends in a state where the monitor is idle.
func monTerminal(evs []monEvent) bool {
	if len(evs) == 0 {
		return false
	}
	e := evs[len(evs)-1]
	switch e.Kind {
	case "cleanly", "reopenSucceeded":
		return true
	case "uncleanly", "reopenFailed":
		return !e.Reopen
	}
	return false
}

// ---- history case

type c15Step struct {
	Op    string `json:"op"`              // open close isopen request fail failopens closerace sleep
	Kind  string `json:"kind,omitempty"`  // fail: eof | ioerr | garbage | writefail
	Where string `json:"where,omitempty"` // fail: between | inside
	N     int    `json:"n,omitempty"`
}

type c15Case struct {
	Monitor     bool `json:"monitor"`
	MaxAttempts uint `json:"max_attempts"`
	InitialMs   int  `json:"initial_ms"`
	MaxMs       int  `json:"max_ms"`
	// StaleEOF: a Read that was blocked when its session was closed locally returns EOF, and
	// only once the transport has been opened again (or 30 ms later)
	StaleEOF     bool `json:"stale_eof,omitempty"`
	StaleEOFLong bool `json:"stale_eof_long,omitempty"`
	// ReopenedDelayMs: the monitor's OnReopenSucceeded callback takes that long
	ReopenedDelayMs int       `json:"reopened_delay_ms,omitempty"`
	Steps           []c15Step `json:"steps"`
}

type c15Session struct {
	c             c15Case
	st            *scriptT
	tr            frugal.FTransport
	mon           *recMonitor
	open          bool // model
	monitorActive bool // model
	closed        <-chan error
	trace         []string
	evSeen        int
}

func (s *c15Session) logf(f string, a ...interface{}) {
	s.trace = append(s.trace, fmt.Sprintf(f, a...))
}
func (s *c15Session) tr8() string { return strings.Join(s.trace, "\n") }

// call runs f under the deadlock watchdog.
func (s *c15Session) call(name string, f func()) *ev.Failure {
	ok, p := within(5*time.Second, f)
	if !ok {
		return ev.Failf("deadlock:"+name, "%s did not return within 5s\nhistory:\n%s\n\n%s", name, s.tr8(), allStacks())
	}
	if p != "" {
		return ev.Failf("panic:"+name, "%s\nhistory:\n%s", p, s.tr8())
	}
	return nil
}

func typeID(err error) int {
	if te, ok := err.(thrift.TTransportException); ok {
		return te.TypeId()
	}
	return -1
}

func (s *c15Session) refreshClosed() *ev.Failure {
	return s.call("Closed", func() { s.closed = s.tr.Closed() })
}

// expectClosePublished checks "exactly one cause, then closed".
func (s *c15Session) expectClosePublished(ch <-chan error, wantNil, wantNonNil bool, what string) *ev.Failure {
	if ch == nil {
		return ev.Failf("closed-chan-nil", "Closed() returned nil while open\nhistory:\n%s", s.tr8())
	}
	select {
	case cause, ok := <-ch:
		if !ok {
			return ev.Failf("close-cause-missing", "%s: Closed() channel was closed without publishing a cause\nhistory:\n%s", what, s.tr8())
		}
		if wantNil && cause != nil {
			return ev.Failf("close-cause-unexpected", "%s: clean close published cause %v\nhistory:\n%s", what, cause, s.tr8())
		}
		if wantNonNil && cause == nil {
			return ev.Failf("close-cause-nil", "%s: failure published a nil cause\nhistory:\n%s", what, s.tr8())
		}
	case <-time.After(3 * time.Second):
		return ev.Failf("close-not-detected", "%s: no close cause published within 3s — the failure went undetected\nhistory:\n%s", what, s.tr8())
	}
	select {
	case v, ok := <-ch:
		if ok {
			return ev.Failf("close-cause-twice", "%s: a second value %v was published on Closed()\nhistory:\n%s", what, v, s.tr8())
		}
	case <-time.After(2 * time.Second):
		return ev.Failf("close-chan-not-closed", "%s: Closed() channel not closed after the cause\nhistory:\n%s", what, s.tr8())
	}
	return nil
}

// awaitMonitor waits for the monitor to become idle after a notification and
// returns the new events.
func (s *c15Session) awaitMonitor(what string) ([]monEvent, *ev.Failure) {
	deadline := time.Now().Add(4 * time.Second)
	for {
		evs := s.mon.snapshot()
		if len(evs) > s.evSeen && monTerminal(evs) {
			// settle: make sure nothing else trickles in
			time.Sleep(time.Duration(s.c.MaxMs+2) * time.Millisecond)
			evs = s.mon.snapshot()
			if monTerminal(evs) {
				n := evs[s.evSeen:]
				s.evSeen = len(evs)
				return n, nil
			}
		}
		if time.Now().After(deadline) {
			return nil, ev.Failf("monitor-not-notified", "%s: the monitor was not notified / did not settle within 4s (events so far: %+v)\nhistory:\n%s", what, evs[s.evSeen:], s.tr8())
		}
		time.Sleep(300 * time.Microsecond)
	}
}

func (s *c15Session) request() *ev.Failure {
	// generous: the oracle is about the outcome, not latency (16 shards x 16 threads on a busy machine)
	ctx := frugal.NewFContext("").SetTimeout(4 * time.Second)
	id := opidOf(ctx)
	s.st.onFlush = func([]byte) {
		s.st.feed(refFrame(frameContent([]KV{kv("_opid", id)}, []byte("pong-"+id))))
	}
	var err error
	var got []byte
	if f := s.call("Request", func() {
		var r thrift.TTransport
		r, err = s.tr.Request(ctx, refFrame(frameContent([]KV{kv("_opid", id)}, []byte("ping"))))
		if err == nil && r != nil {
			b := make([]byte, 256)
			n, _ := r.Read(b)
			got = b[:n]
		}
	}); f != nil {
		return f
	}
	s.st.onFlush = nil
	s.logf("request -> %v", err)
	if s.open {
		if err != nil {
			return ev.Failf("request-on-open-failed", "Request on a transport that should be open failed: %v\nhistory:\n%s", err, s.tr8())
		}
		if !strings.HasSuffix(string(got), "pong-"+id) {
			return ev.Failf("request-wrong-frame", "Request returned %q\nhistory:\n%s", got, s.tr8())
		}
	} else if err == nil {
		return ev.Failf("request-on-closed-succeeded", "Request on a closed transport succeeded\nhistory:\n%s", s.tr8())
	}
	return nil
}

func execC15(c c15Case) *ev.Failure {
	var f *ev.Failure
	ok, p := within(90*time.Second, func() { f = execC15Inner(c) })
	if !ok {
		return ev.Failf("hang:c15", "history did not finish in 90s\n%s", allStacks())
	}
	if p != "" {
		return ev.Failf("panic:c15", "%s", p)
	}
	return f
}

func execC15Inner(c c15Case) *ev.Failure {
	s := &c15Session{c: c, st: newScriptT()}
	s.st.staleEOF = c.StaleEOF
	s.st.staleEOFWait = 30 * time.Millisecond
	if c.StaleEOFLong {
		// longer than Close is prepared to wait for the read loop
		s.st.staleEOFWait = 400 * time.Millisecond
	}
	s.tr = frugal.NewAdapterTransport(s.st)
	if c.Monitor {
		s.mon = &recMonitor{base: &frugal.BaseFTransportMonitor{MaxReopenAttempts: c.MaxAttempts,
			InitialWait: time.Duration(c.InitialMs) * time.Millisecond, MaxWait: time.Duration(c.MaxMs) * time.Millisecond},
			reopenedDelay: time.Duration(c.ReopenedDelayMs) * time.Millisecond}
		s.tr.SetMonitor(s.mon)
		s.monitorActive = true
	}
	defer func() {
		// leave nothing running
		go func() { s.tr.Close() }()
		s.st.cut(eofErr())
	}()

	for _, st := range c.Steps {
		switch st.Op {
		case "failopens":
			s.st.mu.Lock()
			s.st.failOpen = st.N
			s.st.mu.Unlock()
			s.logf("failNextOpens(%d)", st.N)
		case "sleep":
			time.Sleep(time.Duration(st.N) * time.Millisecond)
		case "open":
			var err error
			if f := s.call("Open", func() { err = s.tr.Open() }); f != nil {
				return f
			}
			s.logf("Open -> %v", err)
			s.st.mu.Lock()
			fo := s.st.failOpen
			s.st.mu.Unlock()
			_ = fo
			if s.open {
				if typeID(err) != frugal.TRANSPORT_EXCEPTION_ALREADY_OPEN {
					return ev.Failf("open-while-open", "Open on an open transport returned %v, want ALREADY_OPEN\nhistory:\n%s", err, s.tr8())
				}
			} else if err == nil {
				s.open = true
				if f := s.refreshClosed(); f != nil {
					return f
				}
			} else if typeID(err) == frugal.TRANSPORT_EXCEPTION_ALREADY_OPEN {
				return ev.Failf("open-while-closed", "Open on a closed transport returned ALREADY_OPEN\nhistory:\n%s", s.tr8())
			}
		case "open2":
			// two overlapping Open calls while the underlying connect is slow (a manual reopen racing
			// the monitor's): exactly one may open the transport, the other must see ALREADY_OPEN
			s.st.mu.Lock()
			fo := s.st.failOpen
			if fo == 0 {
				s.st.openDelay, s.st.lenientOpen = time.Duration(5+st.N%20)*time.Millisecond, true
			}
			s.st.mu.Unlock()
			if fo > 0 {
				continue
			}
			errs := make([]error, 2)
			var wg sync.WaitGroup
			if f := s.call("Open x2", func() {
				for i := range errs {
					wg.Add(1)
					go func(i int) { defer wg.Done(); errs[i] = s.tr.Open() }(i)
				}
				wg.Wait()
			}); f != nil {
				return f
			}
			s.st.mu.Lock()
			s.st.openDelay, s.st.lenientOpen = 0, false
			s.st.mu.Unlock()
			s.logf("Open x2 -> %v, %v", errs[0], errs[1])
			oks, already := 0, 0
			for _, e := range errs {
				if e == nil {
					oks++
				} else if typeID(e) == frugal.TRANSPORT_EXCEPTION_ALREADY_OPEN {
					already++
				}
			}
			wantOK := 1
			if s.open {
				wantOK = 0
			}
			if oks != wantOK || already != 2-wantOK {
				return ev.Failf("concurrent-open", "two overlapping Open calls on %s transport: %d succeeded, %d reported ALREADY_OPEN (%v, %v)\nhistory:\n%s",
					map[bool]string{true: "an open", false: "a closed"}[s.open], oks, already, errs[0], errs[1], s.tr8())
			}
			if !s.open {
				s.open = true
				if f := s.refreshClosed(); f != nil {
					return f
				}
			}
		case "isopen":
			var v bool
			if f := s.call("IsOpen", func() { v = s.tr.IsOpen() }); f != nil {
				return f
			}
			if v != s.open {
				return ev.Failf("isopen-inconsistent", "IsOpen() = %v, model says %v\nhistory:\n%s", v, s.open, s.tr8())
			}
		case "request":
			if f := s.request(); f != nil {
				return f
			}
		case "close":
			var err error
			ch := s.closed
			if f := s.call("Close", func() { err = s.tr.Close() }); f != nil {
				return f
			}
			s.logf("Close -> %v", err)
			if !s.open {
				if typeID(err) != frugal.TRANSPORT_EXCEPTION_NOT_OPEN {
					return ev.Failf("close-while-closed", "Close on a closed transport returned %v, want NOT_OPEN\nhistory:\n%s", err, s.tr8())
				}
				continue
			}
			if err != nil {
				return ev.Failf("close-failed", "Close on an open transport failed: %v\nhistory:\n%s", err, s.tr8())
			}
			s.open = false
			if f := s.expectClosePublished(ch, true, false, "Close()"); f != nil {
				return f
			}
			if s.monitorActive {
				evs, f := s.awaitMonitor("Close()")
				if f != nil {
					return f
				}
				if len(evs) != 1 || evs[0].Kind != "cleanly" {
					return ev.Failf("monitor-trace", "Close(): monitor events %+v, want [cleanly]\nhistory:\n%s", evs, s.tr8())
				}
				s.monitorActive = false
			}
		case "fail":
			if !s.open {
				continue
			}
			if f := s.fail(st); f != nil {
				return f
			}
		}
	}
	// wind-down: the transport must still be usable / closable
	if !s.open {
		s.st.mu.Lock()
		s.st.failOpen = 0
		s.st.mu.Unlock()
		var err error
		if f := s.call("Open", func() { err = s.tr.Open() }); f != nil {
			return f
		}
		if err != nil {
			return ev.Failf("final-open-failed", "final Open failed: %v\nhistory:\n%s", err, s.tr8())
		}
		s.open = true
		s.logf("final Open")
	}
	if f := s.request(); f != nil {
		return f
	}
	var err error
	if f := s.call("Close", func() { err = s.tr.Close() }); f != nil {
		return f
	}
	if err != nil {
		return ev.Failf("final-close-failed", "final Close failed: %v\nhistory:\n%s", err, s.tr8())
	}
	var v bool
	if f := s.call("IsOpen", func() { v = s.tr.IsOpen() }); f != nil {
		return f
	}
	if v {
		return ev.Failf("isopen-inconsistent", "IsOpen() true after final Close\nhistory:\n%s", s.tr8())
	}
	return nil
}

func (s *c15Session) fail(st c15Step) *ev.Failure {
	ch := s.closed
	what := fmt.Sprintf("fail(%s,%s)", st.Kind, st.Where)
	s.logf("%s", what)
	opensBefore := func() int { s.st.mu.Lock(); defer s.st.mu.Unlock(); return s.st.opens }()
	frame := refFrame(frameContent([]KV{kv("_opid", "4611686018427387904")}, []byte("unsolicited")))
	switch st.Kind {
	case "eof", "ioerr":
		if st.Where == "inside" {
			s.st.feed(frame[:3+st.N%(len(frame)-3)])
		} else if st.N%2 == 1 {
			s.st.feed(frame) // a complete (unsolicited) frame first, then the cut
		}
		if st.Kind == "eof" {
			s.st.cut(eofErr())
		} else {
			s.st.cut(errIO)
		}
	case "garbage":
		bad := refFrame([]byte{1, 0, 0, 0, 0}) // unsupported version: unrecoverable frame
		if st.N%2 == 1 {
			bad = refFrame([]byte{})
		}
		s.st.feed(bad)
	case "writefail":
		// a broken connection fails the write and the read side alike
		s.st.mu.Lock()
		s.st.writeErr = errIO
		s.st.mu.Unlock()
		ctx := frugal.NewFContext("").SetTimeout(500 * time.Millisecond)
		var err error
		if f := s.call("Request", func() { _, err = s.tr.Request(ctx, refFrame([]byte("x"))) }); f != nil {
			return f
		}
		if err == nil {
			return ev.Failf("write-error-swallowed", "Request succeeded although the write failed\nhistory:\n%s", s.tr8())
		}
		s.st.cut(errIO)
	}
	wantNil := st.Kind == "eof"
	if f := s.expectClosePublished(ch, false, !wantNil, what); f != nil {
		return f
	}
	s.open = false
	if !s.monitorActive {
		var v bool
		if f := s.call("IsOpen", func() { v = s.tr.IsOpen() }); f != nil {
			return f
		}
		if v {
			return ev.Failf("isopen-inconsistent", "%s: IsOpen() true after the failure\nhistory:\n%s", what, s.tr8())
		}
		return nil
	}
	evs, f := s.awaitMonitor(what)
	if f != nil {
		return f
	}
	s.logf("monitor: %+v", evs)
	if wantNil {
		// peer disconnect is a clean close by the project's definition
		if len(evs) != 1 || evs[0].Kind != "cleanly" {
			return ev.Failf("monitor-trace", "%s: monitor events %+v, want [cleanly]\nhistory:\n%s", what, evs, s.tr8())
		}
		s.monitorActive = false
		return nil
	}
	if len(evs) == 0 || evs[0].Kind != "uncleanly" || evs[0].Cause == "<nil>" {
		return ev.Failf("monitor-trace", "%s: monitor events %+v, want uncleanly(cause) first\nhistory:\n%s", what, evs, s.tr8())
	}
	maxWait := time.Duration(s.c.MaxMs) * time.Millisecond
	attempts := func() int { s.st.mu.Lock(); defer s.st.mu.Unlock(); return s.st.opens }() - opensBefore
	if uint(attempts) > s.c.MaxAttempts {
		return ev.Failf("monitor-attempts", "%s: %d reopen attempts, configured maximum %d\nhistory:\n%s", what, attempts, s.c.MaxAttempts, s.tr8())
	}
	for _, e := range evs {
		if e.Reopen && e.Wait > maxWait && e.Kind == "reopenFailed" {
			return ev.Failf("monitor-wait", "%s: wait %v above MaxWait %v\nhistory:\n%s", what, e.Wait, maxWait, s.tr8())
		}
	}
	last := evs[len(evs)-1]
	switch {
	case s.c.MaxAttempts == 0:
		if len(evs) != 1 {
			return ev.Failf("monitor-trace", "%s: monitor events %+v, want only uncleanly with MaxReopenAttempts=0\nhistory:\n%s", what, evs, s.tr8())
		}
		s.monitorActive = false
	case last.Kind == "reopenSucceeded":
		s.open = true
		if attempts < 1 {
			return ev.Failf("monitor-trace", "%s: reopenSucceeded without an Open attempt\nhistory:\n%s", what, s.tr8())
		}
		if f := s.refreshClosed(); f != nil {
			return f
		}
	default: // gave up
		if uint(attempts) != s.c.MaxAttempts {
			return ev.Failf("monitor-attempts", "%s: monitor gave up after %d attempts, policy allows %d\nhistory:\n%s", what, attempts, s.c.MaxAttempts, s.tr8())
		}
		s.monitorActive = false
	}
	var v bool
	if f := s.call("IsOpen", func() { v = s.tr.IsOpen() }); f != nil {
		return f
	}
	if v != s.open {
		return ev.Failf("isopen-inconsistent", "%s: IsOpen() = %v after the monitor settled, model says %v\nhistory:\n%s", what, v, s.open, s.tr8())
	}
	return nil
}

// ---- generator

func genC15(t *rapid.T) c15Case {
	c := c15Case{}
	c.Monitor = rapid.IntRange(0, 4).Draw(t, "monitor") > 0
	c.MaxAttempts = uint(rapid.IntRange(0, 4).Draw(t, "max"))
	c.InitialMs = rapid.IntRange(1, 3).Draw(t, "initial")
	c.MaxMs = rapid.IntRange(c.InitialMs, 6).Draw(t, "maxwait")
	c.StaleEOF = rapid.IntRange(0, 2).Draw(t, "staleeof") == 0
	c.StaleEOFLong = c.StaleEOF && rapid.IntRange(0, 3).Draw(t, "staleeof.long") == 0
	if c.Monitor && rapid.IntRange(0, 2).Draw(t, "slowcallback") == 0 {
		c.ReopenedDelayMs = rapid.IntRange(5, 30).Draw(t, "callbackms")
	}
	c.Steps = append(c.Steps, c15Step{Op: rapid.SampledFrom([]string{"open", "open", "open", "open2"}).Draw(t, "first"), N: 7})
	n := rapid.IntRange(1, 22).Draw(t, "n")
	for i := 0; i < n; i++ {
		op := rapid.SampledFrom([]string{"open", "open", "open2", "close", "isopen", "request", "fail", "fail", "fail", "failopens", "sleep"}).Draw(t, "op")
		st := c15Step{Op: op}
		switch op {
		case "open2":
			st.N = rapid.IntRange(0, 19).Draw(t, "connectms")
		case "fail":
			st.Kind = rapid.SampledFrom([]string{"eof", "ioerr", "ioerr", "garbage", "writefail"}).Draw(t, "kind")
			st.Where = rapid.SampledFrom([]string{"between", "inside"}).Draw(t, "where")
			st.N = rapid.IntRange(0, 40).Draw(t, "n")
		case "failopens":
			st.N = rapid.IntRange(0, 5).Draw(t, "n")
		case "sleep":
			st.N = rapid.IntRange(0, 3).Draw(t, "ms")
		}
		c.Steps = append(c.Steps, st)
	}
	return c
}

func classifyC15(c c15Case) ev.Class {
	fails, closes, opens := 0, 0, 0
	labels := []string{fmt.Sprintf("max=%d", c.MaxAttempts)}
	if c.Monitor {
		labels = append(labels, "monitor")
	}
	if c.StaleEOF {
		labels = append(labels, "stale-eof-after-local-close")
	}
	if c.StaleEOFLong {
		labels = append(labels, "stale-eof-later-than-close-waits")
	}
	if c.ReopenedDelayMs > 0 {
		labels = append(labels, "slow-reopen-callback")
	}
	afterFail := false
	for _, st := range c.Steps {
		switch st.Op {
		case "open2":
			opens++
			labels = append(labels, "overlapping-opens")
		case "fail":
			fails++
			labels = append(labels, "fail="+st.Kind)
			if afterFail {
				labels = append(labels, "failure-after-failure")
			}
			afterFail = true
		case "close":
			closes++
			if afterFail {
				labels = append(labels, "close-after-failure")
			}
		case "open":
			opens++
		case "failopens":
			if st.N > 0 {
				labels = append(labels, "reopen-fails")
			}
		}
	}
	nt := fails >= 2 || (fails >= 1 && closes >= 1)
	return ev.Class{NonTrivial: nt, Key: fmt.Sprintf("%+v", c), Labels: uniq(labels)}
}

func sampleC15(c c15Case) interface{} {
	var steps []string
	for _, st := range c.Steps {
		switch st.Op {
		case "fail":
			steps = append(steps, fmt.Sprintf("fail(%s,%s)", st.Kind, st.Where))
		case "failopens":
			steps = append(steps, fmt.Sprintf("failNextOpens(%d)", st.N))
		default:
			steps = append(steps, st.Op)
		}
	}
	return map[string]interface{}{"monitor": c.Monitor, "max_attempts": c.MaxAttempts, "initial_ms": c.InitialMs, "max_ms": c.MaxMs, "history": strings.Join(steps, " ")}
}

var c15HistProp = ev.Prop("c15.history", genC15, execC15, classifyC15, sampleC15)

func TestC15History(t *testing.T) { rapid.Check(t, c15HistProp) }
