package rt

// C05, end-to-end leg: real goroutines, real brokers. After the hostile bytes a
// well-formed message is delivered; message-oriented receivers must still
// serve it, stream receivers may close that one connection but must report it.

import (
	"bytes"
	"encoding/base64"
	"fmt"
	"io"
	"net"
	"net/http"
	"net/http/httptest"
	"sync/atomic"
	"testing"
	"time"

	frugal "github.com/Workiva/frugal/lib/go"
	"github.com/apache/thrift/lib/go/thrift"
	"github.com/nats-io/nats.go"
	"pgregory.net/rapid"
	"verif/ev"
)

var c05E2EEntries = []string{"adapter.stream", "simple.stream", "nats.client", "nats.server", "nats.sub", "stomp.sub", "http", "http.client", "adapter.sessions"}

// waitFor polls cond up to d.
func waitFor(d time.Duration, cond func() bool) bool {
	deadline := time.Now().Add(d)
	for {
		if cond() {
			return true
		}
		if time.Now().After(deadline) {
			return false
		}
		time.Sleep(200 * time.Microsecond)
	}
}

func opidOf(ctx frugal.FContext) string {
	v, _ := ctx.RequestHeader("_opid")
	return v
}

// validReply builds a framed REPLY for echo with the given op id.
func validReply(proto, opid, val string) []byte {
	return refFrame(frameContent([]KV{kv("_opid", opid), kv("_cid", "c")}, thriftMessage(proto, "echo", thrift.REPLY, &echoResult{Success: &val})))
}

func execC05E2E(c c05Case) *ev.Failure {
	var f *ev.Failure
	returned, p := within(30*time.Second, func() { f = execC05E2EInner(c) })
	if !returned {
		return ev.Failf("hang:e2e:"+c.Entry, "end-to-end case for %s did not finish within 30s (%s)\n%s", c.Entry, c.Desc, allStacks())
	}
	if p != "" {
		return ev.Failf("panic:e2e:"+c.Entry, "%s", p)
	}
	return f
}

func execC05E2EInner(c c05Case) *ev.Failure {
	pf := fpf(c.Proto)
	data := append([]byte{}, c.Data...)
	switch c.Entry {
	case "adapter.stream":
		st := newScriptT()
		tr := frugal.NewAdapterTransport(st)
		if err := tr.Open(); err != nil {
			return ev.Failf("harness:open", "%v", err)
		}
		closed := tr.Closed()
		// one request in flight for op id 7's sibling: use a real context
		ctx := frugal.NewFContext("").SetTimeout(60 * time.Millisecond)
		done := make(chan error, 1)
		go func() {
			_, err := tr.Request(ctx, refFrame([]byte("x")))
			done <- err
		}()
		st.feed(data)
		st.cut(eofErr())
		select {
		case <-closed:
		case <-time.After(5 * time.Second):
			return ev.Failf("adapter-not-closed", "adapter transport did not publish a close cause within 5s after hostile bytes + EOF (%s)", c.Desc)
		}
		select {
		case <-done:
		case <-time.After(5 * time.Second):
			return ev.Failf("adapter-request-stuck", "in-flight Request did not return after the stream failed")
		}
		if tr.IsOpen() {
			return ev.Failf("adapter-still-open", "IsOpen() true after the close cause was published")
		}
		// the same transport reopened (the client's next connection) is unaffected by whatever
		// the failed connection delivered, complete or not
		if err := tr.Open(); err != nil {
			return ev.Failf("adapter-reopen", "reopening the transport after the failed connection: %v", err)
		}
		ctx3 := frugal.NewFContext("").SetTimeout(5 * time.Second)
		st.onFlush = func([]byte) { st.feed(validReply(c.Proto, opidOf(ctx3), "ok")) }
		_, err3 := tr.Request(ctx3, refFrame([]byte("z")))
		st.onFlush = nil
		tr.Close()
		if err3 != nil {
			return ev.Failf("adapter-reopened-conn", "request on the reopened transport failed: %v (%s)", err3, c.Desc)
		}
		// a fresh connection is unaffected
		st2 := newScriptT()
		tr2 := frugal.NewAdapterTransport(st2)
		if err := tr2.Open(); err != nil {
			return ev.Failf("harness:open", "%v", err)
		}
		defer tr2.Close()
		ctx2 := frugal.NewFContext("").SetTimeout(5 * time.Second)
		st2.onFlush = func([]byte) { st2.feed(validReply(c.Proto, opidOf(ctx2), "ok")) }
		if _, err := tr2.Request(ctx2, refFrame([]byte("y"))); err != nil {
			return ev.Failf("adapter-fresh-conn", "request on a fresh connection failed: %v", err)
		}
		return nil

	case "simple.stream":
		var calls int64
		h := okHandler()
		h.echo = func(ctx frugal.FContext, v string) (string, error) {
			atomic.AddInt64(&calls, 1)
			return "echo:" + v, nil
		}
		sock, err := thrift.NewTServerSocket("127.0.0.1:0")
		if err != nil {
			return ev.Failf("harness:listen", "%v", err)
		}
		srv := frugal.NewFSimpleServer(newSvcProcessor(h), sock, pf)
		if err := sock.Listen(); err != nil {
			return ev.Failf("harness:listen", "%v", err)
		}
		go srv.Serve()
		defer srv.Stop()
		addr := sock.Addr().String()
		c1, err := net.Dial("tcp", addr)
		if err != nil {
			return ev.Failf("harness:dial", "%v", err)
		}
		// a server that has given up on the connection stops reading (it does not close it): a large
		// input then fills the socket buffers, which is the peer's problem, not a hang of the server
		c1.SetWriteDeadline(time.Now().Add(3 * time.Second))
		c1.Write(data)
		// read whatever comes back for a moment, then close
		c1.SetReadDeadline(time.Now().Add(20 * time.Millisecond))
		io.Copy(io.Discard, c1)
		c1.Close()
		// second connection: a well-formed request must be answered
		tsock := thrift.NewTSocketConf(addr, &thrift.TConfiguration{ConnectTimeout: 2 * time.Second, SocketTimeout: 5 * time.Second})
		tr := frugal.NewAdapterTransport(tsock)
		if err := tr.Open(); err != nil {
			return ev.Failf("simple-server-dead", "cannot open a second connection after hostile bytes on the first: %v", err)
		}
		defer tr.Close()
		cl := newSvcClient(frugal.NewFServiceProvider(tr, pf))
		r, err := cl.Echo(frugal.NewFContext("").SetTimeout(5*time.Second), "after")
		if err != nil || r != "echo:after" {
			return ev.Failf("simple-server-other-conn", "request on another connection after hostile bytes: %q, %v", r, err)
		}
		return nil

	case "nats.client":
		conn, err := natsConnect()
		if err != nil {
			return ev.Failf("harness:nats", "%v", err)
		}
		defer conn.Close()
		raw, _ := natsConnect()
		defer raw.Close()
		subj := fmt.Sprintf("c05.svc.%d", uniq64())
		// a responder that stays silent for the first request and answers later ones
		var n int64
		sub, _ := raw.Subscribe(subj, func(m *nats.Msg) {
			if atomic.AddInt64(&n, 1) == 1 {
				// hostile bytes to the first caller's reply subject, then a valid reply
				msg := &nats.Msg{Subject: m.Reply, Data: data}
				if c.Hdr != "" {
					msg.Header = nats.Header{"Status": []string{c.Hdr}}
				}
				raw.PublishMsg(msg)
			}
			opid := m.Reply[len(m.Reply)-len(lastToken(m.Reply)):]
			raw.Publish(m.Reply, validReply(c.Proto, opid, "ok"))
		})
		defer sub.Unsubscribe()
		raw.Flush()
		tr := frugal.NewFNatsTransport(conn, subj, "")
		if err := tr.Open(); err != nil {
			return ev.Failf("harness:open", "%v", err)
		}
		defer tr.Close()
		cl := newSvcClient(frugal.NewFServiceProvider(tr, pf))
		cl.Echo(frugal.NewFContext("").SetTimeout(80*time.Millisecond), "first") // any outcome is acceptable here
		r, err := cl.Echo(frugal.NewFContext("").SetTimeout(3*time.Second), "second")
		if err != nil || r != "ok" {
			return ev.Failf("nats-client-later-message", "request after a hostile response message: %q, %v", r, err)
		}
		return nil

	case "nats.server":
		conn, err := natsConnect()
		if err != nil {
			return ev.Failf("harness:nats", "%v", err)
		}
		defer conn.Close()
		raw, _ := natsConnect()
		defer raw.Close()
		subj := fmt.Sprintf("c05.srv.%d", uniq64())
		workers := uint(1 + len(data)%2)
		srv := frugal.NewFNatsServerBuilder(conn, newSvcProcessor(okHandler()), pf, []string{subj}).WithWorkerCount(workers).Build()
		served := make(chan error, 1)
		go func() { served <- srv.Serve() }()
		defer func() {
			srv.Stop()
			<-served
		}()
		// the server has subscribed once Serve is under way (2 ms is not enough on a busy machine)
		awaitSubscribed(conn)
		raw.PublishRequest(subj, "c05.hostile.reply", data)
		raw.Flush()
		ccon, _ := natsConnect()
		defer ccon.Close()
		tr := frugal.NewFNatsTransport(ccon, subj, "")
		if err := tr.Open(); err != nil {
			return ev.Failf("harness:open", "%v", err)
		}
		defer tr.Close()
		cl := newSvcClient(frugal.NewFServiceProvider(tr, pf))
		r, err := cl.Echo(frugal.NewFContext("").SetTimeout(3*time.Second), "after")
		if err != nil || r != "echo:after" {
			return ev.Failf("nats-server-later-message", "request after a hostile request message (%d workers): %q, %v", workers, r, err)
		}
		return nil

	case "nats.sub", "stomp.sub":
		got := make(chan string, 16)
		cb := subscriberCallback("Evt", pf, func(ctx frugal.FContext, v string) error { got <- v; return nil })
		topic := fmt.Sprintf("c05.topic.%d", uniq64())
		valid := refFrame(frameContent([]KV{kv("_opid", "1"), kv("_cid", "c")}, thriftMessage(c.Proto, "Evt", thrift.CALL, &strStruct{Name: "Evt", ID: 1, V: sp("good")})))
		var sub frugal.FSubscriberTransport
		var publish func([]byte) error
		if c.Entry == "nats.sub" {
			conn, err := natsConnect()
			if err != nil {
				return ev.Failf("harness:nats", "%v", err)
			}
			defer conn.Close()
			raw, _ := natsConnect()
			defer raw.Close()
			sub = frugal.NewFNatsSubscriberTransportFactory(conn).GetTransport()
			publish = func(b []byte) error {
				if err := raw.Publish("frugal."+topic, b); err != nil {
					return err
				}
				return raw.Flush()
			}
		} else {
			sc, err := stompConnect()
			if err != nil {
				return ev.Failf("harness:stomp", "%v", err)
			}
			defer sc.MustDisconnect()
			pc, err := stompConnect()
			if err != nil {
				return ev.Failf("harness:stomp", "%v", err)
			}
			defer pc.MustDisconnect()
			sub = frugal.NewFStompSubscriberTransportFactoryBuilder(sc).Build().GetTransport()
			publish = func(b []byte) error {
				return pc.Send("/topic/frugal."+topic, "application/octet-stream", b)
			}
		}
		if err := sub.Subscribe(topic, cb); err != nil {
			return ev.Failf("harness:subscribe", "%v", err)
		}
		if c.Entry == "nats.sub" {
			// (the embedded go-stomp broker never acknowledges UNSUBSCRIBE, so the
			// STOMP client library's Unsubscribe would block; the connection is
			// dropped instead)
			defer sub.Unsubscribe()
		}
		if c.Entry == "stomp.sub" {
			// STOMP SUBSCRIBE is not acknowledged: wait until the broker routes to us.
			if !stompAwaitRouting(c.Proto, publish, got) {
				return ev.Failf("harness:stomp-sync", "subscription never became active")
			}
		}
		if err := publish(data); err != nil {
			return ev.Failf("harness:publish", "%v", err)
		}
		if err := publish(valid); err != nil {
			return ev.Failf("harness:publish", "%v", err)
		}
		deadline := time.After(3 * time.Second)
		for {
			select {
			case v := <-got:
				if v == "good" {
					return nil
				}
				// "__sync__" stragglers and the (possibly valid) first message are ignored
			case <-deadline:
				return ev.Failf("subscriber-later-message:"+c.Entry, "well-formed message published after a hostile one (%d bytes, %s) was never delivered", len(c.Data), c.Desc)
			}
		}

	case "http":
		h := frugal.NewFrugalHandlerFunc(newSvcProcessor(okHandler()), pf)
		ts := httptest.NewServer(h)
		defer ts.Close()
		body := data
		if !c.Raw {
			body = []byte(base64.StdEncoding.EncodeToString(data))
		}
		hc := &http.Client{Timeout: 5 * time.Second}
		resp, err := hc.Post(ts.URL, "application/x-frugal", bytes.NewReader(body))
		if err != nil {
			return ev.Failf("http-no-response", "hostile body got no HTTP response at all: %v", err)
		}
		io.Copy(io.Discard, resp.Body)
		resp.Body.Close()
		tr := frugal.NewFHTTPTransportBuilder(hc, ts.URL).Build()
		cl := newSvcClient(frugal.NewFServiceProvider(tr, pf))
		r, err := cl.Echo(frugal.NewFContext("").SetTimeout(5*time.Second), "after")
		if err != nil || r != "echo:after" {
			return ev.Failf("http-later-message", "request after a hostile body: %q, %v", r, err)
		}
		return nil

	case "adapter.sessions":
		// one transport object through several sessions: a monitor that has already retired
		// (clean Close), then the hostile bytes end two sessions in a row; every call still returns
		st := newScriptT()
		tr := frugal.NewAdapterTransport(st)
		withMonitor := len(data)%2 == 0
		if withMonitor {
			tr.SetMonitor(&frugal.BaseFTransportMonitor{MaxReopenAttempts: 0, InitialWait: time.Millisecond, MaxWait: time.Millisecond})
		}
		guard := func(what string, f func()) *ev.Failure {
			if ok, p := within(5*time.Second, f); !ok {
				return ev.Failf("adapter-wedged", "%s did not return within 5s (monitor set: %v; %s)\n%s", what, withMonitor, c.Desc, allStacks())
			} else if p != "" {
				return ev.Failf("panic:e2e:adapter.sessions", "%s", p)
			}
			return nil
		}
		var err error
		if f := guard("Open", func() { err = tr.Open() }); f != nil || err != nil {
			return orFail(f, ev.Failf("harness:open", "%v", err))
		}
		if f := guard("Close", func() { tr.Close() }); f != nil {
			return f
		}
		// sessions that are closed again before their read loop may have started running
		for i, n := 0, (len(data)%4)*8; i < n; i++ {
			if f := guard("Open/Close churn", func() { tr.Open(); tr.Close() }); f != nil {
				return f
			}
		}
		for session := 1; session <= 3; session++ {
			if f := guard(fmt.Sprintf("Open (session %d)", session), func() { err = tr.Open() }); f != nil || err != nil {
				return orFail(f, ev.Failf("adapter-reopen", "session %d: Open after a session ended by hostile bytes: %v", session, err))
			}
			closed := tr.Closed()
			if session == 3 {
				// the last session must work
				ctx3 := frugal.NewFContext("").SetTimeout(5 * time.Second)
				st.onFlush = func([]byte) { st.feed(validReply(c.Proto, opidOf(ctx3), "ok")) }
				var rerr error
				if f := guard("Request", func() { _, rerr = tr.Request(ctx3, refFrame([]byte("z"))) }); f != nil {
					return f
				}
				st.onFlush = nil
				if rerr != nil {
					st.mu.Lock()
					lc := st.lastClose
					st.mu.Unlock()
					return ev.Failf("adapter-reopened-conn", "request in the session after two hostile ones failed: %v (%s)\nlast Close of the stream: %s", rerr, c.Desc, lc)
				}
				guard("Close", func() { tr.Close() })
				break
			}
			st.feed(data)
			st.cut(eofErr())
			select {
			case <-closed:
			case <-time.After(5 * time.Second):
				return ev.Failf("adapter-not-closed", "session %d: no close cause published within 5s after hostile bytes + EOF (monitor set: %v; %s)\n%s", session, withMonitor, c.Desc, allStacks())
			}
			var open bool
			if f := guard(fmt.Sprintf("IsOpen (session %d)", session), func() { open = tr.IsOpen() }); f != nil {
				return f
			}
			if open {
				return ev.Failf("adapter-still-open", "session %d: IsOpen() true after the close cause was published", session)
			}
		}
		return nil

	case "http.client":
		// a peer HTTP server answers the first call with the hostile body and every later call properly
		var n int64
		ts := httptest.NewServer(http.HandlerFunc(func(w http.ResponseWriter, r *http.Request) {
			reqBody, _ := io.ReadAll(r.Body)
			if atomic.AddInt64(&n, 1) == 1 {
				if c.Hdr != "" {
					var code int
					fmt.Sscan(c.Hdr, &code)
					w.WriteHeader(code)
				}
				if c.Raw {
					w.Write(data)
				} else {
					w.Write([]byte(base64.StdEncoding.EncodeToString(data)))
				}
				return
			}
			opid := ""
			if raw, err := base64.StdEncoding.DecodeString(string(reqBody)); err == nil && len(raw) > 4 {
				if pairs, _, err := refDecodeHeaders(raw[4:]); err == nil {
					opid = pairsToMap(pairs)["_opid"]
				}
			}
			w.Write([]byte(base64.StdEncoding.EncodeToString(validReply(c.Proto, opid, "ok"))))
		}))
		defer ts.Close()
		hc := &http.Client{Timeout: 5 * time.Second}
		tr := frugal.NewFHTTPTransportBuilder(hc, ts.URL).Build()
		cl := newSvcClient(frugal.NewFServiceProvider(tr, pf))
		cl.Echo(frugal.NewFContext("").SetTimeout(2*time.Second), "first") // any outcome but a crash or a hang
		r, err := cl.Echo(frugal.NewFContext("").SetTimeout(5*time.Second), "second")
		if err != nil || r != "ok" {
			return ev.Failf("http-client-later-message", "call after a hostile HTTP response body: %q, %v", r, err)
		}
		return nil
	}
	return ev.Failf("harness:entry", "unknown entry %q", c.Entry)
}

// stompAwaitRouting publishes sentinel events until one is delivered.
func stompAwaitRouting(proto string, publish func([]byte) error, got chan string) bool {
	sentinel := refFrame(frameContent([]KV{kv("_opid", "1"), kv("_cid", "c")}, thriftMessage(proto, "Evt", thrift.CALL, &strStruct{Name: "Evt", ID: 1, V: sp("__sync__")})))
	deadline := time.Now().Add(5 * time.Second)
	for time.Now().Before(deadline) {
		publish(sentinel)
		select {
		case v := <-got:
			if v == "__sync__" {
				// drain further sentinels that may still be in flight
				time.Sleep(2 * time.Millisecond)
				for {
					select {
					case <-got:
						continue
					default:
					}
					return true
				}
			}
		case <-time.After(3 * time.Millisecond):
		}
	}
	return false
}

func lastToken(s string) string {
	for i := len(s) - 1; i >= 0; i-- {
		if s[i] == '.' {
			return s[i+1:]
		}
	}
	return s
}

var c05E2EProp = ev.Prop("c05.e2e", genC05For(c05E2EEntries), execC05E2E, classifyC05, sampleC05)

func TestC05E2E(t *testing.T) { rapid.Check(t, c05E2EProp) }

func orFail(a, b *ev.Failure) *ev.Failure {
	if a != nil {
		return a
	}
	return b
}
