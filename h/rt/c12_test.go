package rt

// C12 — size limits are enforced exactly and reported, never silently.

import (
	"bytes"
	"context"
	"fmt"
	"net/http"
	"net/http/httptest"
	"strconv"
	"strings"
	"sync"
	"testing"
	"time"

	frugal "github.com/Workiva/frugal/lib/go"
	"github.com/apache/thrift/lib/go/thrift"
	"pgregory.net/rapid"
	"verif/ev"
)

// shapeStruct is a thrift.TStruct whose Write emits a drawn list of fields
// through the real protocol encoder.
type shapeField struct {
	Kind string `json:"kind"` // string binary i32 i64 bool list map struct
	N    int    `json:"n"`
}

type shapeStruct struct{ Fields []shapeField }

func (p *shapeStruct) Write(ctx context.Context, o thrift.TProtocol) error {
	if err := o.WriteStructBegin(ctx, "shape"); err != nil {
		return err
	}
	for i, f := range p.Fields {
		id := int16(i + 1)
		var err error
		switch f.Kind {
		case "string":
			if err = o.WriteFieldBegin(ctx, "f", thrift.STRING, id); err == nil {
				err = o.WriteString(ctx, strings.Repeat("a", f.N))
			}
		case "binary":
			if err = o.WriteFieldBegin(ctx, "f", thrift.STRING, id); err == nil {
				err = o.WriteBinary(ctx, bytes.Repeat([]byte{0x61}, f.N))
			}
		case "i32":
			if err = o.WriteFieldBegin(ctx, "f", thrift.I32, id); err == nil {
				err = o.WriteI32(ctx, int32(f.N))
			}
		case "i64":
			if err = o.WriteFieldBegin(ctx, "f", thrift.I64, id); err == nil {
				err = o.WriteI64(ctx, int64(f.N))
			}
		case "bool":
			if err = o.WriteFieldBegin(ctx, "f", thrift.BOOL, id); err == nil {
				err = o.WriteBool(ctx, f.N%2 == 1)
			}
		case "list":
			if err = o.WriteFieldBegin(ctx, "f", thrift.LIST, id); err == nil {
				if err = o.WriteListBegin(ctx, thrift.I32, f.N); err == nil {
					for j := 0; j < f.N && err == nil; j++ {
						err = o.WriteI32(ctx, int32(j))
					}
					if err == nil {
						err = o.WriteListEnd(ctx)
					}
				}
			}
		case "map":
			if err = o.WriteFieldBegin(ctx, "f", thrift.MAP, id); err == nil {
				if err = o.WriteMapBegin(ctx, thrift.I32, thrift.STRING, f.N); err == nil {
					for j := 0; j < f.N && err == nil; j++ {
						if err = o.WriteI32(ctx, int32(j)); err == nil {
							err = o.WriteString(ctx, "v")
						}
					}
					if err == nil {
						err = o.WriteMapEnd(ctx)
					}
				}
			}
		case "fstring", "fbinary":
			// through the runtime's field helpers, as go:slim generated code does (they write
			// field begin, value and field end themselves)
			if f.Kind == "fstring" {
				err = frugal.WriteStringWithContext(ctx, o, strings.Repeat("a", f.N), "f", id)
			} else {
				err = frugal.WriteBinaryWithContext(ctx, o, bytes.Repeat([]byte{0x61}, f.N), "f", id)
			}
			if err != nil {
				return err
			}
			continue
		case "struct":
			if err = o.WriteFieldBegin(ctx, "f", thrift.STRUCT, id); err == nil {
				inner := &shapeStruct{Fields: []shapeField{{"string", f.N}}}
				err = inner.Write(ctx, o)
			}
		}
		if err != nil {
			return err
		}
		if err := o.WriteFieldEnd(ctx); err != nil {
			return err
		}
	}
	if err := o.WriteFieldStop(ctx); err != nil {
		return err
	}
	return o.WriteStructEnd(ctx)
}

func (p *shapeStruct) Read(ctx context.Context, i thrift.TProtocol) error {
	return i.Skip(ctx, thrift.STRUCT)
}

type c12Case struct {
	Leg    string       `json:"leg"`
	Proto  string       `json:"proto"`
	Limit  int          `json:"limit"`
	Delta  int          `json:"delta"`
	Fields []shapeField `json:"fields"`
	Large  int          `json:"large"` // index of the field that is sized to hit limit+delta
}

var c12Legs = []string{"buffer", "buffer", "client.call", "client.oneway", "client.publish", "nats.request", "nats.response", "http.request", "http.response", "stomp.publish"}

func genC12(t *rapid.T) c12Case {
	c := c12Case{}
	c.Leg = rapid.SampledFrom(c12Legs).Draw(t, "leg")
	c.Proto = rapid.SampledFrom([]string{"binary", "binary", "compact", "json"}).Draw(t, "proto")
	switch c.Leg {
	case "nats.request", "nats.response":
		c.Limit = 1024 * 1024
	default:
		c.Limit = rapid.SampledFrom([]int{0, 200, 1000, 65536, 1024 * 1024}).Draw(t, "limit")
	}
	c.Delta = rapid.SampledFrom([]int{-100, -2, -1, 0, 1, 2, 3, 4, 5, 100}).Draw(t, "delta")
	n := rapid.IntRange(0, 4).Draw(t, "nsmall")
	for i := 0; i < n; i++ {
		k := rapid.SampledFrom([]string{"i32", "i64", "bool", "string", "list", "map", "struct", "binary"}).Draw(t, "kind")
		c.Fields = append(c.Fields, shapeField{k, rapid.IntRange(0, 5).Draw(t, "n")})
	}
	pos := rapid.SampledFrom([]string{"first", "middle", "last", "last"}).Draw(t, "pos")
	largeKind := rapid.SampledFrom([]string{"string", "string", "binary", "struct", "fstring", "fbinary"}).Draw(t, "largeKind")
	if c.Proto == "json" && (largeKind == "binary" || largeKind == "fbinary") {
		largeKind = "string" // base64 makes the size non-linear
	}
	lf := shapeField{largeKind, 0}
	switch pos {
	case "first":
		c.Fields = append([]shapeField{lf}, c.Fields...)
		c.Large = 0
	case "last":
		c.Fields = append(c.Fields, lf)
		c.Large = len(c.Fields) - 1
	default:
		m := len(c.Fields) / 2
		c.Fields = append(c.Fields[:m], append([]shapeField{lf}, c.Fields[m:]...)...)
		c.Large = m
	}
	return c
}

func classifyC12(c c12Case) ev.Class {
	labels := []string{"leg=" + c.Leg, "proto=" + c.Proto, "limit=" + strconv.Itoa(c.Limit), "large=" + c.Fields[c.Large].Kind}
	pos := "middle"
	if c.Large == len(c.Fields)-1 {
		pos = "last"
	} else if c.Large == 0 {
		pos = "first"
	}
	labels = append(labels, "pos="+pos)
	d := c.Delta
	if d < 0 {
		d = -d
	}
	if d <= 2 {
		labels = append(labels, "boundary")
	}
	if c.Delta > 0 {
		labels = append(labels, "over")
	} else {
		labels = append(labels, "within")
	}
	nt := d <= 2 || c.Fields[c.Large].Kind == "string" || pos == "last"
	return ev.Class{NonTrivial: nt, Key: fmt.Sprintf("%+v", c), Labels: labels}
}

// sized returns the shape with its large field sized so that size(shape) is as
// close as possible to target, and the size reached.
func sized(c c12Case, target int, size func(*shapeStruct) int) (*shapeStruct, int) {
	s := &shapeStruct{Fields: append([]shapeField{}, c.Fields...)}
	for i := 0; i < 8; i++ {
		cur := size(s)
		if cur == target {
			return s, cur
		}
		n := s.Fields[c.Large].N + (target - cur)
		if n < 0 {
			n = 0
		}
		if n == s.Fields[c.Large].N {
			break
		}
		s.Fields[c.Large].N = n
	}
	return s, size(s)
}

func isTooLarge(err error, typ int) bool {
	te, ok := err.(thrift.TTransportException)
	return ok && te.TypeId() == typ
}

// spyPub is a publisher transport that records.
type spyPub struct {
	limit uint
	mu    sync.Mutex
	sent  [][]byte
}

func (s *spyPub) Open() error               { return nil }
func (s *spyPub) Close() error              { return nil }
func (s *spyPub) IsOpen() bool              { return true }
func (s *spyPub) GetPublishSizeLimit() uint { return s.limit }
func (s *spyPub) Publish(topic string, b []byte) error {
	s.mu.Lock()
	s.sent = append(s.sent, append([]byte{}, b...))
	s.mu.Unlock()
	return nil
}

type spyPubFactory struct{ p *spyPub }

func (f spyPubFactory) GetTransport() frugal.FPublisherTransport { return f.p }

func ctxPairs(ctx frugal.FContext) []KV {
	var out []KV
	for k, v := range ctx.RequestHeaders() {
		out = append(out, kv(k, v))
	}
	return out
}

func execC12(c c12Case) *ev.Failure {
	var f *ev.Failure
	ok, p := within(60*time.Second, func() { f = execC12Inner(c) })
	if !ok {
		return ev.Failf("hang:c12", "case did not finish in 60s\n%s", allStacks())
	}
	if p != "" {
		return ev.Failf("panic:c12", "%s", p)
	}
	return f
}

func execC12Inner(c c12Case) *ev.Failure {
	pf := fpf(c.Proto)
	limit := c.Limit
	eff := limit
	if eff == 0 {
		eff = 3000 // unbounded: exercise some size anyway
	}
	target := eff + c.Delta
	what := func(sz int) string {
		return fmt.Sprintf("leg=%s proto=%s limit=%d framed=%d (large %s at %d of %d fields)", c.Leg, c.Proto, limit, sz, c.Fields[c.Large].Kind, c.Large, len(c.Fields))
	}
	switch c.Leg {
	case "buffer":
		size := func(s *shapeStruct) int {
			return len(refFrame(thriftMessage(c.Proto, "m", thrift.CALL, s)))
		}
		shape, sz := sized(c, target, size)
		buf := frugal.NewTMemoryOutputBuffer(uint(limit))
		o := pf.GetProtocol(buf)
		var err error
		if err = o.WriteMessageBegin(bg, "m", thrift.CALL, 0); err == nil {
			if err = shape.Write(bg, o); err == nil {
				if err = o.WriteMessageEnd(bg); err == nil {
					err = o.Flush(bg)
				}
			}
		}
		if limit > 0 && sz > limit {
			if err == nil {
				return ev.Failf("oversize-accepted", "%s: the bounded buffer accepted %d bytes above its limit without an error", what(sz), sz-limit)
			}
			if !frugal.IsErrTooLarge(err) {
				return ev.Failf("oversize-wrong-error", "%s: error %T %v is not a too-large transport exception", what(sz), err, err)
			}
			return nil
		}
		if err != nil {
			return ev.Failf("within-limit-rejected", "%s: rejected with %v", what(sz), err)
		}
		if got := buf.Bytes(); len(got) != sz {
			return ev.Failf("buffer-size", "%s: buffer holds %d bytes", what(sz), len(got))
		}
		return nil

	case "client.call", "client.oneway", "client.publish":
		ctx := frugal.NewFContext("cid")
		size := func(s *shapeStruct) int {
			return len(refFrame(frameContent(ctxPairs(ctx), thriftMessage(c.Proto, "m", thrift.CALL, s))))
		}
		shape, sz := sized(c, target, size)
		var err error
		var sent [][]byte
		reply := frameContent([]KV{kv("_opid", opidOf(ctx))}, thriftMessage(c.Proto, "m", thrift.REPLY, &shapeStruct{}))
		do := func(sh *shapeStruct, fc frugal.FContext) (error, [][]byte) {
			if c.Leg == "client.publish" {
				sp := &spyPub{limit: uint(limit)}
				cl := frugal.NewFScopeClient(frugal.NewFScopeProvider(spyPubFactory{sp}, nil, pf))
				e := cl.Publish(fc, "m", "topic", sh)
				return e, sp.sent
			}
			st := &stubFT{limit: uint(limit), resp: reply}
			cl := frugal.NewFStandardClient(frugal.NewFServiceProvider(st, pf))
			var e error
			if c.Leg == "client.oneway" {
				e = cl.Oneway(fc, "m", sh)
			} else {
				e = cl.Call(fc, "m", sh, &shapeStruct{})
			}
			return e, st.sent
		}
		err, sent = do(shape, ctx)
		if limit > 0 && sz > limit {
			if err == nil {
				return ev.Failf("oversize-accepted", "%s: request above the transport's limit was handed to the transport (%d transmissions)", what(sz), len(sent))
			}
			if !isTooLarge(err, frugal.TRANSPORT_EXCEPTION_REQUEST_TOO_LARGE) {
				return ev.Failf("oversize-wrong-error", "%s: error %T %v, want REQUEST_TOO_LARGE", what(sz), err, err)
			}
			if len(sent) != 0 {
				return ev.Failf("oversize-transmitted", "%s: %d bytes were transmitted although the call failed", what(sz), len(sent[0]))
			}
			return nil
		}
		if err != nil {
			return ev.Failf("within-limit-rejected", "%s: rejected with %v", what(sz), err)
		}
		if len(sent) != 1 || len(sent[0]) != sz {
			return ev.Failf("transmitted-size", "%s: %d transmissions, first of %d bytes", what(sz), len(sent), len(firstOr(sent)))
		}
		return nil

	case "http.request", "http.response", "nats.request", "nats.response", "stomp.publish":
		return execC12Wire(c, pf, limit, target, what)
	}
	return ev.Failf("harness:leg", "unknown leg %q", c.Leg)
}

type statusRecorder struct {
	http.ResponseWriter
	status int
}

func (r *statusRecorder) WriteHeader(code int) {
	r.status = code
	r.ResponseWriter.WriteHeader(code)
}

func firstOr(b [][]byte) []byte {
	if len(b) == 0 {
		return nil
	}
	return b[0]
}

// sizedEchoHandler answers "len:<n>" with a string of n bytes.
func sizedEchoHandler() *svcHandler {
	return &svcHandler{
		echo: func(ctx frugal.FContext, v string) (string, error) {
			if strings.HasPrefix(v, "len:") {
				n, _ := strconv.Atoi(v[4:])
				return strings.Repeat("r", n), nil
			}
			return "echo:" + trunc(v, 8), nil
		},
		fire: func(ctx frugal.FContext, v string) error { return nil },
	}
}

func execC12Wire(c c12Case, pf *frugal.FProtocolFactory, limit, target int, what func(int) string) *ev.Failure {
	var tr frugal.FTransport
	var cleanup []func()
	defer func() {
		for i := len(cleanup) - 1; i >= 0; i-- {
			cleanup[i]()
		}
	}()
	var handlerCalls int64
	lastHTTPStatus := 0
	h := sizedEchoHandler()
	inner := h.echo
	var mu sync.Mutex
	h.echo = func(ctx frugal.FContext, v string) (string, error) {
		mu.Lock()
		handlerCalls++
		mu.Unlock()
		return inner(ctx, v)
	}
	switch c.Leg {
	case "http.request", "http.response":
		inner := frugal.NewFrugalHandlerFunc(newSvcProcessor(h), pf)
		ts := httptest.NewServer(http.HandlerFunc(func(w http.ResponseWriter, r *http.Request) {
			rec := &statusRecorder{ResponseWriter: w, status: 200}
			inner(rec, r)
			mu.Lock()
			lastHTTPStatus = rec.status
			mu.Unlock()
		}))
		cleanup = append(cleanup, ts.Close)
		b := frugal.NewFHTTPTransportBuilder(&http.Client{Timeout: 20 * time.Second}, ts.URL)
		if c.Leg == "http.request" {
			b = b.WithRequestSizeLimit(uint(limit))
		} else {
			b = b.WithResponseSizeLimit(uint(limit))
		}
		tr = b.Build()
	case "nats.request", "nats.response":
		sconn, err := natsConnect()
		if err != nil {
			return ev.Failf("harness:nats", "%v", err)
		}
		cleanup = append(cleanup, sconn.Close)
		cconn, _ := natsConnect()
		cleanup = append(cleanup, cconn.Close)
		subj := fmt.Sprintf("c12.svc.%d", uniq64())
		srv := frugal.NewFNatsServerBuilder(sconn, newSvcProcessor(h), pf, []string{subj}).Build()
		served := make(chan error, 1)
		go func() { served <- srv.Serve() }()
		awaitSubscribed(sconn)
		cleanup = append(cleanup, func() { srv.Stop(); <-served })
		tr = frugal.NewFNatsTransport(cconn, subj, "")
		if err := tr.Open(); err != nil {
			return ev.Failf("harness:open", "%v", err)
		}
		cleanup = append(cleanup, func() { tr.Close() })
	case "stomp.publish":
		pc, err := stompConnect()
		if err != nil {
			return ev.Failf("harness:stomp", "%v", err)
		}
		cleanup = append(cleanup, func() { pc.MustDisconnect() })
		sc, err := stompConnect()
		if err != nil {
			return ev.Failf("harness:stomp", "%v", err)
		}
		cleanup = append(cleanup, func() { sc.MustDisconnect() })
		topic := fmt.Sprintf("c12.topic.%d", uniq64())
		got := make(chan string, 64)
		sizes := make(chan int, 64)
		sub := frugal.NewFStompSubscriberTransportFactoryBuilder(sc).Build().GetTransport()
		if err := sub.Subscribe(topic, func(tt thrift.TTransport) error {
			ip := pf.GetProtocol(tt)
			if _, err := ip.ReadRequestHeader(); err != nil {
				return err
			}
			name, _, _, err := ip.ReadMessageBegin(bg)
			if err != nil {
				return err
			}
			if name == "Evt" {
				req := &strStruct{Name: "Evt", ID: 1}
				req.Read(bg, ip)
				if req.V != nil {
					got <- *req.V
				}
				return nil
			}
			sizes <- int(tt.RemainingBytes())
			return nil
		}); err != nil {
			return ev.Failf("harness:subscribe", "%v", err)
		}
		pubT := frugal.NewFStompPublisherTransportFactoryBuilder(pc).WithMaxPublishSize(limit).Build()
		cl := frugal.NewFScopeClient(frugal.NewFScopeProvider(pubT, nil, pf))
		if err := cl.Open(); err != nil {
			return ev.Failf("harness:open", "%v", err)
		}
		if !stompAwaitRouting(c.Proto, func(b []byte) error {
			return pc.Send("/topic/frugal."+topic, "application/octet-stream", b)
		}, got) {
			return ev.Failf("harness:stomp-sync", "subscription never became active")
		}
		ctx := frugal.NewFContext("cid")
		size := func(s *shapeStruct) int {
			return len(refFrame(frameContent(ctxPairs(ctx), thriftMessage(c.Proto, "big", thrift.CALL, s))))
		}
		shape, sz := sized(c, target, size)
		err = cl.Publish(ctx, "big", topic, shape)
		if limit > 0 && sz > limit {
			if !isTooLarge(err, frugal.TRANSPORT_EXCEPTION_REQUEST_TOO_LARGE) {
				return ev.Failf("oversize-wrong-error", "%s: publish returned %T %v, want REQUEST_TOO_LARGE", what(sz), err, err)
			}
		} else {
			if err != nil {
				return ev.Failf("within-limit-rejected", "%s: publish rejected with %v", what(sz), err)
			}
			select {
			case <-sizes:
			case <-time.After(5 * time.Second):
				return ev.Failf("publish-lost", "%s: message within the limit never arrived", what(sz))
			}
		}
		// follow-up publish works
		ctx2 := frugal.NewFContext("cid2")
		if err := cl.Publish(ctx2, "Evt", topic, &strStruct{Name: "Evt", ID: 1, V: sp("after")}); err != nil {
			return ev.Failf("followup-failed", "%s: publish after the oversize one failed: %v", what(sz), err)
		}
		deadline := time.After(5 * time.Second)
		for {
			select {
			case v := <-got:
				if v == "after" {
					return nil
				}
			case <-sizes:
				if limit > 0 && sz > limit {
					return ev.Failf("oversize-transmitted", "%s: the oversize message was delivered to the subscriber", what(sz))
				}
			case <-deadline:
				return ev.Failf("followup-failed", "%s: follow-up message never arrived", what(sz))
			}
		}
	}

	cl := newSvcClient(frugal.NewFServiceProvider(tr, pf))
	ctx := frugal.NewFContext("cid").SetTimeout(2500 * time.Millisecond)
	var sz int
	var err error
	var r string
	switch c.Leg {
	case "http.request", "nats.request":
		// echo's argument is the large string
		size := func(n int) int {
			v := strings.Repeat("a", n)
			return len(refFrame(frameContent(ctxPairs(ctx), thriftMessage(c.Proto, "echo", thrift.CALL, &strStruct{Name: "echo_args", ID: 1, V: &v}))))
		}
		n := 0
		for i := 0; i < 6; i++ {
			cur := size(n)
			if cur == target {
				break
			}
			n += target - cur
			if n < 0 {
				n = 0
			}
		}
		sz = size(n)
		r, err = cl.Echo(ctx, strings.Repeat("a", n))
		if limit > 0 && sz > limit {
			if !isTooLarge(err, frugal.TRANSPORT_EXCEPTION_REQUEST_TOO_LARGE) {
				return ev.Failf("oversize-wrong-error", "%s: got (%q, %T %v), want REQUEST_TOO_LARGE", what(sz), trunc(r, 10), err, err)
			}
			mu.Lock()
			calls := handlerCalls
			mu.Unlock()
			if calls != 0 {
				return ev.Failf("oversize-transmitted", "%s: the oversize request reached the handler", what(sz))
			}
		} else if err != nil {
			return ev.Failf("within-limit-rejected", "%s: rejected with %T %v", what(sz), err, err)
		}
	case "http.response", "nats.response":
		opid := opidOf(ctx)
		size := func(n int) int {
			v := strings.Repeat("r", n)
			return len(refFrame(frameContent([]KV{kv("_opid", opid), kv("_cid", "cid")}, thriftMessage(c.Proto, "echo", thrift.REPLY, &echoResult{Success: &v}))))
		}
		n := 0
		for i := 0; i < 6; i++ {
			cur := size(n)
			if cur == target {
				break
			}
			n += target - cur
			if n < 0 {
				n = 0
			}
		}
		sz = size(n)
		r, err = cl.Echo(ctx, fmt.Sprintf("len:%d", n))
		// the HTTP server compares the frame content (without the 4-byte size prefix) with the
		// client-requested limit, the NATS server the complete frame: a 4-byte band is left undecided.
		switch {
		case limit > 0 && sz-4 > limit:
			if !isTooLarge(err, frugal.TRANSPORT_EXCEPTION_RESPONSE_TOO_LARGE) {
				return ev.Failf("oversize-response-not-reported", "%s: caller got (%d bytes, %T %v), want RESPONSE_TOO_LARGE", what(sz), len(r), err, err)
			}
		case limit == 0 || sz <= limit:
			if err != nil || len(r) != n {
				return ev.Failf("within-limit-rejected", "%s: response within the limit: got %d bytes, %T %v", what(sz), len(r), err, err)
			}
		default:
			if err != nil && !isTooLarge(err, frugal.TRANSPORT_EXCEPTION_RESPONSE_TOO_LARGE) {
				return ev.Failf("oversize-response-not-reported", "%s: caller got %T %v", what(sz), err, err)
			}
			// in the band the two sides must at least agree: a response the server judged to be within
			// the requested limit (status 200) is not rejected by the client that asked for the limit
			mu.Lock()
			st := lastHTTPStatus
			mu.Unlock()
			if c.Leg == "http.response" && st == 200 && (err != nil || len(r) != n) {
				return ev.Failf("within-limit-rejected", "%s: the server accepted the response as within the requested limit (200) but the caller got %d bytes, %T %v", what(sz), len(r), err, err)
			}
		}
	}
	// the same client and server keep working
	r2, err2 := cl.Echo(frugal.NewFContext("").SetTimeout(5*time.Second), "after")
	if err2 != nil || r2 != "echo:after" {
		return ev.Failf("followup-failed", "%s: request after the oversize one: %q, %v", what(sz), r2, err2)
	}
	return nil
}

var c12Prop = ev.Prop("c12.limits", genC12, execC12, classifyC12, nil)

func TestC12Limits(t *testing.T) { rapid.Check(t, c12Prop) }
