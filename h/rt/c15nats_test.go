package rt

// C15 on the NATS client transport: Close (and failure detection) must mean the same whether the
// broker is reachable or the connection is in the middle of an outage (RECONNECTING).

import (
	"fmt"
	"testing"
	"time"

	frugal "github.com/Workiva/frugal/lib/go"
	natsserver "github.com/nats-io/nats-server/v2/server"
	"github.com/nats-io/nats.go"
	"pgregory.net/rapid"
	"verif/ev"
)

type c15NatsCase struct {
	Steps []string `json:"steps"` // open | close | isopen | outage | restore
}

func genC15Nats(t *rapid.T) c15NatsCase {
	c := c15NatsCase{Steps: []string{"open"}}
	n := rapid.IntRange(2, 9).Draw(t, "n")
	for i := 0; i < n; i++ {
		st := rapid.SampledFrom([]string{"open", "close", "isopen", "outage", "outage", "restore"}).Draw(t, "step")
		c.Steps = append(c.Steps, st)
		if st == "outage" && rapid.Bool().Draw(t, "closeInOutage") {
			c.Steps = append(c.Steps, "close")
		}
	}
	c.Steps = append(c.Steps, "restore", "isopen", "open", "isopen")
	return c
}

func execC15Nats(c c15NatsCase) *ev.Failure {
	var f *ev.Failure
	ok, p := within(90*time.Second, func() { f = execC15NatsInner(c) })
	if !ok {
		return ev.Failf("hang:c15nats", "case did not finish in 90s\n%s", allStacks())
	}
	if p != "" {
		return ev.Failf("panic:c15nats", "%s", p)
	}
	return f
}

func startNats(port int) (*natsserver.Server, error) {
	var last error
	for try := 0; try < 50; try++ {
		s, err := natsserver.NewServer(&natsserver.Options{Host: "127.0.0.1", Port: port, NoLog: true, NoSigs: true})
		if err != nil {
			return nil, err
		}
		go s.Start()
		if s.ReadyForConnections(2 * time.Second) {
			return s, nil
		}
		s.Shutdown()
		last = fmt.Errorf("nats server not ready on port %d", port)
		time.Sleep(50 * time.Millisecond)
	}
	return nil, last
}

func execC15NatsInner(c c15NatsCase) *ev.Failure {
	srv, err := startNats(-1)
	if err != nil {
		return ev.Failf("harness:nats", "%v", err)
	}
	defer func() {
		if srv != nil {
			srv.Shutdown()
		}
	}()
	port := srv.Addr().(interface{ String() string }).String()
	var portNo int
	fmt.Sscanf(port[len("127.0.0.1:"):], "%d", &portNo)
	conn, err := nats.Connect("nats://"+port, nats.ReconnectWait(10*time.Millisecond), nats.MaxReconnects(-1), nats.Timeout(time.Second))
	if err != nil {
		return ev.Failf("harness:nats", "%v", err)
	}
	defer conn.Close()
	tr := frugal.NewFNatsTransport(conn, fmt.Sprintf("c15n.%d", uniq64()), "")
	open, up := false, true
	var closed <-chan error
	var trace []string
	hist := func() string { return fmt.Sprint(trace) }
	for i, st := range c.Steps {
		trace = append(trace, st)
		switch st {
		case "outage":
			if up {
				srv.Shutdown()
				srv = nil
				up = false
				if !waitFor(3*time.Second, func() bool { return conn.Status() != nats.CONNECTED }) {
					return ev.Failf("harness:outage", "connection still CONNECTED after the broker went away")
				}
			}
		case "restore":
			if !up {
				if srv, err = startNats(portNo); err != nil {
					return ev.Failf("harness:nats", "%v", err)
				}
				up = true
				if !waitFor(5*time.Second, func() bool { return conn.Status() == nats.CONNECTED }) {
					return ev.Failf("harness:restore", "client did not reconnect within 5s")
				}
			}
		case "open":
			if !up {
				continue // opening while the broker is away is allowed to fail in any way
			}
			err := tr.Open()
			switch {
			case open && typeID(err) != frugal.TRANSPORT_EXCEPTION_ALREADY_OPEN:
				return ev.Failf("open-while-open", "step %d: Open on an open NATS transport returned %v, want ALREADY_OPEN\nhistory: %s", i, err, hist())
			case !open && err != nil:
				return ev.Failf("open-failed", "step %d: Open on a closed NATS transport (broker reachable) returned %v\nhistory: %s", i, err, hist())
			}
			if !open {
				open = true
				closed = tr.Closed()
			}
		case "close":
			err := tr.Close()
			if err != nil {
				return ev.Failf("close-failed", "step %d: Close returned %v (open by the model: %v, broker reachable: %v)\nhistory: %s", i, err, open, up, hist())
			}
			if open {
				open = false
				select {
				case <-closed:
				case <-time.After(2 * time.Second):
					return ev.Failf("close-not-published", "step %d: Close() returned nil but the Closed() channel obtained while open reports nothing (broker reachable: %v)\nhistory: %s", i, up, hist())
				}
			}
		case "isopen":
			if !up {
				continue // during an outage IsOpen also reflects the connection
			}
			if got := tr.IsOpen(); got != open {
				return ev.Failf("isopen-inconsistent", "step %d: IsOpen() = %v with the broker reachable, model says %v\nhistory: %s", i, got, open, hist())
			}
		}
	}
	return nil
}

var c15NatsProp = ev.Prop("c15n.outage", genC15Nats, execC15Nats, func(c c15NatsCase) ev.Class {
	labels := []string{}
	out, during := false, false
	for _, s := range c.Steps {
		if s == "outage" {
			out = true
		}
		if s == "restore" {
			out = false
		}
		if s == "close" && out {
			during = true
		}
	}
	if during {
		labels = append(labels, "close-during-outage")
	}
	return ev.Class{NonTrivial: during, Key: fmt.Sprint(c.Steps), Labels: labels}
}, nil)

func TestC15Nats(t *testing.T) { rapid.Check(t, c15NatsProp) }
