package rt

import (
	"fmt"
	"net"
	"sync"
	"time"

	"github.com/go-stomp/stomp"
	stompserver "github.com/go-stomp/stomp/server"
	natsserver "github.com/nats-io/nats-server/v2/server"
	"github.com/nats-io/nats.go"
)

var (
	natsOnce sync.Once
	natsSrv  *natsserver.Server
	natsErr  error
)

// natsURL starts (once per process) an in-process NATS server on a random port.
func natsURL() (string, error) {
	natsOnce.Do(func() {
		opts := &natsserver.Options{Host: "127.0.0.1", Port: -1, NoLog: true, NoSigs: true, MaxPayload: 1024 * 1024}
		s, err := natsserver.NewServer(opts)
		if err != nil {
			natsErr = err
			return
		}
		go s.Start()
		if !s.ReadyForConnections(10 * time.Second) {
			natsErr = fmt.Errorf("nats server not ready")
			return
		}
		natsSrv = s
	})
	if natsErr != nil {
		return "", natsErr
	}
	return natsSrv.ClientURL(), nil
}

func natsConnect() (*nats.Conn, error) {
	u, err := natsURL()
	if err != nil {
		return nil, err
	}
	return nats.Connect(u, nats.NoReconnect())
}

var (
	stompOnce sync.Once
	stompAddr string
	stompErr  error
)

func stompConnect() (*stomp.Conn, error) {
	stompOnce.Do(func() {
		l, err := net.Listen("tcp", "127.0.0.1:0")
		if err != nil {
			stompErr = err
			return
		}
		stompAddr = l.Addr().String()
		go stompserver.Serve(l)
	})
	if stompErr != nil {
		return nil, stompErr
	}
	c, err := net.Dial("tcp", stompAddr)
	if err != nil {
		return nil, err
	}
	return stomp.Connect(c)
}
