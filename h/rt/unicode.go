package rt

import "unicode"

var unicodeTables = []*unicode.RangeTable{unicode.Latin, unicode.Greek, unicode.Han, unicode.Cyrillic, unicode.So, unicode.Nd}
