package rt

// C15, crash-point leg: a multi-frame inbound stream is cut at EVERY byte
// offset, with EOF and with an I/O error (finite space, enumerated completely).

import (
	"fmt"
	"os"
	"testing"
	"time"

	frugal "github.com/Workiva/frugal/lib/go"
	"verif/ev"
)

type c15CutCase struct {
	Shape  int    `json:"shape"`
	Offset int    `json:"offset"`
	Kind   string `json:"kind"` // eof | ioerr
}

func c15Stream(shape int) (stream []byte, bounds []int) {
	sizes := [][]int{{12, 0, 40}, {0, 0, 0}, {300, 1, 7}, {60, 60, 60, 60}, {1, 2, 3, 4, 5}}[shape%5]
	for i, n := range sizes {
		payload := make([]byte, n)
		for j := range payload {
			payload[j] = byte('a' + (i+j)%26)
		}
		f := refFrame(frameContent([]KV{kv("_opid", fmt.Sprint(uint64(1)<<62+uint64(i))), kv("k", "v")}, payload))
		stream = append(stream, f...)
		bounds = append(bounds, len(stream))
	}
	return
}

func execC15Cut(c c15CutCase) *ev.Failure {
	var f *ev.Failure
	ok, p := within(30*time.Second, func() { f = execC15CutInner(c) })
	if !ok {
		return ev.Failf("hang:c15cut", "cut case did not finish in 30s\n%s", allStacks())
	}
	if p != "" {
		return ev.Failf("panic:c15cut", "%s", p)
	}
	return f
}

func execC15CutInner(c c15CutCase) *ev.Failure {
	stream, _ := c15Stream(c.Shape)
	if c.Offset > len(stream) {
		return nil
	}
	s := &c15Session{c: c15Case{Monitor: true, MaxAttempts: 1, InitialMs: 1, MaxMs: 1}, st: newScriptT()}
	s.tr = frugal.NewAdapterTransport(s.st)
	s.mon = &recMonitor{base: &frugal.BaseFTransportMonitor{MaxReopenAttempts: 1, InitialWait: time.Millisecond, MaxWait: time.Millisecond}}
	s.tr.SetMonitor(s.mon)
	s.monitorActive = true
	defer func() {
		go func() { s.tr.Close() }()
		s.st.cut(eofErr())
	}()
	if err := s.tr.Open(); err != nil {
		return ev.Failf("harness:open", "%v", err)
	}
	s.open = true
	if f := s.refreshClosed(); f != nil {
		return f
	}
	ch := s.closed
	what := fmt.Sprintf("cut(shape %d, offset %d of %d, %s)", c.Shape, c.Offset, len(stream), c.Kind)
	s.logf("%s", what)
	s.st.feed(stream[:c.Offset])
	if c.Kind == "eof" {
		s.st.cut(eofErr())
	} else {
		s.st.cut(errIO)
	}
	if f := s.expectClosePublished(ch, false, c.Kind != "eof", what); f != nil {
		return f
	}
	s.open = false
	evs, f := s.awaitMonitor(what)
	if f != nil {
		return f
	}
	if c.Kind == "eof" {
		if len(evs) != 1 || evs[0].Kind != "cleanly" {
			return ev.Failf("monitor-trace", "%s: monitor events %+v, want [cleanly]", what, evs)
		}
		var err error
		if f := s.call("Open", func() { err = s.tr.Open() }); f != nil {
			return f
		}
		if err != nil {
			return ev.Failf("reopen-failed", "%s: Open after peer EOF failed: %v", what, err)
		}
	} else {
		if len(evs) != 2 || evs[0].Kind != "uncleanly" || evs[0].Cause == "<nil>" || evs[1].Kind != "reopenSucceeded" {
			return ev.Failf("monitor-trace", "%s: monitor events %+v, want [uncleanly(cause) reopenSucceeded]", what, evs)
		}
	}
	s.open = true
	var v bool
	if f := s.call("IsOpen", func() { v = s.tr.IsOpen() }); f != nil {
		return f
	}
	if !v {
		return ev.Failf("isopen-inconsistent", "%s: IsOpen() false after reopen", what)
	}
	if f := s.request(); f != nil {
		return f
	}
	var err error
	if f := s.call("Close", func() { err = s.tr.Close() }); f != nil {
		return f
	}
	if err != nil {
		return ev.Failf("final-close-failed", "%s: Close after reopen failed: %v", what, err)
	}
	return nil
}

func init() {
	ev.Register("c15.cut", func(raw []byte) *ev.Failure {
		var c c15CutCase
		if err := jsonUnmarshal(raw, &c); err != nil {
			return ev.Failf("harness:bad-replay", "%v", err)
		}
		return execC15Cut(c)
	})
}

func TestC15Cut(t *testing.T) {
	shapes := []int{0}
	if os.Getenv("VERIF_TIER") == "thorough" {
		shapes = []int{0, 1, 2, 3, 4}
	}
	for _, sh := range shapes {
		stream, bounds := c15Stream(sh)
		isBound := map[int]bool{0: true}
		for _, b := range bounds {
			isBound[b] = true
		}
		for off := 0; off <= len(stream); off++ {
			for _, kind := range []string{"eof", "ioerr"} {
				c := c15CutCase{Shape: sh, Offset: off, Kind: kind}
				labels := []string{"kind=" + kind, fmt.Sprintf("shape=%d", sh)}
				if isBound[off] {
					labels = append(labels, "between-frames")
				} else {
					labels = append(labels, "inside-frame")
				}
				ev.Record("c15.cut", ev.Class{NonTrivial: !isBound[off], Key: fmt.Sprintf("%+v", c), Labels: labels}, func() interface{} { return c })
				if f := execC15Cut(c); f != nil {
					ev.RecordFailure("c15.cut", f, c)
					t.Fatalf("[c15.cut] %s: %s", f.Sig, f.Msg)
				}
			}
		}
	}
}
