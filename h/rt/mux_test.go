package rt

// Shared executor for C01 (every RPC gets exactly its own response) and C06
// (the inbound path never stalls): a script of caller / responder steps is
// drawn by rapid and interpreted against one client transport (adapter over
// scriptT, or the NATS transport against the in-process broker). With
// Controlled=true the harness owns the two schedule points exported by the
// verif hooks (reader before the channel send, caller before unregister).

import (
	"fmt"
	"io"
	"runtime"
	"strconv"
	"strings"
	"sync"
	"sync/atomic"
	"time"

	frugal "github.com/Workiva/frugal/lib/go"
	"github.com/apache/thrift/lib/go/thrift"
	"github.com/nats-io/nats.go"
	"pgregory.net/rapid"
	"verif/ev"
)

type muxStep struct {
	Op     string `json:"op"`               // start | deliver | await | hold | release | sleep
	Caller int    `json:"caller,omitempty"` // start/await/hold/release: caller slot; deliver: index into target class
	Short  bool   `json:"short,omitempty"`  // start: short timeout (expected to time out unless answered)
	Target string `json:"target,omitempty"` // deliver: inflight | done | timedout | unknown | zero | max | garbage-opid
	Copies int    `json:"copies,omitempty"`
	Who    string `json:"who,omitempty"` // hold/release: reader | caller
	// deliver: Pad extra payload bytes (frames then straddle the reader's buffer boundaries);
	// Split > 0 hands the (adapter) stream the frame in two reads, cut after Split%len bytes
	Pad   int `json:"pad,omitempty"`
	Split int `json:"split,omitempty"`
	// deliver: Decoy > 0 adds response headers that mention ANOTHER request's op id without being
	// the _opid header: 1 = before _opid, a header whose value holds an encoded "_opid=<other>" pair
	// (forwarded baggage); 2 = the same after _opid; 3 = headers named x_opid / _OPID / _opid2 first;
	// 4 = a header whose NAME holds the encoded pair. The frame still belongs to its own request.
	Decoy int `json:"decoy,omitempty"`
}

type muxCase struct {
	Transport  string `json:"transport"` // adapter | nats
	Controlled bool   `json:"controlled"`
	// OneProc runs the session with GOMAXPROCS(1): every goroutine shares one P
	// (per-P caches such as sync.Pool then hand objects from one request to the next)
	OneProc bool      `json:"one_proc,omitempty"`
	Steps   []muxStep `json:"steps"`
}

const (
	muxLong  = 4 * time.Second
	muxShort = 25 * time.Millisecond
)

type muxCaller struct {
	ctx      frugal.FContext
	opid     uint64
	short    bool
	done     chan struct{}
	sent     chan struct{} // closed once the request bytes reached the peer
	resp     []byte
	err      error
	answered int32 // copies delivered while (by the model) in flight
	finished bool  // model: awaited
	held     bool
}

// ---- schedule controller (process global, one session at a time)

type muxController struct {
	mu          sync.Mutex
	holdReader  bool
	readerGate  chan struct{}
	holdCaller  map[uint64]chan struct{}
	readerParks int32
	callerParks int32
}

var curCtl atomic.Value // *muxController

func init() {
	frugal.VerifSetYield(func(point string, opid uint64) {
		c, _ := curCtl.Load().(*muxController)
		if c == nil {
			return
		}
		switch point {
		case "dispatch.beforeSend":
			c.mu.Lock()
			var g chan struct{}
			if c.holdReader {
				g = c.readerGate
			}
			c.mu.Unlock()
			if g != nil {
				atomic.AddInt32(&c.readerParks, 1)
				<-g
			}
		case "request.beforeUnregister":
			c.mu.Lock()
			g := c.holdCaller[opid]
			c.mu.Unlock()
			if g != nil {
				atomic.AddInt32(&c.callerParks, 1)
				<-g
			}
		}
	})
}

func (c *muxController) releaseAll() {
	c.mu.Lock()
	if c.holdReader {
		c.holdReader = false
		close(c.readerGate)
	}
	for k, g := range c.holdCaller {
		close(g)
		delete(c.holdCaller, k)
	}
	c.mu.Unlock()
}

// ---- session

type muxSession struct {
	c        muxCase
	tr       frugal.FTransport
	st       *scriptT   // adapter
	raw      *nats.Conn // nats responder side
	conn     *nats.Conn
	inbox    string
	callers  []*muxCaller
	byOp     sync.Map // opid -> *muxCaller
	ctl      *muxController
	seq      int
	pad      int
	split    int
	decoy    int
	// stallGate != nil: every Write on the stream blocks (the peer does not drain its socket)
	stallGate chan struct{}
	trace    []string
	cleanups []func()
}

func (s *muxSession) logf(f string, a ...interface{}) {
	s.trace = append(s.trace, fmt.Sprintf(f, a...))
}

func newMuxSession(c muxCase) (*muxSession, *ev.Failure) {
	s := &muxSession{c: c, ctl: &muxController{holdCaller: map[uint64]chan struct{}{}}}
	if c.Controlled {
		curCtl.Store(s.ctl)
		s.cleanups = append(s.cleanups, func() { s.ctl.releaseAll(); curCtl.Store((*muxController)(nil)) })
	} else {
		curCtl.Store((*muxController)(nil))
	}
	switch c.Transport {
	case "adapter":
		s.st = newScriptT()
		s.st.onFlush = func(b []byte) { s.noteSent(b) }
		s.tr = frugal.NewAdapterTransport(s.st)
		if err := s.tr.Open(); err != nil {
			return nil, ev.Failf("harness:open", "%v", err)
		}
		s.cleanups = append(s.cleanups, func() { s.st.cut(eofErr()) })
	case "nats":
		var err error
		if s.conn, err = natsConnect(); err != nil {
			return nil, ev.Failf("harness:nats", "%v", err)
		}
		if s.raw, err = natsConnect(); err != nil {
			return nil, ev.Failf("harness:nats", "%v", err)
		}
		subj := fmt.Sprintf("mux.svc.%d", uniq64())
		s.inbox = fmt.Sprintf("_INBOX.mux%d", uniq64())
		sub, _ := s.raw.Subscribe(subj, func(m *nats.Msg) {
			if len(m.Data) > 4 {
				s.noteSent(m.Data)
			}
		})
		s.raw.Flush()
		s.tr = frugal.NewFNatsTransport(s.conn, subj, s.inbox)
		if err := s.tr.Open(); err != nil {
			return nil, ev.Failf("harness:open", "%v", err)
		}
		s.cleanups = append(s.cleanups, func() { sub.Unsubscribe(); s.tr.Close(); s.conn.Close(); s.raw.Close() })
	default:
		return nil, ev.Failf("harness:transport", "unknown transport %q", c.Transport)
	}
	return s, nil
}

func (s *muxSession) close() {
	for i := len(s.cleanups) - 1; i >= 0; i-- {
		s.cleanups[i]()
	}
}

// noteSent is called with each request frame that reached the peer.
func (s *muxSession) noteSent(frame []byte) {
	if len(frame) < 9 {
		return
	}
	pairs, _, err := refDecodeHeaders(frame[4:])
	if err != nil {
		return
	}
	id, err := strconv.ParseUint(pairsToMap(pairs)["_opid"], 10, 64)
	if err != nil {
		return
	}
	if c, ok := s.byOp.Load(id); ok {
		cl := c.(*muxCaller)
		select {
		case <-cl.sent:
		default:
			close(cl.sent)
		}
	}
}

func (s *muxSession) start(short bool) *ev.Failure {
	ctx := frugal.NewFContext("")
	if short {
		ctx.SetTimeout(muxShort)
	} else {
		ctx.SetTimeout(muxLong)
	}
	id, _ := strconv.ParseUint(opidOf(ctx), 10, 64)
	cl := &muxCaller{ctx: ctx, opid: id, short: short, done: make(chan struct{}), sent: make(chan struct{})}
	s.callers = append(s.callers, cl)
	s.byOp.Store(id, cl)
	req := refFrame(frameContent([]KV{kv("_opid", fmt.Sprint(id)), kv("_cid", "c")}, []byte(fmt.Sprintf("request-of-%d", id))))
	go func() {
		defer close(cl.done)
		r, err := s.tr.Request(ctx, req)
		cl.err = err
		if err == nil && r != nil {
			cl.resp, _ = io.ReadAll(r)
		}
	}()
	if s.stallGate != nil {
		// its write blocks with everybody else's; give it a moment to get there
		time.Sleep(2 * time.Millisecond)
		s.logf("start #%d op=%d short=%v (write stalled)", len(s.callers)-1, id, short)
		return nil
	}
	select {
	case <-cl.sent:
	case <-cl.done:
	case <-time.After(3 * time.Second):
		return ev.Failf("request-not-sent", "request of op %d neither reached the peer nor returned within 3s", id)
	}
	s.logf("start #%d op=%d short=%v", len(s.callers)-1, id, short)
	return nil
}

func (s *muxSession) response(opidStr string, nonceOp uint64, copyNo int) []byte {
	s.seq++
	payload := fmt.Sprintf("resp|%d|%d|%d", nonceOp, copyNo, s.seq)
	if s.pad > 0 {
		payload += "|" + strings.Repeat("p", s.pad)
	}
	hdrs := []KV{kv("_opid", opidStr), kv("_cid", "c")}
	if s.decoy > 0 {
		// the op id of some other request (in flight if there is one)
		other := nonceOp + 1
		for _, cl := range s.callers {
			if cl.opid != nonceOp && !cl.isDone() {
				other = cl.opid
				break
			}
		}
		pair := refEncodeHeaders([]KV{kv("_opid", fmt.Sprint(other))})[5:]
		switch s.decoy {
		case 1:
			hdrs = append([]KV{{[]byte("baggage"), pair}}, hdrs...)
		case 2:
			hdrs = append(hdrs, KV{[]byte("baggage"), pair})
		case 3:
			hdrs = append([]KV{kv("x_opid", fmt.Sprint(other)), kv("_OPID", fmt.Sprint(other)), kv("_opid2", fmt.Sprint(other))}, hdrs...)
		default:
			hdrs = append([]KV{{pair, []byte("v")}}, hdrs...)
		}
	}
	return frameContent(hdrs, []byte(payload))
}

func (s *muxSession) feed(opidStr string, content []byte) {
	if s.c.Transport == "adapter" {
		frame := refFrame(content)
		if cut := s.split % len(frame); s.split > 0 && cut > 0 {
			// two reads: the second part follows once the reader has taken the first
			// (or after a moment, if the reader is parked)
			s.st.feed(frame[:cut])
			waitFor(20*time.Millisecond, func() bool { return s.st.pendingIn() == 0 })
			s.st.feed(frame[cut:])
			return
		}
		s.st.feed(frame)
		return
	}
	subjOp := opidStr
	if _, err := strconv.ParseUint(opidStr, 10, 64); err != nil {
		subjOp = "0"
	}
	s.raw.Publish(s.inbox+"."+subjOp, refFrame(content))
}

func (s *muxSession) class(target string) []*muxCaller {
	var out []*muxCaller
	for _, cl := range s.callers {
		fin := cl.isDone()
		switch target {
		case "inflight":
			if !fin && !cl.finished {
				out = append(out, cl)
			}
		case "done":
			if fin && cl.err == nil {
				out = append(out, cl)
			}
		case "timedout":
			if fin && cl.err != nil {
				out = append(out, cl)
			}
		}
	}
	return out
}

func (cl *muxCaller) isDone() bool {
	select {
	case <-cl.done:
		return true
	default:
		return false
	}
}

func (s *muxSession) deliver(st muxStep) {
	s.pad, s.split, s.decoy = st.Pad, st.Split, st.Decoy
	defer func() { s.pad, s.split, s.decoy = 0, 0, 0 }()
	copies := st.Copies
	if copies < 1 {
		copies = 1
	}
	switch st.Target {
	case "inflight", "done", "timedout":
		cls := s.class(st.Target)
		if len(cls) == 0 {
			return
		}
		var cl *muxCaller
		if st.Caller < 0 {
			cl = cls[len(cls)-1] // the most recently started one
		} else {
			cl = cls[st.Caller%len(cls)]
		}
		for i := 0; i < copies; i++ {
			if st.Target == "inflight" && !cl.isDone() {
				atomic.AddInt32(&cl.answered, 1)
			}
			s.feed(fmt.Sprint(cl.opid), s.response(fmt.Sprint(cl.opid), cl.opid, i))
		}
		s.logf("deliver %s op=%d x%d", st.Target, cl.opid, copies)
	case "unknown":
		id := uint64(1<<62) + uint64(st.Caller)
		for i := 0; i < copies; i++ {
			s.feed(fmt.Sprint(id), s.response(fmt.Sprint(id), id, i))
		}
		s.logf("deliver unknown op=%d x%d", id, copies)
	case "zero":
		for i := 0; i < copies; i++ {
			s.feed("0", s.response("0", 0, i))
		}
		s.logf("deliver op=0 x%d", copies)
	case "max":
		for i := 0; i < copies; i++ {
			s.feed("18446744073709551615", s.response("18446744073709551615", ^uint64(0), i))
		}
		s.logf("deliver op=max x%d", copies)
	}
	if s.c.Transport == "nats" {
		s.raw.Flush()
	}
}

func (s *muxSession) resumeWrites() {
	if s.stallGate == nil {
		return
	}
	s.st.mu.Lock()
	s.st.writeBlock = nil
	s.st.mu.Unlock()
	close(s.stallGate)
	s.stallGate = nil
	s.logf("writes resume")
	time.Sleep(2 * time.Millisecond)
}

func (s *muxSession) await(cl *muxCaller, d time.Duration) bool {
	select {
	case <-cl.done:
		cl.finished = true
		return true
	case <-time.After(d):
		return false
	}
}

// checkOutcome applies the per-caller oracle once the caller has returned.
func (s *muxSession) checkOutcome(i int, cl *muxCaller) *ev.Failure {
	if cl.err == nil {
		pairs, n, err := refDecodeHeaders(cl.resp)
		if err != nil {
			return ev.Failf("wrong-frame", "caller #%d (op %d) completed with an undecodable frame: %v", i, cl.opid, err)
		}
		got := pairsToMap(pairs)["_opid"]
		if got != fmt.Sprint(cl.opid) {
			return ev.Failf("wrong-frame", "caller #%d sent op id %d but completed with the frame of op id %s\ntrace:\n%s", i, cl.opid, got, strings.Join(s.trace, "\n"))
		}
		parts := strings.Split(string(cl.resp[n:]), "|")
		if len(parts) < 4 || parts[0] != "resp" || parts[1] != fmt.Sprint(cl.opid) {
			return ev.Failf("wrong-frame", "caller #%d (op %d) completed with payload %q that was built for another request", i, cl.opid, cl.resp[n:])
		}
		if atomic.LoadInt32(&cl.answered) == 0 {
			return ev.Failf("phantom-response", "caller #%d (op %d) completed successfully although no response for it was ever delivered", i, cl.opid)
		}
		return nil
	}
	te, ok := cl.err.(thrift.TTransportException)
	if !ok || te.TypeId() != frugal.TRANSPORT_EXCEPTION_TIMED_OUT {
		return ev.Failf("unexpected-error", "caller #%d (op %d) failed with %T %v", i, cl.opid, cl.err, cl.err)
	}
	if !cl.short && atomic.LoadInt32(&cl.answered) > 0 {
		return ev.Failf("lost-response", "caller #%d (op %d, timeout %v) timed out although its response was delivered %d time(s) while it was in flight\ntrace:\n%s",
			i, cl.opid, muxLong, cl.answered, strings.Join(s.trace, "\n"))
	}
	return nil
}

func execMux(c muxCase) *ev.Failure {
	var f *ev.Failure
	returned, p := within(60*time.Second, func() { f = execMuxInner(c) })
	if !returned {
		curCtl.Store((*muxController)(nil))
		return ev.Failf("hang:mux", "session did not finish within 60s\n%s", allStacks())
	}
	if p != "" {
		return ev.Failf("panic:mux", "%s", p)
	}
	return f
}

func execMuxInner(c muxCase) *ev.Failure {
	if c.OneProc {
		defer runtime.GOMAXPROCS(runtime.GOMAXPROCS(1))
	}
	s, f := newMuxSession(c)
	if f != nil {
		return f
	}
	defer s.close()
	for _, st := range c.Steps {
		switch st.Op {
		case "start":
			if len(s.callers) >= 10 {
				continue
			}
			if f := s.start(st.Short); f != nil {
				return f
			}
		case "deliver":
			s.deliver(st)
		case "stall-writes":
			// from now on the peer does not drain its socket: writes block (reads are unaffected)
			if c.Transport == "adapter" && s.stallGate == nil && len(s.callers) < 9 {
				s.stallGate = make(chan struct{})
				s.st.mu.Lock()
				s.st.writeBlock = s.stallGate
				s.st.mu.Unlock()
				s.logf("writes stall")
				if f := s.start(false); f != nil { // a request stuck in Write
					return f
				}
			}
		case "resume-writes":
			s.resumeWrites()
		case "sleep":
			time.Sleep(time.Duration(1+st.Copies) * time.Millisecond)
		case "await":
			// only callers that are expected to return: short ones, or answered ones
			var cands []*muxCaller
			for _, cl := range s.callers {
				if !cl.finished && !cl.held && (cl.short || atomic.LoadInt32(&cl.answered) > 0) {
					cands = append(cands, cl)
				}
			}
			if c.Controlled && s.ctl.readerHeld() {
				// with the reader parked only callers with a short timeout are sure to return
				var shorts []*muxCaller
				for _, cl := range cands {
					if cl.short {
						shorts = append(shorts, cl)
					}
				}
				cands = shorts
			}
			if len(cands) == 0 {
				continue
			}
			cl := cands[st.Caller%len(cands)]
			lim := 2 * time.Second
			if !s.await(cl, lim) {
				if cl.short {
					return ev.Failf("short-caller-stuck", "caller with %v timeout (op %d) did not return within %v", muxShort, cl.opid, lim)
				}
				return ev.Failf("lost-response", "caller (op %d) whose response was delivered did not return within %v\ntrace:\n%s", cl.opid, lim, strings.Join(s.trace, "\n"))
			}
			s.logf("await op=%d err=%v", cl.opid, cl.err)
		case "await-shorts":
			for _, cl := range s.callers {
				if cl.short && !cl.finished && !cl.held {
					if !s.await(cl, 2*time.Second) {
						return ev.Failf("short-caller-stuck", "caller with %v timeout (op %d) did not return within 2s", muxShort, cl.opid)
					}
					s.logf("await op=%d err=%v", cl.opid, cl.err)
				}
			}
		case "hold":
			if !c.Controlled {
				continue
			}
			s.ctl.mu.Lock()
			if st.Who == "reader" {
				if !s.ctl.holdReader {
					s.ctl.holdReader = true
					s.ctl.readerGate = make(chan struct{})
					s.logf("hold reader")
				}
			} else if cls := s.class("inflight"); len(cls) > 0 {
				cl := cls[st.Caller%len(cls)]
				if s.ctl.holdCaller[cl.opid] == nil {
					s.ctl.holdCaller[cl.opid] = make(chan struct{})
					cl.held = true
					s.logf("hold caller op=%d before unregister", cl.opid)
				}
			}
			s.ctl.mu.Unlock()
		case "release":
			if !c.Controlled {
				continue
			}
			s.ctl.mu.Lock()
			if st.Who == "reader" {
				if s.ctl.holdReader {
					s.ctl.holdReader = false
					close(s.ctl.readerGate)
					s.logf("release reader")
				}
			} else {
				for _, cl := range s.callers {
					if g := s.ctl.holdCaller[cl.opid]; g != nil && cl.held {
						close(g)
						delete(s.ctl.holdCaller, cl.opid)
						cl.held = false
						s.logf("release caller op=%d", cl.opid)
						break
					}
				}
			}
			s.ctl.mu.Unlock()
		}
	}
	// ---- wind-down: release every gate, then the probe (C06) ...
	s.resumeWrites()
	s.ctl.releaseAll()
	for _, cl := range s.callers {
		cl.held = false
	}
	s.logf("probe")
	if f := s.start(false); f != nil {
		return f
	}
	probe := s.callers[len(s.callers)-1]
	t0 := time.Now()
	atomic.AddInt32(&probe.answered, 1)
	s.feed(fmt.Sprint(probe.opid), s.response(fmt.Sprint(probe.opid), probe.opid, 0))
	if s.c.Transport == "nats" {
		s.raw.Flush()
	}
	if !s.await(probe, 3*time.Second) || probe.err != nil {
		return ev.Failf("probe-stalled", "a fresh request issued after the scripted inbound sequence did not get its (delivered) response within 3s: err=%v — the inbound path is stalled\ntrace:\n%s",
			probe.err, strings.Join(s.trace, "\n"))
	}
	probeLatency := time.Since(t0)
	_ = probeLatency
	// ... then answer everything still in flight, and judge every caller.
	for _, cl := range s.callers {
		if !cl.isDone() && !cl.short {
			atomic.AddInt32(&cl.answered, 1)
			s.feed(fmt.Sprint(cl.opid), s.response(fmt.Sprint(cl.opid), cl.opid, 99))
		}
	}
	if s.c.Transport == "nats" {
		s.raw.Flush()
	}
	for i, cl := range s.callers {
		if !s.await(cl, 3*time.Second) {
			return ev.Failf("lost-response", "caller #%d (op %d) did not return within 3s after its response was delivered\ntrace:\n%s", i, cl.opid, strings.Join(s.trace, "\n"))
		}
		if f := s.checkOutcome(i, cl); f != nil {
			return f
		}
	}
	if !waitFor(time.Second, func() bool { return frugal.VerifRegistryLen(s.tr) == 0 }) {
		return ev.Failf("registry-leak", "%d registrations left after every request returned", frugal.VerifRegistryLen(s.tr))
	}
	return nil
}

func (c *muxController) readerHeld() bool {
	c.mu.Lock()
	defer c.mu.Unlock()
	return c.holdReader
}

// ---- generators

func genMuxStep(t *rapid.T, controlled bool, maxCopies int, emphasis string) muxStep {
	ops := []string{"start", "start", "deliver", "deliver", "deliver", "await", "sleep", "stall-writes", "resume-writes"}
	if controlled {
		ops = append(ops, "hold", "release", "hold", "release")
	}
	op := rapid.SampledFrom(ops).Draw(t, "op")
	st := muxStep{Op: op}
	switch op {
	case "start":
		st.Short = rapid.IntRange(0, 4).Draw(t, "short") == 0
	case "deliver":
		targets := []string{"inflight", "inflight", "inflight", "done", "timedout", "unknown", "zero", "max"}
		st.Target = rapid.SampledFrom(targets).Draw(t, "target")
		st.Caller = rapid.IntRange(0, 9).Draw(t, "idx")
		st.Copies = rapid.IntRange(1, maxCopies).Draw(t, "copies")
		if rapid.IntRange(0, 3).Draw(t, "pad?") == 0 {
			st.Pad = rapid.SampledFrom([]int{1, 100, 1000, 4000, 4050, 4060, 4070, 4096, 5000, 9000}).Draw(t, "pad")
		}
		if rapid.IntRange(0, 3).Draw(t, "split?") == 0 {
			st.Split = rapid.SampledFrom([]int{1, 2, 3, 4, 5, 6, 9, 20, 40}).Draw(t, "split")
		}
		if rapid.IntRange(0, 2).Draw(t, "decoy?") == 0 {
			st.Decoy = rapid.IntRange(1, 4).Draw(t, "decoy")
		}
	case "await":
		st.Caller = rapid.IntRange(0, 9).Draw(t, "idx")
	case "sleep":
		st.Copies = rapid.IntRange(0, 3).Draw(t, "ms")
	case "hold", "release":
		st.Who = rapid.SampledFrom([]string{"reader", "caller", "caller"}).Draw(t, "who")
		st.Caller = rapid.IntRange(0, 9).Draw(t, "idx")
	}
	return st
}

func genMux(maxCopies int, emphasis string) func(t *rapid.T) muxCase {
	return func(t *rapid.T) muxCase {
		c := muxCase{}
		c.Transport = rapid.SampledFrom([]string{"adapter", "adapter", "nats"}).Draw(t, "transport")
		c.Controlled = rapid.Bool().Draw(t, "controlled")
		n := rapid.IntRange(2, 30).Draw(t, "nsteps")
		// open with a few concurrent callers so that most scripts multiplex
		k := rapid.IntRange(1, 5).Draw(t, "initial")
		for i := 0; i < k; i++ {
			c.Steps = append(c.Steps, muxStep{Op: "start", Short: rapid.IntRange(0, 5).Draw(t, "short") == 0})
		}
		c.OneProc = rapid.IntRange(0, 3).Draw(t, "oneproc") == 0
		scenarioAt := -1
		if c.Controlled && rapid.IntRange(0, 2).Draw(t, "scenario") == 0 {
			scenarioAt = rapid.IntRange(0, n/2).Draw(t, "scenario.at")
		}
		for i := 0; i < n; i++ {
			if i == scenarioAt {
				// a response that is caught between look-up and hand-over while its request times
				// out and the next request registers: the late frame must reach nobody
				c.Steps = append(c.Steps,
					muxStep{Op: "await-shorts"},
					muxStep{Op: "start", Short: true},
					muxStep{Op: "hold", Who: "reader"},
					muxStep{Op: "deliver", Target: "inflight", Caller: -1, Copies: rapid.IntRange(1, 2).Draw(t, "scenario.copies")},
					muxStep{Op: "await-shorts"})
				for j, k := 0, rapid.IntRange(1, 3).Draw(t, "scenario.next"); j < k; j++ {
					c.Steps = append(c.Steps, muxStep{Op: "start"})
				}
				c.Steps = append(c.Steps, muxStep{Op: "release", Who: "reader"})
			}
			c.Steps = append(c.Steps, genMuxStep(t, c.Controlled, maxCopies, emphasis))
		}
		return c
	}
}

func classifyMux(c muxCase) ev.Class {
	starts, maxCopies, dupTargets := 0, 0, 0
	labels := []string{"transport=" + c.Transport}
	if c.Controlled {
		labels = append(labels, "controlled")
	}
	if c.OneProc {
		labels = append(labels, "gomaxprocs=1")
	}
	for _, st := range c.Steps {
		if st.Op == "deliver" && st.Pad >= 1000 {
			labels = append(labels, "padded-frames")
		}
		if st.Op == "deliver" && st.Decoy > 0 {
			labels = append(labels, "decoy-opid-in-other-header")
		}
		if st.Op == "stall-writes" && c.Transport == "adapter" {
			labels = append(labels, "peer-stops-draining-writes")
		}
		if st.Op == "deliver" && st.Split > 0 && st.Split <= 4 && c.Transport == "adapter" {
			labels = append(labels, "frame-size-prefix-split-across-reads")
		}
	}
	for i, st := range c.Steps {
		if st.Op == "await-shorts" && i > 0 && c.Steps[i-1].Op == "deliver" {
			labels = append(labels, "late-frame-across-timeout-and-next-registration")
		}
	}
	seen := map[string]bool{}
	inflightDeliver := 0
	for _, st := range c.Steps {
		switch st.Op {
		case "start":
			starts++
			if st.Short {
				seen["short-timeout-caller"] = true
			}
		case "deliver":
			if st.Copies > maxCopies {
				maxCopies = st.Copies
			}
			if st.Copies >= 2 {
				dupTargets++
				seen["duplicate"] = true
			}
			if st.Copies >= 3 {
				seen["copies>=3"] = true
			}
			switch st.Target {
			case "unknown", "zero", "max":
				seen["never-issued-opid"] = true
			case "done", "timedout":
				seen["late-response"] = true
			case "inflight":
				inflightDeliver++
				if st.Caller > 0 {
					seen["out-of-order"] = true
				}
			}
		case "hold":
			if c.Controlled {
				seen["hold-"+st.Who] = true
			}
		}
	}
	for k := range seen {
		labels = append(labels, k)
	}
	if starts >= 2 {
		labels = append(labels, "multiplexed")
	}
	nt := starts >= 2 && (seen["out-of-order"] || seen["duplicate"] || seen["late-response"] || seen["never-issued-opid"])
	return ev.Class{NonTrivial: nt, Key: fmt.Sprintf("%+v", c), Labels: uniq(labels)}
}

func sampleMux(c muxCase) interface{} {
	var steps []string
	for _, st := range c.Steps {
		switch st.Op {
		case "start":
			steps = append(steps, fmt.Sprintf("start(short=%v)", st.Short))
		case "deliver":
			steps = append(steps, fmt.Sprintf("deliver(%s[%d] x%d)", st.Target, st.Caller, st.Copies))
		case "await":
			steps = append(steps, fmt.Sprintf("await[%d]", st.Caller))
		case "hold", "release":
			steps = append(steps, fmt.Sprintf("%s(%s)", st.Op, st.Who))
		default:
			steps = append(steps, st.Op)
		}
	}
	return map[string]interface{}{"transport": c.Transport, "controlled": c.Controlled, "steps": strings.Join(steps, " ")}
}
