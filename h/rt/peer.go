package rt

import (
	"bufio"
	"encoding/json"
	"fmt"
	"os"
	"os/exec"
	"sync"
)

const (
	py3 = "/root/.pyenv/versions/3.11.7/bin/python3"
	py2 = "/root/.pyenv/versions/2.7.18/bin/python"
)

// pyPeer is a persistent python subprocess speaking JSON lines.
type pyPeer struct {
	mu  sync.Mutex
	cmd *exec.Cmd
	in  *bufio.Writer
	out *bufio.Reader
}

func verifDir() string {
	if d := os.Getenv("VERIF_DIR"); d != "" {
		return d
	}
	return "/verif"
}

func startPeer(interp, mode string) (*pyPeer, error) {
	cmd := exec.Command(interp, verifDir()+"/py/hdr_peer.py", mode, "/repo")
	stdin, err := cmd.StdinPipe()
	if err != nil {
		return nil, err
	}
	stdout, err := cmd.StdoutPipe()
	if err != nil {
		return nil, err
	}
	cmd.Stderr = os.Stderr
	if err := cmd.Start(); err != nil {
		return nil, err
	}
	return &pyPeer{cmd: cmd, in: bufio.NewWriter(stdin), out: bufio.NewReaderSize(stdout, 1<<20)}, nil
}

func (p *pyPeer) call(req interface{}, resp interface{}) error {
	p.mu.Lock()
	defer p.mu.Unlock()
	b, err := json.Marshal(req)
	if err != nil {
		return err
	}
	if _, err := p.in.Write(append(b, '\n')); err != nil {
		return err
	}
	if err := p.in.Flush(); err != nil {
		return err
	}
	line, err := p.out.ReadBytes('\n')
	if err != nil {
		return fmt.Errorf("peer died: %v", err)
	}
	return json.Unmarshal(line, resp)
}

func (p *pyPeer) stop() {
	p.cmd.Process.Kill()
	p.cmd.Wait()
}
