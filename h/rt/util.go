package rt

import (
	"bytes"
	"encoding/json"
	"fmt"
	"io"
	"log"
	"runtime"
	"time"

	frugal "github.com/Workiva/frugal/lib/go"
	"github.com/sirupsen/logrus"
)

func init() {
	l := logrus.New()
	l.SetOutput(io.Discard)
	l.SetLevel(logrus.PanicLevel)
	frugal.SetLogger(l)
	logrus.SetOutput(io.Discard)
	log.SetOutput(io.Discard) // the embedded STOMP broker logs through the std logger
}

// within runs f and reports whether it returned within d. A panic inside f is
// returned as an error string.
func within(d time.Duration, f func()) (returned bool, panicked string) {
	done := make(chan string, 1)
	go func() {
		defer func() {
			if r := recover(); r != nil {
				buf := make([]byte, 4096)
				n := runtime.Stack(buf, false)
				done <- fmt.Sprintf("panic: %v\n%s", r, buf[:n])
				return
			}
			done <- ""
		}()
		f()
	}()
	select {
	case p := <-done:
		return true, p
	case <-time.After(d):
		return false, ""
	}
}

func allStacks() string {
	buf := make([]byte, 1<<20)
	n := runtime.Stack(buf, true)
	return string(buf[:n])
}

// catch runs f and converts a panic into a string.
func catch(f func()) (p string) {
	defer func() {
		if r := recover(); r != nil {
			buf := make([]byte, 2048)
			n := runtime.Stack(buf, false)
			p = fmt.Sprintf("panic: %v\n%s", r, buf[:n])
		}
	}()
	f()
	return ""
}

func jsonUnmarshal(raw []byte, v interface{}) error { return json.Unmarshal(raw, v) }

func bytesBuf(b []byte) *bytes.Buffer { return bytes.NewBuffer(append([]byte{}, b...)) }
