package rt

// Native (coverage-guided) fuzz targets, thorough tier only. The oracle is the one of the
// rapid property of the same name; the engine, not rapid, chooses the bytes.

import (
	"fmt"
	"strings"

	frugal "github.com/Workiva/frugal/lib/go"
	"github.com/apache/thrift/lib/go/thrift"
	"encoding/binary"
	"testing"

	"verif/ev"
)

var fuzzProtos = []string{"binary", "compact", "json"}

// FuzzC05Sync: arbitrary bytes at every synchronous receiving entry point (c05.sync's oracle:
// returns within the watchdog, no panic).
func FuzzC05Sync(f *testing.F) {
	for ei, e := range c05SyncEntries {
		for pi, p := range fuzzProtos {
			data, offs := c05Valid(e, p, 7, []KV{kv("h0", "abc")}, "hello")
			f.Add(uint8(ei), uint8(pi), uint8(0), data)
			for _, off := range offs {
				for _, v := range []uint32{0xffffffff, 0x7fffffff, 0x80000000, uint32(len(data))} {
					d := append([]byte{}, data...)
					binary.BigEndian.PutUint32(d[off:], v)
					f.Add(uint8(ei), uint8(pi), uint8(1), d)
				}
			}
		}
	}
	f.Add(uint8(0), uint8(0), uint8(0), []byte{})
	// hostile constants of the message layer: method names that are not text, around the lengths
	// at which replies truncate them
	for ei, e := range c05SyncEntries {
		if c05IsResponse(e) || e == "readHeader" || e == "headersFromFrame" {
			continue
		}
		for pi, p := range fuzzProtos {
			for _, n := range []int{255, 257, 300} {
				for _, fill := range []string{"\x80", "\xff", "\xe2\x82"} {
					v := "x"
					name := strings.Repeat(fill, n/len(fill)+1)[:n]
					data := frameContent([]KV{kv("_opid", "7"), kv("_cid", "c")}, thriftMessage(p, name, thrift.CALL, &strStruct{Name: "x_args", ID: 1, V: &v}))
					if c05Framed(e) {
						data = refFrame(data)
					}
					f.Add(uint8(ei), uint8(pi), uint8(0), data)
				}
			}
		}
	}
	subjects := []string{"inbox.7", "inbox.", "inbox", "", ".", "inbox.99999999999999999999999", "inbox.-1"}
	statuses := []string{"", "", "503", "404", "x"}
	f.Fuzz(func(t *testing.T, ei, pi, aux uint8, data []byte) {
		if len(data) > 1<<16 {
			return
		}
		c := c05Case{Entry: c05SyncEntries[int(ei)%len(c05SyncEntries)], Proto: fuzzProtos[int(pi)%len(fuzzProtos)], Data: data, Desc: "native fuzz"}
		switch c.Entry {
		case "http":
			c.Raw = aux&1 == 1
		case "nats.client":
			c.Subj = subjects[int(aux)%len(subjects)]
			c.Hdr = statuses[int(aux/8)%len(statuses)]
		}
		if fl := ev.FuzzCase("c05.sync", c, execC05Sync); fl != nil {
			t.Fatalf("[c05.sync] %s: %s", fl.Sig, fl.Msg)
		}
	})
}

// ---- C04: decoder differential on engine-chosen bytes ------------------------------

type c04DecCase struct {
	Data []byte `json:"data"`
}

// checkC04Decode: whenever the reference decoder (written from protocol.md) accepts a byte
// string as header block + payload with distinct names, the runtime's stream reader and frame
// reader must return exactly that map, and the stream reader must leave exactly the payload.
func checkC04Decode(c c04DecCase) *ev.Failure {
	pairs, n, err := refDecodeHeaders(c.Data)
	if err != nil {
		return nil // not a conforming block: C05's business
	}
	seen := map[string]bool{}
	for _, p := range pairs {
		if seen[string(p.K)] {
			return nil // a map cannot carry duplicate names; which one wins is not documented
		}
		seen[string(p.K)] = true
	}
	want := pairsToMap(pairs)
	r := bytesBuf(c.Data)
	got, rerr := frugal.VerifReadHeader(r)
	if rerr != nil {
		return ev.Failf("stream-reader-rejects-conforming-block", "readHeader: %v on % x", rerr, head(c.Data))
	}
	if !mapsEqual(got, want) {
		return ev.Failf("stream-reader-differs", "readHeader returned %v, documented layout says %v (% x)", got, want, head(c.Data))
	}
	if r.Len() != len(c.Data)-n {
		return ev.Failf("stream-reader-consumed", "readHeader left %d bytes, the payload has %d", r.Len(), len(c.Data)-n)
	}
	got2, ferr := frugal.VerifGetHeadersFromFrame(c.Data)
	if ferr != nil {
		return ev.Failf("frame-reader-rejects-conforming-block", "getHeadersFromFrame: %v on % x", ferr, head(c.Data))
	}
	if !mapsEqual(got2, want) {
		return ev.Failf("frame-reader-differs", "getHeadersFromFrame returned %v, documented layout says %v (% x)", got2, want, head(c.Data))
	}
	// a header added to the complete frame arrives next to the ones it already had
	if p := catch(func() {
		nf, err := frugal.VerifAddHeadersToFrame(refFrame(c.Data), map[string]string{"added-by-fuzz": "v"})
		if err != nil {
			panic(fmt.Sprintf("addHeadersToFrame: %v", err))
		}
		got3, _, derr := refDecodeHeaders(nf[4:])
		merged := pairsToMap(pairs)
		merged["added-by-fuzz"] = "v"
		if derr != nil || !mapsEqual(pairsToMap(got3), merged) {
			panic(fmt.Sprintf("addHeadersToFrame result decodes to %v (%v), want %v", pairsToMap(got3), derr, merged))
		}
	}); p != "" {
		return ev.Failf("add-headers", "%s (% x)", p, head(c.Data))
	}
	// and back: marshalling the decoded map yields a block the reference decodes to the same map
	back, _, berr := refDecodeHeaders(frugal.VerifMarshalHeaders(got))
	if berr != nil || !mapsEqual(pairsToMap(back), want) {
		return ev.Failf("re-encode-differs", "marshalHeaders(readHeader(b)) does not decode to the same map: %v %v", berr, pairsToMap(back))
	}
	return nil
}

func init() {
	ev.Register("c04.decode", func(raw []byte) *ev.Failure {
		var c c04DecCase
		if err := jsonUnmarshal(raw, &c); err != nil {
			return ev.Failf("harness:bad-replay", "%v", err)
		}
		return checkC04Decode(c)
	})
}

func FuzzC04Decode(f *testing.F) {
	f.Add(refEncodeHeaders(nil))
	f.Add(append(refEncodeHeaders([]KV{kv("_opid", "7"), kv("_cid", "abc"), kv("", ""), kv("k", "")}), "payload"...))
	f.Add(append(refEncodeHeaders([]KV{kv("héllo", "wörld"), kv("\x00", "\xff\xfe")}), 0, 0, 0, 0))
	f.Fuzz(func(t *testing.T, data []byte) {
		if len(data) > 1<<16 {
			return
		}
		if fl := ev.FuzzCase("c04.decode", c04DecCase{Data: data}, checkC04Decode); fl != nil {
			t.Fatalf("[c04.decode] %s: %s", fl.Sig, fl.Msg)
		}
	})
}
