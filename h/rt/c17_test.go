package rt

// C17 — op ids are unique and FContexts are safe to share and clone.
// Built with -race (GORACE=halt_on_error=1): a data race kills the process and
// the driver attributes it to the pending case.

import (
	"bytes"
	"fmt"
	"sort"
	"strconv"
	"sync"
	"testing"
	"time"

	frugal "github.com/Workiva/frugal/lib/go"
	"github.com/apache/thrift/lib/go/thrift"
	"pgregory.net/rapid"
	"verif/ev"
)

// foreignCtx is an FContext implementation that is not FContextImpl and has no
// ephemeral properties (exercises frugal.Clone's generic path). Like
// FContextImpl, its getters return copies.
type foreignCtx struct {
	mu   sync.Mutex
	req  map[string]string
	resp map[string]string
}

func newForeignCtx() *foreignCtx {
	base := frugal.NewFContext("")
	return &foreignCtx{req: base.RequestHeaders(), resp: map[string]string{}}
}
func (c *foreignCtx) CorrelationID() string { c.mu.Lock(); defer c.mu.Unlock(); return c.req["_cid"] }
func (c *foreignCtx) AddRequestHeader(k, v string) frugal.FContext {
	c.mu.Lock()
	c.req[k] = v
	c.mu.Unlock()
	return c
}
func (c *foreignCtx) RequestHeader(k string) (string, bool) {
	c.mu.Lock()
	defer c.mu.Unlock()
	v, ok := c.req[k]
	return v, ok
}
func (c *foreignCtx) RequestHeaders() map[string]string {
	c.mu.Lock()
	defer c.mu.Unlock()
	m := map[string]string{}
	for k, v := range c.req {
		m[k] = v
	}
	return m
}
func (c *foreignCtx) AddResponseHeader(k, v string) frugal.FContext {
	c.mu.Lock()
	c.resp[k] = v
	c.mu.Unlock()
	return c
}
func (c *foreignCtx) ResponseHeader(k string) (string, bool) {
	c.mu.Lock()
	defer c.mu.Unlock()
	v, ok := c.resp[k]
	return v, ok
}
func (c *foreignCtx) ResponseHeaders() map[string]string {
	c.mu.Lock()
	defer c.mu.Unlock()
	m := map[string]string{}
	for k, v := range c.resp {
		m[k] = v
	}
	return m
}
func (c *foreignCtx) SetTimeout(d time.Duration) frugal.FContext {
	return c.AddRequestHeader("_timeout", strconv.FormatInt(int64(d/time.Millisecond), 10))
}
func (c *foreignCtx) Timeout() time.Duration {
	v, _ := c.RequestHeader("_timeout")
	n, _ := strconv.ParseInt(v, 10, 64)
	return time.Duration(n) * time.Millisecond
}

// ---- concurrent leg

type c17Op struct {
	Kind string `json:"kind"`
	K    string `json:"k,omitempty"`
	V    string `json:"v,omitempty"`
}

type c17Case struct {
	Ops [][]c17Op `json:"ops"` // one list per goroutine
}

var c17Kinds = []string{"new", "clone", "cloneFn", "cloneForeign", "cloneShared", "received", "addHeader", "addResponse", "readHeaders", "readOne", "setTimeout", "timeout", "addEphemeral", "readEphemeral", "cid", "decodeResponse", "encodeRequest", "encodeResponse"}

func genC17(t *rapid.T) c17Case {
	g := rapid.IntRange(2, 32).Draw(t, "goroutines")
	c := c17Case{}
	for i := 0; i < g; i++ {
		n := rapid.IntRange(1, 30).Draw(t, "nops")
		var ops []c17Op
		for j := 0; j < n; j++ {
			op := c17Op{Kind: rapid.SampledFrom(c17Kinds).Draw(t, "kind")}
			switch op.Kind {
			case "addHeader", "addResponse", "addEphemeral", "decodeResponse":
				op.K = fmt.Sprintf("g%d-%d", i, j)
				op.V = rapid.StringMatching(`[a-zé]{0,6}`).Draw(t, "v")
			case "readOne":
				op.K = fmt.Sprintf("g%d-%d", rapid.IntRange(0, g-1).Draw(t, "gi"), rapid.IntRange(0, 29).Draw(t, "ji"))
			}
			ops = append(ops, op)
		}
		c.Ops = append(c.Ops, ops)
	}
	return c
}

func classifyC17(c c17Case) ev.Class {
	kinds := map[string]bool{}
	n := 0
	for _, ops := range c.Ops {
		for _, o := range ops {
			kinds[o.Kind] = true
			n++
		}
	}
	var labels []string
	for k := range kinds {
		labels = append(labels, "op="+k)
	}
	labels = append(labels, "goroutines="+bucket(len(c.Ops)))
	return ev.Class{NonTrivial: len(c.Ops) >= 4 && len(kinds) >= 2, Key: fmt.Sprintf("%+v", c), Labels: uniq(labels)}
}

var (
	allOpIDs   = map[string]string{} // opid -> where it was produced (whole process)
	allOpIDsMu sync.Mutex
)

func execC17(c c17Case) *ev.Failure {
	var f *ev.Failure
	ok, p := within(60*time.Second, func() { f = execC17Inner(c) })
	if !ok {
		return ev.Failf("hang:c17", "did not finish in 60s\n%s", allStacks())
	}
	if p != "" {
		return ev.Failf("panic:c17", "%s", p)
	}
	return f
}

func execC17Inner(c c17Case) *ev.Failure {
	shared := frugal.NewFContext("shared-cid")
	sharedW := shared.(frugal.FContextWithEphemeralProperties)
	type rec struct{ id, where string }
	ids := make([][]rec, len(c.Ops))
	fails := make([]*ev.Failure, len(c.Ops))
	ids0, _ := shared.RequestHeader("_opid")
	var wg sync.WaitGroup
	start := make(chan struct{})
	for g := range c.Ops {
		wg.Add(1)
		go func(g int) {
			defer wg.Done()
			<-start
			own := frugal.NewFContext(fmt.Sprintf("cid-%d", g))
			note := func(ctx frugal.FContext, where string) {
				id, ok := ctx.RequestHeader("_opid")
				if !ok {
					fails[g] = ev.Failf("missing-opid", "%s produced a context without _opid", where)
					return
				}
				ids[g] = append(ids[g], rec{id, where})
			}
			note(own, "NewFContext")
			for _, op := range c.Ops[g] {
				switch op.Kind {
				case "new":
					own = frugal.NewFContext("")
					note(own, "NewFContext")
				case "clone":
					cl := own.(frugal.FContextWithEphemeralProperties).Clone()
					note(cl, "FContextImpl.Clone")
					own = cl
				case "cloneFn":
					note(frugal.Clone(own), "frugal.Clone(FContextImpl)")
				case "cloneForeign":
					fc := newForeignCtx()
					note(fc, "foreign(NewFContext)")
					note(frugal.Clone(fc), "frugal.Clone(foreign)")
				case "cloneShared":
					note(sharedW.Clone(), "shared.Clone")
				case "received":
					wire := refEncodeHeaders([]KV{kv("_opid", "77"), kv("_cid", "x"), kv("u", "v")})
					rc, err := pf.GetProtocol(&thrift.TMemoryBuffer{Buffer: bytes.NewBuffer(wire)}).ReadRequestHeader()
					if err != nil {
						fails[g] = ev.Failf("harness:read", "%v", err)
						return
					}
					note(rc, "ReadRequestHeader")
				case "addHeader":
					shared.AddRequestHeader(op.K, op.V)
				case "addResponse":
					shared.AddResponseHeader(op.K, op.V)
				case "decodeResponse":
					// a response frame is decoded into the shared context (what a client does when a reply arrives)
					wire := refEncodeHeaders([]KV{kv("_opid", ids0), kv(op.K, op.V)})
					if err := pf.GetProtocol(&thrift.TMemoryBuffer{Buffer: bytes.NewBuffer(wire)}).ReadResponseHeader(shared); err != nil {
						fails[g] = ev.Failf("harness:read", "%v", err)
						return
					}
				case "encodeRequest", "encodeResponse":
					// the shared context is serialised (what a call / a reply does) while others change it
					buf := thrift.NewTMemoryBuffer()
					var err error
					if op.Kind == "encodeRequest" {
						err = pf.GetProtocol(buf).WriteRequestHeader(shared)
					} else {
						err = pf.GetProtocol(buf).WriteResponseHeader(shared)
					}
					if err != nil {
						fails[g] = ev.Failf("harness:write", "%v", err)
						return
					}
					if _, _, derr := refDecodeHeaders(buf.Bytes()); derr != nil {
						fails[g] = ev.Failf("torn-header-block", "headers of the shared context serialised while other goroutines add headers do not decode: %v", derr)
						return
					}
				case "readHeaders":
					for k, v := range shared.RequestHeaders() {
						_, _ = k, v
					}
					for k, v := range shared.ResponseHeaders() {
						_, _ = k, v
					}
				case "readOne":
					shared.RequestHeader(op.K)
					shared.ResponseHeader(op.K)
				case "setTimeout":
					shared.SetTimeout(time.Duration(1+g) * time.Second)
				case "timeout":
					shared.Timeout()
				case "addEphemeral":
					sharedW.AddEphemeralProperty(op.K, op.V)
				case "readEphemeral":
					sharedW.EphemeralProperties()
					sharedW.EphemeralProperty(op.K)
				case "cid":
					if shared.CorrelationID() != "shared-cid" {
						fails[g] = ev.Failf("cid-corrupted", "shared correlation id changed")
						return
					}
				}
			}
		}(g)
	}
	close(start)
	wg.Wait()
	for _, f := range fails {
		if f != nil {
			return f
		}
	}
	// op ids: pairwise distinct across the whole process
	allOpIDsMu.Lock()
	defer allOpIDsMu.Unlock()
	if w, dup := allOpIDs[ids0]; dup {
		return ev.Failf("duplicate-opid", "op id %s handed out twice: shared NewFContext and %s", ids0, w)
	}
	allOpIDs[ids0] = "shared NewFContext"
	for g := range ids {
		for _, r := range ids[g] {
			if w, dup := allOpIDs[r.id]; dup {
				return ev.Failf("duplicate-opid", "op id %s handed out twice: by %s (goroutine %d) and by %s", r.id, r.where, g, w)
			}
			allOpIDs[r.id] = fmt.Sprintf("%s (goroutine %d)", r.where, g)
		}
	}
	// the shared context holds exactly the union of the writes
	wantReq := map[string]string{}
	wantResp := map[string]string{}
	wantEph := map[string]string{}
	for _, ops := range c.Ops {
		for _, op := range ops {
			switch op.Kind {
			case "addHeader":
				wantReq[op.K] = op.V
			case "addResponse", "decodeResponse":
				wantResp[op.K] = op.V
			case "addEphemeral":
				wantEph[op.K] = op.V
			}
		}
	}
	gotReq := shared.RequestHeaders()
	for k, v := range wantReq {
		if gotReq[k] != v {
			return ev.Failf("lost-write", "request header %q = %q after concurrent writes, want %q", k, gotReq[k], v)
		}
	}
	if len(gotReq) != len(wantReq)+3 {
		return ev.Failf("header-count", "shared context has %d request headers, want %d (+_cid,_opid,_timeout)", len(gotReq), len(wantReq))
	}
	if id, _ := shared.RequestHeader("_opid"); id != ids0 {
		return ev.Failf("opid-changed", "shared context's op id changed from %s to %s", ids0, id)
	}
	gotResp := shared.ResponseHeaders()
	if !mapsEqual(gotResp, wantResp) {
		return ev.Failf("lost-write", "response headers %v, want %v", gotResp, wantResp)
	}
	gotEph := sharedW.EphemeralProperties()
	if len(gotEph) != len(wantEph) {
		return ev.Failf("lost-write", "ephemeral properties %v, want %v", gotEph, wantEph)
	}
	for k, v := range wantEph {
		if gotEph[k] != v {
			return ev.Failf("lost-write", "ephemeral property %q = %v, want %q", k, gotEph[k], v)
		}
	}
	return nil
}

var c17ConcProp = ev.Prop("c17.concurrent", genC17, execC17, classifyC17, func(c c17Case) interface{} {
	out := map[string]interface{}{"goroutines": len(c.Ops)}
	if len(c.Ops) > 0 {
		var ks []string
		for _, o := range c.Ops[0] {
			ks = append(ks, o.Kind)
		}
		out["goroutine0"] = ks
	}
	return out
})

func TestC17Concurrent(t *testing.T) { rapid.Check(t, c17ConcProp) }

// ---- clone independence (sequential state machine over a family of contexts)

type c17CloneStep struct {
	Op     string `json:"op"`     // clone | cloneFn | reqHeader | respHeader | timeout | ephemeral
	Target int    `json:"target"` // index into the family
	K      string `json:"k,omitempty"`
	V      string `json:"v,omitempty"`
	Ms     int    `json:"ms,omitempty"`
	Us int `json:"us,omitempty"` // timeout: extra microseconds (not a whole number of milliseconds)
}

type c17CloneCase struct {
	Root  string         `json:"root"` // impl | received | foreign
	Steps []c17CloneStep `json:"steps"`
}

type ctxModel struct {
	req, resp map[string]string
	eph       map[string]string
	timeoutMs int64
	opid      string
	hasEph    bool
}

func copyMap(m map[string]string) map[string]string {
	o := map[string]string{}
	for k, v := range m {
		o[k] = v
	}
	return o
}

func genC17Clone(t *rapid.T) c17CloneCase {
	c := c17CloneCase{Root: rapid.SampledFrom([]string{"impl", "impl", "received", "foreign"}).Draw(t, "root")}
	n := rapid.IntRange(1, 25).Draw(t, "n")
	keys := []string{"a", "b", "c", "_cid", "é"}
	for i := 0; i < n; i++ {
		st := c17CloneStep{Op: rapid.SampledFrom([]string{"clone", "cloneFn", "reqHeader", "reqHeader", "respHeader", "timeout", "ephemeral", "siblingEphemeral"}).Draw(t, "op")}
		st.Target = rapid.IntRange(0, 7).Draw(t, "target")
		switch st.Op {
		case "reqHeader", "respHeader", "ephemeral", "siblingEphemeral":
			st.K = rapid.SampledFrom(keys).Draw(t, "k")
			st.V = rapid.StringMatching(`[a-z]{0,5}`).Draw(t, "v")
		case "timeout":
			st.Ms = rapid.IntRange(1, 100000).Draw(t, "ms")
			if rapid.Bool().Draw(t, "fractional") {
				st.Us = rapid.IntRange(1, 999).Draw(t, "us")
			}
		}
		c.Steps = append(c.Steps, st)
	}
	return c
}

func classifyC17Clone(c c17CloneCase) ev.Class {
	clones, muts := 0, 0
	labels := []string{"root=" + c.Root}
	for _, s := range c.Steps {
		if s.Op == "clone" || s.Op == "cloneFn" {
			clones++
			if clones >= 2 {
				labels = append(labels, "clone-of-clone-or-sibling")
			}
		} else {
			muts++
			if clones > 0 {
				labels = append(labels, "mutation-after-clone:"+s.Op)
			}
		}
	}
	return ev.Class{NonTrivial: clones >= 1 && muts >= 1, Key: fmt.Sprintf("%+v", c), Labels: uniq(labels)}
}

func execC17Clone(c c17CloneCase) *ev.Failure {
	var ctxs []frugal.FContext
	var models []*ctxModel
	var root frugal.FContext
	var rbuf *thrift.TMemoryBuffer // received root: the connection's protocol, reused for later requests
	var rprot *frugal.FProtocol
	switch c.Root {
	case "impl":
		root = frugal.NewFContext("root-cid")
	case "foreign":
		fc := newForeignCtx()
		fc.AddRequestHeader("_cid", "root-cid")
		root = fc
	case "received":
		wire := refEncodeHeaders([]KV{kv("_opid", "5"), kv("_cid", "root-cid"), kv("_timeout", "5000"), kv("u", "v")})
		rbuf = &thrift.TMemoryBuffer{Buffer: bytes.NewBuffer(wire)}
		rprot = pf.GetProtocol(rbuf)
		rc, err := rprot.ReadRequestHeader()
		if err != nil {
			return ev.Failf("harness:read", "%v", err)
		}
		root = rc
	}
	_, hasEph := root.(frugal.FContextWithEphemeralProperties)
	rm := &ctxModel{req: root.RequestHeaders(), resp: root.ResponseHeaders(), eph: map[string]string{}, hasEph: hasEph}
	rm.opid = rm.req["_opid"]
	delete(rm.req, "_opid")
	ctxs, models = append(ctxs, root), append(models, rm)

	verify := func(step string) *ev.Failure {
		seen := map[string]int{}
		for i, ctx := range ctxs {
			m := models[i]
			req := ctx.RequestHeaders()
			id := req["_opid"]
			delete(req, "_opid")
			if id != m.opid {
				return ev.Failf("opid-changed", "after %s: context #%d op id %q, was %q", step, i, id, m.opid)
			}
			if j, dup := seen[id]; dup {
				return ev.Failf("duplicate-opid", "after %s: contexts #%d and #%d share op id %s", step, j, i, id)
			}
			seen[id] = i
			if !mapsEqual(req, m.req) {
				return ev.Failf("clone-not-independent", "after %s: context #%d request headers %v, model %v", step, i, req, m.req)
			}
			if resp := ctx.ResponseHeaders(); !mapsEqual(resp, m.resp) {
				return ev.Failf("clone-not-independent", "after %s: context #%d response headers %v, model %v", step, i, resp, m.resp)
			}
			if w, ok := ctx.(frugal.FContextWithEphemeralProperties); ok && m.hasEph {
				eph := w.EphemeralProperties()
				if len(eph) != len(m.eph) {
					return ev.Failf("clone-not-independent", "after %s: context #%d ephemeral properties %v, model %v", step, i, eph, m.eph)
				}
				for k, v := range m.eph {
					if eph[k] != v {
						return ev.Failf("clone-not-independent", "after %s: context #%d ephemeral %q=%v, model %q", step, i, k, eph[k], v)
					}
				}
			}
		}
		return nil
	}
	if f := verify("start"); f != nil {
		return f
	}
	for n, st := range c.Steps {
		i := st.Target % len(ctxs)
		ctx, m := ctxs[i], models[i]
		step := fmt.Sprintf("step %d %s(#%d)", n, st.Op, i)
		switch st.Op {
		case "clone", "cloneFn":
			if len(ctxs) >= 8 {
				continue
			}
			var cl frugal.FContext
			if w, ok := ctx.(frugal.FContextWithEphemeralProperties); ok && st.Op == "clone" {
				cl = w.Clone()
			} else {
				cl = frugal.Clone(ctx)
			}
			cm := &ctxModel{req: copyMap(m.req), resp: copyMap(m.resp), eph: map[string]string{}}
			_, cm.hasEph = cl.(frugal.FContextWithEphemeralProperties)
			if m.hasEph {
				cm.eph = copyMap(m.eph)
			}
			cm.opid, _ = cl.RequestHeader("_opid")
			if cm.opid == m.opid {
				return ev.Failf("clone-same-opid", "%s: the clone kept the parent's op id %s", step, m.opid)
			}
			if cl.Timeout() != ctx.Timeout() {
				return ev.Failf("clone-timeout", "%s: clone timeout %v, parent %v", step, cl.Timeout(), ctx.Timeout())
			}
			ctxs, models = append(ctxs, cl), append(models, cm)
		case "reqHeader":
			ctx.AddRequestHeader(st.K, st.V)
			m.req[st.K] = st.V
		case "respHeader":
			ctx.AddResponseHeader(st.K, st.V)
			m.resp[st.K] = st.V
		case "timeout":
			ctx.SetTimeout(time.Duration(st.Ms)*time.Millisecond + time.Duration(st.Us)*time.Microsecond)
			m.req["_timeout"] = strconv.Itoa(st.Ms) // the header carries whole milliseconds
		case "siblingEphemeral":
			// the next request on the same connection (same FProtocol) sets an ephemeral property:
			// the contexts of one connection share that map by design, clones made earlier do not
			if rprot == nil {
				continue
			}
			rbuf.Write(refEncodeHeaders([]KV{kv("_opid", "6"), kv("_cid", "next-cid")}))
			sib, err := rprot.ReadRequestHeader()
			if err != nil {
				return ev.Failf("harness:read", "%v", err)
			}
			sib.(frugal.FContextWithEphemeralProperties).AddEphemeralProperty(st.K, st.V)
			models[0].eph[st.K] = st.V // the root received context lives on that connection
		case "ephemeral":
			if w, ok := ctx.(frugal.FContextWithEphemeralProperties); ok && m.hasEph {
				w.AddEphemeralProperty(st.K, st.V)
				m.eph[st.K] = st.V
			}
		}
		if f := verify(step); f != nil {
			return f
		}
	}
	return nil
}

var c17CloneProp = ev.Prop("c17.clone", genC17Clone, execC17Clone, classifyC17Clone, func(c c17CloneCase) interface{} {
	var s []string
	for _, st := range c.Steps {
		s = append(s, fmt.Sprintf("%s(#%d)", st.Op, st.Target))
	}
	sort.Strings(s[:0])
	return map[string]interface{}{"root": c.Root, "steps": s}
})

func TestC17Clone(t *testing.T) { rapid.Check(t, c17CloneProp) }
