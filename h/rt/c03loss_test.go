package rt

// C03, connection loss over HTTP: "the handler is invoked exactly once" also when the server
// runs the handler and the connection then dies before any byte of the response: the client must
// report a failure, and nothing on the way may send the request a second time.

import (
	"fmt"
	"net/http"
	"net/http/httptest"
	"sync"
	"testing"
	"time"

	frugal "github.com/Workiva/frugal/lib/go"
	"pgregory.net/rapid"
	"verif/ev"
)

type c03LossCase struct {
	Proto  string `json:"proto"`
	Calls  int    `json:"calls"`  // sequential calls on one client (keep-alive connection reused)
	Dies   []int  `json:"dies"`   // indices of calls whose connection is lost after the handler ran
	Header bool   `json:"header"` // the application adds request headers to the FContext
}

func genC03Loss(t *rapid.T) c03LossCase {
	c := c03LossCase{Proto: rapid.SampledFrom([]string{"binary", "compact", "json"}).Draw(t, "proto")}
	c.Calls = rapid.IntRange(2, 6).Draw(t, "calls")
	for i := 1; i < c.Calls; i++ {
		if rapid.IntRange(0, 2).Draw(t, "dies") == 0 {
			c.Dies = append(c.Dies, i)
		}
	}
	if len(c.Dies) == 0 {
		c.Dies = []int{c.Calls - 1}
	}
	c.Header = rapid.Bool().Draw(t, "header")
	return c
}

func execC03Loss(c c03LossCase) *ev.Failure {
	var f *ev.Failure
	ok, p := within(60*time.Second, func() { f = execC03LossInner(c) })
	if !ok {
		return ev.Failf("hang:c03loss", "case did not finish in 60s\n%s", allStacks())
	}
	if p != "" {
		return ev.Failf("panic:c03loss", "%s", p)
	}
	return f
}

func execC03LossInner(c c03LossCase) *ev.Failure {
	pf := fpf(c.Proto)
	var mu sync.Mutex
	seen := map[string]int{}
	h := &svcHandler{
		echo: func(ctx frugal.FContext, v string) (string, error) {
			mu.Lock()
			seen[v]++
			mu.Unlock()
			return "echo:" + v, nil
		},
		fire: func(ctx frugal.FContext, v string) error { return nil },
	}
	inner := frugal.NewFrugalHandlerFunc(newSvcProcessor(h), pf)
	dies := map[int]bool{}
	for _, d := range c.Dies {
		dies[d] = true
	}
	current := -1 // index of the call being made (calls are sequential)
	ts := httptest.NewServer(http.HandlerFunc(func(w http.ResponseWriter, r *http.Request) {
		mu.Lock()
		die := dies[current]
		mu.Unlock()
		if !die {
			inner(w, r)
			return
		}
		// run the handler, then lose the connection before the first byte of the response
		inner(httptest.NewRecorder(), r)
		if hj, ok := w.(http.Hijacker); ok {
			if conn, _, err := hj.Hijack(); err == nil {
				conn.Close()
			}
		}
	}))
	defer ts.Close()
	tr := frugal.NewFHTTPTransportBuilder(&http.Client{Timeout: 10 * time.Second}, ts.URL).Build()
	if err := tr.Open(); err != nil {
		return ev.Failf("harness:open", "%v", err)
	}
	defer tr.Close()
	cl := newSvcClient(frugal.NewFServiceProvider(tr, pf))
	for i := 0; i < c.Calls; i++ {
		mu.Lock()
		current = i
		mu.Unlock()
		v := fmt.Sprintf("call-%d", i)
		ctx := frugal.NewFContext("").SetTimeout(5 * time.Second)
		if c.Header {
			ctx.AddRequestHeader("app-header", v)
		}
		r, err := cl.Echo(ctx, v)
		mu.Lock()
		n := seen[v]
		mu.Unlock()
		where := fmt.Sprintf("http/%s call %d of %d (connection lost after the handler ran: %v)", c.Proto, i, c.Calls, dies[i])
		if n != 1 {
			return ev.Failf("handler-count", "%s: the handler ran %d times for one call (caller got %q, %v)", where, n, r, err)
		}
		if dies[i] {
			if err == nil {
				return ev.Failf("lost-reply-reported-as-success", "%s: caller got %q without an error", where, r)
			}
		} else if err != nil || r != "echo:"+v {
			return ev.Failf("call-failed", "%s: %q, %v", where, r, err)
		}
	}
	return nil
}

var c03LossProp = ev.Prop("c03h.loss", genC03Loss, execC03Loss, func(c c03LossCase) ev.Class {
	return ev.Class{NonTrivial: true, Key: fmt.Sprintf("%+v", c), Labels: []string{"proto=" + c.Proto, fmt.Sprintf("lost=%d", len(c.Dies))}}
}, nil)

func TestC03HTTPLoss(t *testing.T) { rapid.Check(t, c03LossProp) }
