package rt

// Hand-written fixtures that mirror, line by line, what the Go generator emits
// for a service
//
//   service Svc {
//     string echo(1: string v) throws (1: Oops oops)
//     oneway void fire(1: string v)
//   }
//   exception Oops { 1: string why }
//
// (see compiler/testdata/expected/go/variety/f_foo_service.txt). The handler is
// a callback so that each check can script outcomes.

import (
	"context"
	"fmt"

	frugal "github.com/Workiva/frugal/lib/go"
	"github.com/apache/thrift/lib/go/thrift"
)

// strStruct is { <id>: string V } ; used as args (id 1), success result (id 0)
// and exception body (id 1).
type strStruct struct {
	Name     string
	ID       int16
	V        *string
	Required bool // Read rejects a struct without the field, like generated code for `required`
}

func (p *strStruct) Write(ctx context.Context, oprot thrift.TProtocol) error {
	if err := oprot.WriteStructBegin(ctx, p.Name); err != nil {
		return err
	}
	if p.V != nil {
		if err := oprot.WriteFieldBegin(ctx, "v", thrift.STRING, p.ID); err != nil {
			return err
		}
		if err := oprot.WriteString(ctx, *p.V); err != nil {
			return err
		}
		if err := oprot.WriteFieldEnd(ctx); err != nil {
			return err
		}
	}
	if err := oprot.WriteFieldStop(ctx); err != nil {
		return err
	}
	return oprot.WriteStructEnd(ctx)
}

func (p *strStruct) Read(ctx context.Context, iprot thrift.TProtocol) error {
	if _, err := iprot.ReadStructBegin(ctx); err != nil {
		return thrift.PrependError(fmt.Sprintf("%T read error: ", p), err)
	}
	for {
		_, ft, id, err := iprot.ReadFieldBegin(ctx)
		if err != nil {
			return thrift.PrependError(fmt.Sprintf("%T field %d read error: ", p, id), err)
		}
		if ft == thrift.STOP {
			break
		}
		if id == p.ID && ft == thrift.STRING {
			v, err := iprot.ReadString(ctx)
			if err != nil {
				return thrift.PrependError("error reading field: ", err)
			}
			p.V = &v
		} else if err := iprot.Skip(ctx, ft); err != nil {
			return err
		}
		if err := iprot.ReadFieldEnd(ctx); err != nil {
			return err
		}
	}
	if err := iprot.ReadStructEnd(ctx); err != nil {
		return thrift.PrependError(fmt.Sprintf("%T read struct end error: ", p), err)
	}
	if p.Required && p.V == nil {
		return thrift.NewTProtocolExceptionWithType(thrift.INVALID_DATA, fmt.Errorf("Required field V is not set"))
	}
	return nil
}

// echoResult is { 0: string success, 1: Oops oops }.
type echoResult struct {
	Success *string
	Oops    *strStruct
}

func (p *echoResult) Write(ctx context.Context, oprot thrift.TProtocol) error {
	if err := oprot.WriteStructBegin(ctx, "echo_result"); err != nil {
		return err
	}
	if p.Success != nil {
		oprot.WriteFieldBegin(ctx, "success", thrift.STRING, 0)
		if err := oprot.WriteString(ctx, *p.Success); err != nil {
			return err
		}
		oprot.WriteFieldEnd(ctx)
	}
	if p.Oops != nil {
		oprot.WriteFieldBegin(ctx, "oops", thrift.STRUCT, 1)
		if err := p.Oops.Write(ctx, oprot); err != nil {
			return err
		}
		oprot.WriteFieldEnd(ctx)
	}
	if err := oprot.WriteFieldStop(ctx); err != nil {
		return err
	}
	return oprot.WriteStructEnd(ctx)
}

func (p *echoResult) Read(ctx context.Context, iprot thrift.TProtocol) error {
	if _, err := iprot.ReadStructBegin(ctx); err != nil {
		return err
	}
	for {
		_, ft, id, err := iprot.ReadFieldBegin(ctx)
		if err != nil {
			return err
		}
		if ft == thrift.STOP {
			break
		}
		switch {
		case id == 0 && ft == thrift.STRING:
			v, err := iprot.ReadString(ctx)
			if err != nil {
				return err
			}
			p.Success = &v
		case id == 1 && ft == thrift.STRUCT:
			p.Oops = &strStruct{Name: "Oops", ID: 1}
			if err := p.Oops.Read(ctx, iprot); err != nil {
				return err
			}
		default:
			if err := iprot.Skip(ctx, ft); err != nil {
				return err
			}
		}
		if err := iprot.ReadFieldEnd(ctx); err != nil {
			return err
		}
	}
	return iprot.ReadStructEnd(ctx)
}

// oopsError is the declared exception.
type oopsError struct{ Why string }

func (e *oopsError) Error() string { return "Oops: " + e.Why }

// svcHandler is the user handler.
type svcHandler struct {
	echo func(ctx frugal.FContext, v string) (string, error)
	fire func(ctx frugal.FContext, v string) error
}

func (h *svcHandler) Echo(ctx frugal.FContext, v string) (string, error) { return h.echo(ctx, v) }
func (h *svcHandler) Fire(ctx frugal.FContext, v string) error           { return h.fire(ctx, v) }

type svcFEcho struct{ *frugal.FBaseProcessorFunction }

func (p *svcFEcho) Process(fctx frugal.FContext, iprot, oprot *frugal.FProtocol) error {
	ctx, cancelFn := frugal.ToContext(fctx)
	defer cancelFn()
	args := strStruct{Name: "echo_args", ID: 1, Required: true}
	err := args.Read(ctx, iprot)
	iprot.ReadMessageEnd(ctx)
	if err != nil {
		return p.SendError(fctx, oprot, frugal.APPLICATION_EXCEPTION_PROTOCOL_ERROR, "echo", err.Error())
	}
	result := echoResult{}
	v := ""
	if args.V != nil {
		v = *args.V
	}
	ret := p.InvokeMethod([]interface{}{fctx, v})
	if len(ret) != 2 {
		panic(fmt.Sprintf("Middleware returned %d arguments, expected 2", len(ret)))
	}
	if ret[1] != nil {
		err = ret[1].(error)
	}
	if err != nil {
		if typedError, ok := err.(thrift.TApplicationException); ok {
			p.SendError(fctx, oprot, typedError.TypeId(), "echo", typedError.Error())
			return nil
		}
		switch v := err.(type) {
		case *oopsError:
			result.Oops = &strStruct{Name: "Oops", ID: 1, V: &v.Why}
		default:
			return p.SendError(fctx, oprot, frugal.APPLICATION_EXCEPTION_INTERNAL_ERROR, "echo", "Internal error processing echo: "+err.Error())
		}
	} else {
		retval := ret[0].(string)
		result.Success = &retval
	}
	return p.SendReply(fctx, oprot, "echo", &result)
}

type svcFFire struct{ *frugal.FBaseProcessorFunction }

func (p *svcFFire) Process(fctx frugal.FContext, iprot, oprot *frugal.FProtocol) error {
	ctx, cancelFn := frugal.ToContext(fctx)
	defer cancelFn()
	args := strStruct{Name: "fire_args", ID: 1}
	err := args.Read(ctx, iprot)
	iprot.ReadMessageEnd(ctx)
	if err != nil {
		return p.SendError(fctx, oprot, frugal.APPLICATION_EXCEPTION_PROTOCOL_ERROR, "fire", err.Error())
	}
	v := ""
	if args.V != nil {
		v = *args.V
	}
	ret := p.InvokeMethod([]interface{}{fctx, v})
	if ret[0] != nil {
		err = ret[0].(error)
	}
	if err != nil {
		if typedError, ok := err.(thrift.TApplicationException); ok {
			p.SendError(fctx, oprot, typedError.TypeId(), "fire", typedError.Error())
			return nil
		}
		return p.SendError(fctx, oprot, frugal.APPLICATION_EXCEPTION_INTERNAL_ERROR, "fire", "Internal error processing fire: "+err.Error())
	}
	return nil
}

func newSvcProcessor(h *svcHandler, middleware ...frugal.ServiceMiddleware) frugal.FProcessor {
	p := frugal.NewFBaseProcessor()
	p.AddToProcessorMap("echo", &svcFEcho{frugal.NewFBaseProcessorFunction(p.GetWriteMutex(), frugal.NewMethod(h, h.Echo, "Echo", middleware))})
	p.AddToProcessorMap("fire", &svcFFire{frugal.NewFBaseProcessorFunction(p.GetWriteMutex(), frugal.NewMethod(h, h.Fire, "Fire", middleware))})
	return p
}

// svcClient mirrors the generated client.
type svcClient struct {
	frugal.FClient
	methods map[string]*frugal.Method
}

func newSvcClient(provider *frugal.FServiceProvider, middleware ...frugal.ServiceMiddleware) *svcClient {
	c := &svcClient{FClient: frugal.NewFStandardClient(provider), methods: map[string]*frugal.Method{}}
	middleware = append(middleware, provider.GetMiddleware()...)
	c.methods["echo"] = frugal.NewMethod(c, c.echo, "echo", middleware)
	c.methods["fire"] = frugal.NewMethod(c, c.fire, "fire", middleware)
	return c
}

func (c *svcClient) Echo(ctx frugal.FContext, v string) (string, error) {
	ret := c.methods["echo"].Invoke([]interface{}{ctx, v})
	var err error
	if ret[1] != nil {
		err = ret[1].(error)
	}
	return ret[0].(string), err
}

func (c *svcClient) echo(fctx frugal.FContext, v string) (r string, err error) {
	args := strStruct{Name: "echo_args", ID: 1, V: &v}
	result := echoResult{}
	if err = c.Call(fctx, "echo", &args, &result); err != nil {
		return
	}
	if result.Oops != nil {
		why := ""
		if result.Oops.V != nil {
			why = *result.Oops.V
		}
		return r, &oopsError{why}
	}
	if result.Success != nil {
		r = *result.Success
	}
	return r, nil
}

func (c *svcClient) Fire(ctx frugal.FContext, v string) error {
	ret := c.methods["fire"].Invoke([]interface{}{ctx, v})
	if ret[0] != nil {
		return ret[0].(error)
	}
	return nil
}

func (c *svcClient) fire(fctx frugal.FContext, v string) error {
	args := strStruct{Name: "fire_args", ID: 1, V: &v}
	return c.Oneway(fctx, "fire", &args)
}

// ---- frame builders (independent of the runtime's writers)

var bg = context.Background()

func protoFactory(name string) thrift.TProtocolFactory {
	switch name {
	case "compact":
		return thrift.NewTCompactProtocolFactoryConf(nil)
	case "json":
		return thrift.NewTJSONProtocolFactory()
	}
	return thrift.NewTBinaryProtocolFactoryConf(nil)
}

// thriftMessage encodes [message begin][struct body][message end].
func thriftMessage(proto, name string, mtype thrift.TMessageType, body thrift.TStruct) []byte {
	buf := thrift.NewTMemoryBuffer()
	p := protoFactory(proto).GetProtocol(buf)
	p.WriteMessageBegin(bg, name, mtype, 0)
	body.Write(bg, p)
	p.WriteMessageEnd(bg)
	p.Flush(bg)
	return append([]byte{}, buf.Bytes()...)
}

// frameContent = headers + thrift message (no 4-byte frame size).
func frameContent(headers []KV, msg []byte) []byte {
	return append(refEncodeHeaders(headers), msg...)
}

func sp(s string) *string { return &s }

func kv(k, v string) KV { return KV{[]byte(k), []byte(v)} }
