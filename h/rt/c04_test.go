package rt

// C04 — FContext headers survive the wire unchanged in the documented v0 layout.

import (
	"time"
	"bytes"
	"context"
	"encoding/binary"
	"encoding/hex"
	"fmt"
	"io"
	"runtime"
	"sort"
	"strconv"
	"sync"
	"testing"
	"unicode/utf8"

	frugal "github.com/Workiva/frugal/lib/go"
	"github.com/apache/thrift/lib/go/thrift"
	"pgregory.net/rapid"
	"verif/ev"
)

type c04Case struct {
	Pairs   []KV   `json:"pairs"`   // distinct names, none reserved
	Extra   []KV   `json:"extra"`   // for addHeadersToFrame (may overlap Pairs)
	Payload []byte `json:"payload"` // what follows the headers
	Cid     string `json:"cid"`
	OpID    uint64 `json:"opid"`
	Big     bool   `json:"big"`   // one value blown up to ~70 KB
	Chunk   int    `json:"chunk"` // the stream hands out at most this many bytes per Read (0 = everything)
	// Rewrites: the same FContext is changed and written again (a context is reused for retries and
	// publishes): after every step the bytes on the wire must be the context's current headers
	Rewrites []c04Rewrite `json:"rewrites,omitempty"`
}

type c04Rewrite struct {
	Op string `json:"op"` // timeout | add | addresp | none
	K  []byte `json:"k,omitempty"`
	V  []byte `json:"v,omitempty"`
	Ms int64  `json:"ms,omitempty"`
}

var reserved = map[string]bool{"_cid": true, "_opid": true, "_timeout": true}

func genBytesKind(kind int) *rapid.Generator[[]byte] {
	switch kind {
	case 0:
		return rapid.Just([]byte{})
	case 1:
		return rapid.Map(rapid.StringMatching(`[ -~]{1,12}`), func(s string) []byte { return []byte(s) })
	case 2:
		return rapid.Map(rapid.StringOfN(rapid.RuneFrom(nil, unicodeTables...), 1, 10, -1), func(s string) []byte { return []byte(s) })
	case 3:
		return rapid.SliceOfN(rapid.Byte(), 1, 16)
	default:
		return rapid.SliceOfN(rapid.Byte(), 100, 300)
	}
}

func genHdrBytes(utf8Only bool) *rapid.Generator[[]byte] {
	return rapid.Custom(func(t *rapid.T) []byte {
		kinds := []int{0, 1, 1, 1, 2, 2, 3, 4}
		if utf8Only {
			kinds = []int{0, 1, 1, 1, 2, 2, 2}
		}
		k := rapid.SampledFrom(kinds).Draw(t, "kind")
		b := genBytesKind(k).Draw(t, "bytes")
		if utf8Only && k == 4 {
			b = bytes.ToValidUTF8(b, []byte("?"))
		}
		return b
	})
}

func genPairs(t *rapid.T, label string, utf8Only bool, max int) []KV {
	n := rapid.IntRange(0, max).Draw(t, label+".n")
	seen := map[string]bool{}
	var out []KV
	for i := 0; i < n; i++ {
		k := genHdrBytes(utf8Only).Draw(t, label+".k")
		if seen[string(k)] || reserved[string(k)] {
			continue
		}
		seen[string(k)] = true
		v := genHdrBytes(utf8Only).Draw(t, label+".v")
		out = append(out, KV{k, v})
	}
	return out
}

func genC04(utf8Only bool) func(t *rapid.T) c04Case {
	return func(t *rapid.T) c04Case {
		c := c04Case{}
		c.Pairs = genPairs(t, "pairs", utf8Only, 24)
		c.Extra = genPairs(t, "extra", utf8Only, 4)
		if len(c.Pairs) > 0 && rapid.IntRange(0, 3).Draw(t, "overlap") == 0 {
			// overwrite an existing header through addHeadersToFrame
			c.Extra = append(c.Extra, KV{c.Pairs[0].K, []byte("overwritten")})
			c.Extra = dedupe(c.Extra)
		}
		c.Payload = rapid.SliceOfN(rapid.Byte(), 0, 200).Draw(t, "payload")
		c.Cid = rapid.StringMatching(`[a-zA-Z0-9\-]{0,20}`).Draw(t, "cid")
		c.OpID = rapid.Uint64().Draw(t, "opid")
		c.Big = rapid.IntRange(0, 60).Draw(t, "big") == 0 && len(c.Pairs) > 0
		c.Chunk = rapid.SampledFrom([]int{0, 0, 1, 2, 3, 7, 64, 4096}).Draw(t, "chunk")
		for i, n := 0, rapid.IntRange(0, 4).Draw(t, "nrewrites"); i < n; i++ {
			rw := c04Rewrite{Op: rapid.SampledFrom([]string{"timeout", "timeout", "add", "addresp", "none"}).Draw(t, "rewrite")}
			switch rw.Op {
			case "timeout":
				rw.Ms = rapid.SampledFrom([]int64{1, 2, 250, 5000, 5001, 12345, 3600000}).Draw(t, "ms")
			case "add", "addresp":
				if len(c.Pairs) > 0 && rapid.Bool().Draw(t, "existing") {
					rw.K = c.Pairs[rapid.IntRange(0, len(c.Pairs)-1).Draw(t, "which")].K
				} else {
					rw.K = []byte(rapid.StringMatching(`[a-z]{1,8}`).Draw(t, "rk"))
				}
				rw.V = []byte(rapid.StringMatching(`[a-z0-9]{0,12}`).Draw(t, "rv"))
			}
			c.Rewrites = append(c.Rewrites, rw)
		}
		return c
	}
}

func dedupe(p []KV) []KV {
	seen := map[string]int{}
	var out []KV
	for _, kv := range p {
		if i, ok := seen[string(kv.K)]; ok {
			out[i] = kv
			continue
		}
		seen[string(kv.K)] = len(out)
		out = append(out, kv)
	}
	return out
}

func (c c04Case) pairs() []KV {
	if !c.Big {
		return c.Pairs
	}
	out := append([]KV{}, c.Pairs...)
	out[len(out)-1].V = bytes.Repeat([]byte("0123456789"), 7000)
	return out
}

func classifyC04(c c04Case) ev.Class {
	nt := len(c.Pairs) >= 2 || len(c.Payload) > 0
	labels := []string{fmt.Sprintf("n=%s", bucket(len(c.Pairs)))}
	for _, rw := range c.Rewrites {
		labels = append(labels, "rewritten-after-"+rw.Op)
		nt = true
	}
	for _, p := range c.Pairs {
		if len(p.K) == 0 {
			labels = append(labels, "empty-name")
			nt = true
		}
		if len(p.V) == 0 {
			labels = append(labels, "empty-value")
			nt = true
		}
		if !utf8.Valid(p.K) || !utf8.Valid(p.V) {
			labels = append(labels, "non-utf8")
		} else if len(string(p.V)) != utf8.RuneCount(p.V) || len(string(p.K)) != utf8.RuneCount(p.K) {
			labels = append(labels, "multibyte")
			nt = true
		}
	}
	if c.Big {
		labels = append(labels, "big-value")
	}
	if len(c.Payload) > 0 {
		labels = append(labels, "payload")
	}
	if c.Chunk > 0 {
		labels = append(labels, "chunked-stream")
	}
	labels = uniq(labels)
	key := fmt.Sprintf("%x|%x|%v", canonPairs(c.pairs()), c.Payload, c.Big)
	return ev.Class{NonTrivial: nt, Key: key, Labels: labels}
}

func bucket(n int) string {
	switch {
	case n == 0:
		return "0"
	case n == 1:
		return "1"
	case n <= 4:
		return "2-4"
	case n <= 12:
		return "5-12"
	}
	return "13+"
}

func uniq(s []string) []string {
	sort.Strings(s)
	out := s[:0]
	for i, x := range s {
		if i == 0 || x != s[i-1] {
			out = append(out, x)
		}
	}
	return out
}

func canonPairs(p []KV) []byte {
	q := append([]KV{}, p...)
	sort.Slice(q, func(i, j int) bool { return bytes.Compare(q[i].K, q[j].K) < 0 })
	return refEncodeHeaders(q)
}

func sampleC04(c c04Case) interface{} {
	type kv struct{ K, V string }
	var ps []kv
	for _, p := range c.Pairs {
		ps = append(ps, kv{strconv.QuoteToASCII(string(p.K)), strconv.QuoteToASCII(trunc(string(p.V), 40))})
	}
	return map[string]interface{}{"pairs": ps, "payload_len": len(c.Payload), "big": c.Big, "cid": c.Cid}
}

func trunc(s string, n int) string {
	if len(s) > n {
		return s[:n] + "…"
	}
	return s
}

var pf = frugal.NewFProtocolFactory(thrift.NewTBinaryProtocolFactoryConf(nil))

// chunkT is a read-only TTransport that delivers its bytes in pieces of at most
// `chunk` bytes per Read, like a socket or a buffered stream does.
type chunkT struct {
	*thrift.TMemoryBuffer
	chunk int
	yield bool
}

func (c *chunkT) Read(p []byte) (int, error) {
	if c.chunk > 0 && len(p) > c.chunk {
		p = p[:c.chunk]
	}
	if c.yield {
		runtime.Gosched()
	}
	return c.TMemoryBuffer.Read(p)
}

func streamOf(b []byte, chunk int) *chunkT {
	return &chunkT{TMemoryBuffer: &thrift.TMemoryBuffer{Buffer: bytes.NewBuffer(append([]byte{}, b...))}, chunk: chunk}
}

// checkC04Go: oracles (1)-(3) of DESIGN.md §C04, Go only.
func checkC04Go(c c04Case) *ev.Failure {
	pairs := c.pairs()
	want := pairsToMap(pairs)

	// (1) documented layout of what WriteRequestHeader / WriteResponseHeader emit.
	for _, side := range []string{"request", "response"} {
		ctx := frugal.NewFContext(c.Cid)
		for _, p := range pairs {
			if side == "request" {
				ctx.AddRequestHeader(string(p.K), string(p.V))
			} else {
				ctx.AddResponseHeader(string(p.K), string(p.V))
			}
		}
		buf := thrift.NewTMemoryBuffer()
		prot := pf.GetProtocol(buf)
		var err error
		var expect map[string]string
		if side == "request" {
			err = prot.WriteRequestHeader(ctx)
			expect = ctx.RequestHeaders()
		} else {
			err = prot.WriteResponseHeader(ctx)
			expect = ctx.ResponseHeaders()
		}
		if err != nil {
			return ev.Failf("write-error", "%s: %v", side, err)
		}
		for k, v := range want {
			if expect[k] != v {
				return ev.Failf("ctx-lost-header", "%s header %q not stored on FContext", side, k)
			}
		}
		buf.Write(c.Payload)
		wire := buf.Bytes()
		got, n, derr := refDecodeHeaders(wire)
		if derr != nil {
			return ev.Failf("layout", "%s: reference decoder rejects written bytes: %v (% x)", side, derr, head(wire))
		}
		if len(got) != len(expect) || !mapsEqual(pairsToMap(got), expect) {
			return ev.Failf("layout-content", "%s: decoded %d pairs %v, FContext has %v", side, len(got), pairsToMap(got), expect)
		}
		wantSize := 0
		for k, v := range expect {
			wantSize += 8 + len(k) + len(v)
		}
		if int(binary.BigEndian.Uint32(wire[1:5])) != wantSize {
			return ev.Failf("layout-size", "%s: headers size field %d, documented Σ(8+|k|+|v|) = %d", side, binary.BigEndian.Uint32(wire[1:5]), wantSize)
		}
		if !bytes.Equal(wire[n:], c.Payload) {
			return ev.Failf("layout-trailing", "%s: bytes after the header block differ from the payload", side)
		}
	}

	// (1b) one context written repeatedly, changed in between.
	if len(c.Rewrites) > 0 {
		ctx := frugal.NewFContext(c.Cid)
		for _, p := range pairs {
			ctx.AddRequestHeader(string(p.K), string(p.V))
		}
		writeBoth := func(step string) *ev.Failure {
			for _, side := range []string{"request", "response"} {
				buf := thrift.NewTMemoryBuffer()
				prot := pf.GetProtocol(buf)
				var err error
				var expect map[string]string
				if side == "request" {
					err = prot.WriteRequestHeader(ctx)
					expect = ctx.RequestHeaders()
				} else {
					err = prot.WriteResponseHeader(ctx)
					expect = ctx.ResponseHeaders()
				}
				if err != nil {
					return ev.Failf("rewrite-error", "%s after %s: %v", side, step, err)
				}
				got, _, derr := refDecodeHeaders(buf.Bytes())
				if derr != nil {
					return ev.Failf("rewrite-layout", "%s after %s: reference decoder rejects: %v", side, step, derr)
				}
				if len(got) != len(expect) || !mapsEqual(pairsToMap(got), expect) {
					return ev.Failf("rewrite-stale", "%s headers written after %s are not the context's: wire %v, context %v", side, step, pairsToMap(got), expect)
				}
			}
			return nil
		}
		if f := writeBoth("the first write"); f != nil {
			return f
		}
		for i, rw := range c.Rewrites {
			step := fmt.Sprintf("step %d (%s)", i, rw.Op)
			switch rw.Op {
			case "timeout":
				ctx.SetTimeout(time.Duration(rw.Ms) * time.Millisecond)
				if ctx.Timeout() != time.Duration(rw.Ms)*time.Millisecond {
					return ev.Failf("rewrite-timeout", "Timeout() = %v after SetTimeout(%d ms)", ctx.Timeout(), rw.Ms)
				}
			case "add":
				if !reserved[string(rw.K)] {
					ctx.AddRequestHeader(string(rw.K), string(rw.V))
				}
			case "addresp":
				if !reserved[string(rw.K)] {
					ctx.AddResponseHeader(string(rw.K), string(rw.V))
				}
			}
			if f := writeBoth(step); f != nil {
				return f
			}
			if rw.Op == "timeout" {
				if v, _ := ctx.RequestHeader("_timeout"); v != strconv.FormatInt(rw.Ms, 10) {
					return ev.Failf("rewrite-timeout-header", "_timeout header %q after SetTimeout(%d ms)", v, rw.Ms)
				}
			}
		}
	}

	// (2) stream read of reference-encoded bytes.
	opid := strconv.FormatUint(c.OpID, 10)
	wirePairs := append([]KV{}, pairs...)
	wirePairs = append(wirePairs, KV{[]byte("_opid"), []byte(opid)})
	if c.Cid != "" {
		wirePairs = append(wirePairs, KV{[]byte("_cid"), []byte(c.Cid)})
	}
	// rotate so the reserved pairs are not always last
	if len(wirePairs) > 1 {
		r := int(c.OpID % uint64(len(wirePairs)))
		wirePairs = append(wirePairs[r:], wirePairs[:r]...)
	}
	stream := append(refEncodeHeaders(wirePairs), c.Payload...)
	{
		buf := streamOf(stream, c.Chunk)
		ctx, err := pf.GetProtocol(buf).ReadRequestHeader()
		if err != nil {
			return ev.Failf("read-request-error", "ReadRequestHeader rejects well-formed headers: %v", err)
		}
		rh := ctx.RequestHeaders()
		for k, v := range want {
			if g, ok := rh[k]; !ok || g != v {
				return ev.Failf("read-request-content", "request header %q: got %q,%v want %q", k, g, ok, v)
			}
		}
		for k := range rh {
			if _, ok := want[k]; !ok && k != "_opid" && k != "_cid" {
				return ev.Failf("read-request-invented", "unexpected request header %q", k)
			}
		}
		if c.Cid != "" && ctx.CorrelationID() != c.Cid {
			return ev.Failf("read-request-cid", "cid %q, want %q", ctx.CorrelationID(), c.Cid)
		}
		if g, _ := ctx.ResponseHeader("_opid"); g != opid {
			return ev.Failf("read-request-opid", "response _opid %q want %q", g, opid)
		}
		if _, ok := rh["_opid"]; !ok {
			return ev.Failf("read-request-fresh-opid", "no fresh request _opid")
		}
		rest, _ := io.ReadAll(buf)
		if !bytes.Equal(rest, c.Payload) {
			return ev.Failf("read-request-payload", "payload after ReadRequestHeader: %d bytes, want %d", len(rest), len(c.Payload))
		}
	}
	{
		buf := streamOf(stream, c.Chunk)
		ctx := frugal.NewFContext("other")
		ownOp, _ := ctx.RequestHeader("_opid")
		if err := pf.GetProtocol(buf).ReadResponseHeader(ctx); err != nil {
			return ev.Failf("read-response-error", "ReadResponseHeader rejects well-formed headers: %v", err)
		}
		rh := ctx.ResponseHeaders()
		for k, v := range want {
			if g, ok := rh[k]; !ok || g != v {
				return ev.Failf("read-response-content", "response header %q: got %q,%v want %q", k, g, ok, v)
			}
		}
		if g, _ := ctx.RequestHeader("_opid"); g != ownOp {
			return ev.Failf("read-response-opid", "request _opid changed by ReadResponseHeader")
		}
		rest, _ := io.ReadAll(buf)
		if !bytes.Equal(rest, c.Payload) {
			return ev.Failf("read-response-payload", "payload after ReadResponseHeader: %d bytes, want %d", len(rest), len(c.Payload))
		}
	}

	// (3) complete-frame readers.
	wantAll := pairsToMap(wirePairs)
	if p := catch(func() {
		h, err := frugal.VerifGetHeadersFromFrame(stream)
		if err != nil {
			panic(fmt.Sprintf("getHeadersFromFrame error: %v", err))
		}
		if !mapsEqual(h, wantAll) {
			panic(fmt.Sprintf("getHeadersFromFrame map differs: %v vs %v", h, wantAll))
		}
	}); p != "" {
		return ev.Failf("frame-headers", "%s", p)
	}
	frame := refFrame(stream)
	var f *ev.Failure
	// (3b) a frame whose header block is empty (a response written for a context without headers)
	if p := catch(func() {
		empty := append(refEncodeHeaders(nil), c.Payload...)
		h, err := frugal.VerifGetHeadersFromFrame(empty)
		if err != nil || len(h) != 0 {
			f = ev.Failf("frame-headers-empty-block", "getHeadersFromFrame on an empty header block: %v, %v", h, err)
			return
		}
		extra := pairsToMap(c.Extra)
		nf, err := frugal.VerifAddHeadersToFrame(refFrame(empty), extra)
		if err != nil {
			f = ev.Failf("add-headers-error", "addHeadersToFrame on a frame with an empty header block: %v", err)
			return
		}
		got, n, derr := refDecodeHeaders(nf[4:])
		if derr != nil || len(got) != len(extra) || !mapsEqual(pairsToMap(got), extra) {
			f = ev.Failf("add-headers-content", "headers added to an empty block: %v (%v), want %v", pairsToMap(got), derr, extra)
			return
		}
		if !bytes.Equal(nf[4+n:], c.Payload) {
			f = ev.Failf("add-headers-payload", "payload changed by addHeadersToFrame (empty block)")
		}
	}); p != "" {
		return ev.Failf("add-headers-panic", "empty header block: %s", p)
	}
	if f != nil {
		return f
	}
	// unmarshalFrame (unexported, used by no production code) follows an older
	// convention, pinned by TestAddHeadersToFrame, in which the payload carries
	// its own 4-byte length prefix; it is exercised under that convention.
	legacy := refFrame(append(append(refEncodeHeaders(wirePairs), 0, 0, 0, 0), c.Payload...))
	binary.BigEndian.PutUint32(legacy[4+len(refEncodeHeaders(wirePairs)):], uint32(len(c.Payload)))
	if p := catch(func() {
		h, payload, err := frugal.VerifUnmarshalFrame(legacy)
		if err != nil {
			f = ev.Failf("unmarshal-frame-error", "unmarshalFrame rejects a well-formed frame: %v", err)
			return
		}
		if !mapsEqual(h, wantAll) {
			f = ev.Failf("unmarshal-frame-headers", "unmarshalFrame headers differ")
			return
		}
		if !bytes.Equal(payload, c.Payload) {
			f = ev.Failf("unmarshal-frame-payload", "unmarshalFrame payload %x, want %x", head(payload), head(c.Payload))
		}
	}); p != "" {
		return ev.Failf("unmarshal-frame-panic", "%s", p)
	}
	if f != nil {
		return f
	}
	if p := catch(func() {
		extra := pairsToMap(c.Extra)
		nf, err := frugal.VerifAddHeadersToFrame(frame, extra)
		if err != nil {
			f = ev.Failf("add-headers-error", "addHeadersToFrame: %v", err)
			return
		}
		if len(nf) < 4 || int(binary.BigEndian.Uint32(nf)) != len(nf)-4 {
			f = ev.Failf("add-headers-framesize", "frame size field wrong after addHeadersToFrame")
			return
		}
		got, n, derr := refDecodeHeaders(nf[4:])
		if derr != nil {
			f = ev.Failf("add-headers-layout", "reference decoder rejects: %v", derr)
			return
		}
		merged := pairsToMap(wirePairs)
		for k, v := range extra {
			merged[k] = v
		}
		if len(got) != len(merged) || !mapsEqual(pairsToMap(got), merged) {
			f = ev.Failf("add-headers-content", "merged headers differ: %v vs %v", pairsToMap(got), merged)
			return
		}
		if !bytes.Equal(nf[4+n:], c.Payload) {
			f = ev.Failf("add-headers-payload", "payload changed by addHeadersToFrame")
		}
	}); p != "" {
		return ev.Failf("add-headers-panic", "%s", p)
	}
	return f
}

func head(b []byte) []byte {
	if len(b) > 48 {
		return b[:48]
	}
	return b
}

var c04GoProp = ev.Prop("c04.go", genC04(false), checkC04Go, classifyC04, sampleC04)

func TestC04Go(t *testing.T) {
	rapid.Check(t, c04GoProp)
}

// ---- concurrent decoding: independent streams decoded at the same time must not disturb each other

type c04ConcCase struct {
	Streams []c04Case `json:"streams"`
	Rounds  int       `json:"rounds"`
}

func genC04Conc(t *rapid.T) c04ConcCase {
	n := rapid.IntRange(2, 8).Draw(t, "goroutines")
	c := c04ConcCase{Rounds: rapid.IntRange(5, 60).Draw(t, "rounds")}
	g := genC04(false)
	for i := 0; i < n; i++ {
		s := g(t)
		s.Big = false
		s.Chunk = rapid.SampledFrom([]int{1, 2, 3, 5}).Draw(t, "chunk")
		c.Streams = append(c.Streams, s)
	}
	return c
}

func checkC04Conc(c c04ConcCase) *ev.Failure {
	fails := make([]*ev.Failure, len(c.Streams))
	var wg sync.WaitGroup
	start := make(chan struct{})
	for i := range c.Streams {
		wg.Add(1)
		go func(i int) {
			defer wg.Done()
			s := c.Streams[i]
			pairs := append(append([]KV{}, s.Pairs...), KV{[]byte("_opid"), []byte(strconv.Itoa(1000 + i))})
			want := pairsToMap(pairs)
			stream := append(refEncodeHeaders(pairs), s.Payload...)
			<-start
			for r := 0; r < c.Rounds && fails[i] == nil; r++ {
				tr := streamOf(stream, s.Chunk)
				tr.yield = true
				var got map[string]string
				var err error
				if p := catch(func() { got, err = frugal.VerifReadHeader(tr) }); p != "" {
					fails[i] = ev.Failf("concurrent-decode-panic", "goroutine %d round %d: %s", i, r, p)
					return
				}
				if err != nil {
					fails[i] = ev.Failf("concurrent-decode-error", "goroutine %d round %d: a well-formed stream was rejected while %d other streams were being decoded: %v", i, r, len(c.Streams)-1, err)
					return
				}
				if !mapsEqual(got, want) {
					fails[i] = ev.Failf("concurrent-decode-mismatch", "goroutine %d round %d: decoded %v, want %v (other streams decoded concurrently)", i, r, got, want)
					return
				}
				rest, _ := io.ReadAll(tr)
				if !bytes.Equal(rest, s.Payload) {
					fails[i] = ev.Failf("concurrent-decode-payload", "goroutine %d round %d: payload position shifted", i, r)
					return
				}
			}
		}(i)
	}
	close(start)
	wg.Wait()
	for _, f := range fails {
		if f != nil {
			return f
		}
	}
	return nil
}

var c04ConcProp = ev.Prop("c04.concurrent", genC04Conc, checkC04Conc, func(c c04ConcCase) ev.Class {
	return ev.Class{NonTrivial: len(c.Streams) >= 2, Key: fmt.Sprintf("%+v", c), Labels: []string{"goroutines=" + bucket(len(c.Streams))}}
}, func(c c04ConcCase) interface{} {
	return map[string]interface{}{"goroutines": len(c.Streams), "rounds": c.Rounds}
})

func TestC04Concurrent(t *testing.T) { rapid.Check(t, c04ConcProp) }

// ---- differential leg with the Python runtime codec and contrib/frame_parser.py

var (
	peer3, peer2 *pyPeer
)

type peerResp struct {
	Ok      bool       `json:"ok"`
	Err     string     `json:"err"`
	Pairs   [][]string `json:"pairs"`
	Rest    string     `json:"rest"`
	Hex     string     `json:"hex"`
	Payload string     `json:"payload"`
}

func strPairs(m map[string]string) [][]string {
	out := [][]string{}
	for k, v := range m {
		out = append(out, []string{k, v})
	}
	sort.Slice(out, func(i, j int) bool { return out[i][0] < out[j][0] })
	return out
}

func pairsEq(a, b [][]string) bool {
	if len(a) != len(b) {
		return false
	}
	for i := range a {
		if a[i][0] != b[i][0] || a[i][1] != b[i][1] {
			return false
		}
	}
	return true
}

func checkC04Peer(c c04Case) *ev.Failure {
	if peer3 == nil {
		var err error
		if peer3, err = startPeer(py3, "headers"); err != nil {
			return ev.Failf("harness:peer", "cannot start python3 peer: %v", err)
		}
		if peer2, err = startPeer(py2, "frame_parser"); err != nil {
			return ev.Failf("harness:peer", "cannot start python2 peer: %v", err)
		}
	}
	pairs := c.pairs()
	ctx := frugal.NewFContext(c.Cid)
	for _, p := range pairs {
		ctx.AddRequestHeader(string(p.K), string(p.V))
	}
	buf := thrift.NewTMemoryBuffer()
	if err := pf.GetProtocol(buf).WriteRequestHeader(ctx); err != nil {
		return ev.Failf("write-error", "%v", err)
	}
	goHdr := append([]byte{}, buf.Bytes()...)
	expect := strPairs(ctx.RequestHeaders())
	wire := append(append([]byte{}, goHdr...), c.Payload...)

	// (a) Python decodes Go's bytes (stream and frame flavour).
	var r peerResp
	if err := peer3.call(map[string]string{"op": "read", "hex": hex.EncodeToString(wire)}, &r); err != nil {
		return ev.Failf("harness:peer", "%v", err)
	}
	if !r.Ok {
		return ev.Failf("py-read-rejects", "python _read rejects Go bytes: %s", r.Err)
	}
	if !pairsEq(r.Pairs, expect) {
		return ev.Failf("py-read-differs", "python _read: %v, Go wrote %v", r.Pairs, expect)
	}
	if r.Rest != hex.EncodeToString(c.Payload) {
		return ev.Failf("py-read-payload", "python stream position after headers differs")
	}
	r = peerResp{}
	if err := peer3.call(map[string]string{"op": "decode_from_frame", "hex": hex.EncodeToString(wire)}, &r); err != nil {
		return ev.Failf("harness:peer", "%v", err)
	}
	if !r.Ok || !pairsEq(r.Pairs, expect) {
		return ev.Failf("py-frame-differs", "python decode_from_frame: ok=%v %s %v, Go wrote %v", r.Ok, r.Err, r.Pairs, expect)
	}
	// (b) Go decodes Python's bytes.
	r = peerResp{}
	if err := peer3.call(map[string]interface{}{"op": "write", "pairs": expect}, &r); err != nil {
		return ev.Failf("harness:peer", "%v", err)
	}
	if !r.Ok {
		return ev.Failf("py-write-error", "%s", r.Err)
	}
	pyBytes, _ := hex.DecodeString(r.Hex)
	pyWire := append(append([]byte{}, pyBytes...), c.Payload...)
	tb := &thrift.TMemoryBuffer{Buffer: bytes.NewBuffer(append([]byte{}, pyWire...))}
	var gm map[string]string
	var gerr error
	if p := catch(func() { gm, gerr = frugal.VerifReadHeader(tb) }); p != "" || gerr != nil {
		return ev.Failf("go-reads-py", "Go readHeader on Python bytes: %v %s", gerr, p)
	}
	if !pairsEq(strPairs(gm), expect) {
		return ev.Failf("go-reads-py-differs", "Go read %v from Python bytes, want %v", strPairs(gm), expect)
	}
	if rest, _ := io.ReadAll(tb); !bytes.Equal(rest, c.Payload) {
		return ev.Failf("go-reads-py-payload", "payload differs after Go read of Python bytes")
	}
	if p := catch(func() { gm, gerr = frugal.VerifGetHeadersFromFrame(pyWire) }); p != "" || gerr != nil || !pairsEq(strPairs(gm), expect) {
		return ev.Failf("go-frame-reads-py", "Go getHeadersFromFrame on Python bytes: %v %s", gerr, p)
	}
	if len(pyBytes) != len(goHdr) {
		return ev.Failf("py-go-size", "encoded sizes differ: python %d, go %d", len(pyBytes), len(goHdr))
	}
	// (c) contrib/frame_parser.py parses the complete frame.
	frame := refFrame(wire)
	r = peerResp{}
	if err := peer2.call(map[string]string{"op": "parse", "hex": hex.EncodeToString(frame)}, &r); err != nil {
		return ev.Failf("harness:peer", "%v", err)
	}
	if !r.Ok {
		return ev.Failf("frame-parser-rejects", "contrib/frame_parser.py rejects: %s", r.Err)
	}
	var hexExpect [][]string
	for _, p := range expect {
		hexExpect = append(hexExpect, []string{hex.EncodeToString([]byte(p[0])), hex.EncodeToString([]byte(p[1]))})
	}
	sort.Slice(hexExpect, func(i, j int) bool { return hexExpect[i][0] < hexExpect[j][0] })
	if !pairsEq(r.Pairs, hexExpect) {
		return ev.Failf("frame-parser-differs", "frame_parser headers differ")
	}
	if r.Payload != hex.EncodeToString(c.Payload) {
		return ev.Failf("frame-parser-payload", "frame_parser payload differs")
	}
	// (d) the bare map (no _opid/_cid/_timeout added by an FContext; possibly empty) in the documented
	// layout: both Python entry points decode it, and Python's encoder produces that layout.
	bare := c.pairs()
	bareExpect := strPairs(pairsToMap(bare))
	bareWire := append(refEncodeHeaders(bare), c.Payload...)
	for _, op := range []string{"read", "decode_from_frame"} {
		r = peerResp{}
		if err := peer3.call(map[string]string{"op": op, "hex": hex.EncodeToString(bareWire)}, &r); err != nil {
			return ev.Failf("harness:peer", "%v", err)
		}
		if !r.Ok {
			return ev.Failf("py-rejects-conforming-block", "python %s rejects a conforming header block of %d headers: %s", op, len(bare), r.Err)
		}
		if !pairsEq(r.Pairs, bareExpect) {
			return ev.Failf("py-read-differs", "python %s: %v, the block holds %v", op, r.Pairs, bareExpect)
		}
		if op == "read" && r.Rest != hex.EncodeToString(c.Payload) {
			return ev.Failf("py-read-payload", "python stream position after a %d-header block differs", len(bare))
		}
	}
	r = peerResp{}
	if err := peer3.call(map[string]interface{}{"op": "write", "pairs": bareExpect}, &r); err != nil {
		return ev.Failf("harness:peer", "%v", err)
	}
	if !r.Ok {
		return ev.Failf("py-write-error", "%s", r.Err)
	}
	pyBare, _ := hex.DecodeString(r.Hex)
	if got, _, derr := refDecodeHeaders(pyBare); derr != nil || !pairsEq(strPairs(pairsToMap(got)), bareExpect) || len(pyBare) != len(refEncodeHeaders(bare)) {
		return ev.Failf("py-write-differs", "python encodes %v as % x (%v)", bareExpect, pyBare, derr)
	}
	return nil
}

var c04PeerProp = ev.Prop("c04.peer", genC04(true), checkC04Peer, classifyC04, sampleC04)

func TestC04Peer(t *testing.T) {
	defer func() {
		if peer3 != nil {
			peer3.stop()
			peer2.stop()
			peer3, peer2 = nil, nil
		}
	}()
	rapid.Check(t, c04PeerProp)
}

var _ = context.Background
