package rt

// rpcEnv wires the fixture client to the fixture processor over one of the
// supported transports and tees every reply frame.

import (
	"bytes"
	"context"
	"encoding/binary"
	"fmt"
	"io"
	"net/http"
	"net/http/httptest"
	"sync"
	"sync/atomic"
	"time"

	frugal "github.com/Workiva/frugal/lib/go"
	"github.com/apache/thrift/lib/go/thrift"
	"github.com/nats-io/nats.go"
)

var rpcTransports = []string{"loop", "tcp", "http", "nats"}

var e2eSeq uint64

func uniq64() uint64 { return atomic.AddUint64(&e2eSeq, 1) }

func fpf(proto string) *frugal.FProtocolFactory {
	return frugal.NewFProtocolFactory(protoFactory(proto))
}

// NewTransportEnv wires a client FTransport to the given processor over one of
// "loop", "tcp", "http", "nats" (exported for the generated-code bed). The
// returned tee records request and reply frames.
func NewTransportEnv(transport, proto string, proc frugal.FProcessor, natsWorkers uint) (tr frugal.FTransport, replies func() [][]byte, cleanup func(), err error) {
	e, err := newRPCEnv(transport, proto, proc, rpcOpts{natsWorkers: natsWorkers})
	if err != nil {
		return nil, nil, nil, err
	}
	return e.tee, func() [][]byte {
		e.tee.mu.Lock()
		defer e.tee.mu.Unlock()
		return append([][]byte{}, e.tee.replies...)
	}, e.close, nil
}

// NatsConnect / StompConnect expose the in-process brokers.
func NatsConnect() (*nats.Conn, error) { return natsConnect() }

// loopT is an in-memory FTransport that hands the frame to a processor.
type loopT struct {
	proc frugal.FProcessor
	pf   *frugal.FProtocolFactory
}

func (l *loopT) SetMonitor(frugal.FTransportMonitor) {}
func (l *loopT) Closed() <-chan error                { return nil }
func (l *loopT) Open() error                         { return nil }
func (l *loopT) IsOpen() bool                        { return true }
func (l *loopT) Close() error                        { return nil }
func (l *loopT) GetRequestSizeLimit() uint           { return 0 }
func (l *loopT) run(payload []byte) ([]byte, error) {
	in := &thrift.TMemoryBuffer{Buffer: bytes.NewBuffer(append([]byte{}, payload[4:]...))}
	out := frugal.NewTMemoryOutputBuffer(0)
	if err := l.proc.Process(l.pf.GetProtocol(in), l.pf.GetProtocol(out)); err != nil {
		return nil, err
	}
	if !out.HasWriteData() {
		return nil, nil
	}
	return append([]byte{}, out.Bytes()[4:]...), nil
}
func (l *loopT) Oneway(ctx frugal.FContext, payload []byte) error {
	_, err := l.run(payload)
	return err
}
func (l *loopT) Request(ctx frugal.FContext, payload []byte) (thrift.TTransport, error) {
	b, err := l.run(payload)
	if err != nil || b == nil {
		return nil, err
	}
	return &thrift.TMemoryBuffer{Buffer: bytes.NewBuffer(b)}, nil
}

// teeFT records request frames and reply frame contents.
type teeFT struct {
	frugal.FTransport
	mu       sync.Mutex
	requests [][]byte
	replies  [][]byte
}

func (t *teeFT) Request(ctx frugal.FContext, payload []byte) (thrift.TTransport, error) {
	t.mu.Lock()
	t.requests = append(t.requests, append([]byte{}, payload...))
	t.mu.Unlock()
	r, err := t.FTransport.Request(ctx, payload)
	if err != nil || r == nil {
		return r, err
	}
	b, _ := io.ReadAll(r)
	t.mu.Lock()
	t.replies = append(t.replies, append([]byte{}, b...))
	t.mu.Unlock()
	return &thrift.TMemoryBuffer{Buffer: bytes.NewBuffer(b)}, nil
}

func (t *teeFT) Oneway(ctx frugal.FContext, payload []byte) error {
	t.mu.Lock()
	t.requests = append(t.requests, append([]byte{}, payload...))
	t.mu.Unlock()
	return t.FTransport.Oneway(ctx, payload)
}

func (t *teeFT) lastReply() []byte {
	t.mu.Lock()
	defer t.mu.Unlock()
	if len(t.replies) == 0 {
		return nil
	}
	return t.replies[len(t.replies)-1]
}

type rpcEnv struct {
	tee     *teeFT
	client  *svcClient
	cleanup []func()
}

func (e *rpcEnv) close() {
	for i := len(e.cleanup) - 1; i >= 0; i-- {
		e.cleanup[i]()
	}
}

type rpcOpts struct {
	natsWorkers    uint
	clientMW       []frugal.ServiceMiddleware
	providerMW     []frugal.ServiceMiddleware
	httpRespLimit  uint
	processorSetup func(frugal.FProcessor)
}

func newRPCEnv(transport, proto string, proc frugal.FProcessor, o rpcOpts) (*rpcEnv, error) {
	pf := fpf(proto)
	e := &rpcEnv{}
	var tr frugal.FTransport
	switch transport {
	case "loop":
		tr = &loopT{proc: proc, pf: pf}
	case "tcp":
		sock, err := thrift.NewTServerSocket("127.0.0.1:0")
		if err != nil {
			return nil, err
		}
		if err := sock.Listen(); err != nil {
			return nil, err
		}
		srv := frugal.NewFSimpleServer(proc, sock, pf)
		// the client under test and two idle ones connect before the server starts accepting:
		// the accept loop finds a backlog and takes the connections back to back
		var opened []frugal.FTransport
		for i := 0; i < 3; i++ {
			ts := thrift.NewTSocketConf(sock.Addr().String(), &thrift.TConfiguration{ConnectTimeout: 3 * time.Second})
			t := frugal.NewAdapterTransport(ts)
			if err := t.Open(); err != nil {
				for _, o := range opened {
					o.Close()
				}
				sock.Close()
				return nil, err
			}
			opened = append(opened, t)
		}
		tr = opened[0]
		go srv.Serve()
		e.cleanup = append(e.cleanup, func() { srv.Stop() })
		e.cleanup = append(e.cleanup, func() {
			for _, o := range opened {
				o.Close()
			}
		})
	case "http":
		ts := httptest.NewServer(frugal.NewFrugalHandlerFunc(proc, pf))
		e.cleanup = append(e.cleanup, ts.Close)
		tr = frugal.NewFHTTPTransportBuilder(&http.Client{}, ts.URL).WithResponseSizeLimit(o.httpRespLimit).Build()
	case "nats":
		sconn, err := natsConnect()
		if err != nil {
			return nil, err
		}
		e.cleanup = append(e.cleanup, sconn.Close)
		cconn, err := natsConnect()
		if err != nil {
			e.close()
			return nil, err
		}
		e.cleanup = append(e.cleanup, cconn.Close)
		subj := fmt.Sprintf("rpc.svc.%d", uniq64())
		w := o.natsWorkers
		if w == 0 {
			w = 1
		}
		// the high watermark is a logging threshold ("a request waited this long in the queue"); a tiny
		// one makes every queued request exceed it, which must not change what happens to the request
		srv := frugal.NewFNatsServerBuilder(sconn, proc, pf, []string{subj}).WithWorkerCount(w).WithHighWatermark(time.Millisecond).Build()
		served := make(chan error, 1)
		go func() { served <- srv.Serve() }()
		// Serve subscribes asynchronously; make sure the subscription is at the broker
		awaitSubscribed(sconn)
		e.cleanup = append(e.cleanup, func() { srv.Stop(); <-served })
		tr = frugal.NewFNatsTransport(cconn, subj, "")
		if err := tr.Open(); err != nil {
			e.close()
			return nil, err
		}
		e.cleanup = append(e.cleanup, func() { tr.Close() })
	default:
		return nil, fmt.Errorf("unknown transport %q", transport)
	}
	e.tee = &teeFT{FTransport: tr}
	e.client = newSvcClient(frugal.NewFServiceProvider(e.tee, pf, o.providerMW...), o.clientMW...)
	return e, nil
}

// awaitSubscribed waits until a server started with `go srv.Serve()` has subscribed
// (Serve subscribes asynchronously) and the subscription has reached the broker.
func awaitSubscribed(conn *nats.Conn) {
	deadline := time.Now().Add(5 * time.Second)
	for conn.NumSubscriptions() == 0 && time.Now().Before(deadline) {
		time.Sleep(200 * time.Microsecond)
	}
	conn.Flush()
}

// CountReplyMessages parses what a server sent back for one request (header block followed by
// thrift messages) and returns how many complete messages it holds: exactly one for a two-way call.
func CountReplyMessages(proto string, content []byte) (int, error) {
	if len(content) >= 4 && int(binary.BigEndian.Uint32(content)) == len(content)-4 && (len(content) < 5 || content[4] == 0) && content[0] != 0 {
		content = content[4:]
	}
	_, n, err := refDecodeHeaders(content)
	if err != nil {
		return 0, fmt.Errorf("headers: %v", err)
	}
	buf := &thrift.TMemoryBuffer{Buffer: bytes.NewBuffer(append([]byte{}, content[n:]...))}
	p := protoFactory(proto).GetProtocol(buf)
	count := 0
	for {
		if rest := bytes.TrimSpace(buf.Bytes()); len(rest) == 0 {
			return count, nil
		}
		if _, _, _, err := p.ReadMessageBegin(context.Background()); err != nil {
			return count, fmt.Errorf("after %d messages: message begin: %v", count, err)
		}
		if err := p.Skip(context.Background(), thrift.STRUCT); err != nil {
			return count, fmt.Errorf("after %d messages: body: %v", count, err)
		}
		if err := p.ReadMessageEnd(context.Background()); err != nil {
			return count, fmt.Errorf("after %d messages: message end: %v", count, err)
		}
		count++
		if count > 16 {
			return count, nil
		}
	}
}
