package idl

// Builds the "generated-code bed": a scratch Go module that contains the Go
// output of the compiler for a batch of generated programs, the reflection
// driver (h/genbed/driver), stub handlers and a registration file. Generated
// identifiers are discovered by parsing the emitted Go sources (go/ast) and are
// tied to IDL declarations by the string literal passed to WriteStructBegin and
// by normalised-name equality — never by re-implementing the generator's
// naming rules.

import (
	"bytes"
	"encoding/json"
	"fmt"
	"go/ast"
	"go/parser"
	"go/printer"
	"go/token"
	"os"
	"os/exec"
	"path/filepath"
	"sort"
	"strings"
)

type BedProgram struct {
	P    *Program `json:"program"`
	Lex  []byte   `json:"lex"`
	Slim bool     `json:"slim,omitempty"` // compiled with -gen go:slim
}

type bedPkg struct {
	importPath string
	alias      string
	dir        string
	fileIdx    int // model file
	fset       *token.FileSet
	files      map[string]*ast.File
	structIDL  map[string]string // Go type -> IDL struct name (WriteStructBegin literal)
	funcs      map[string]*ast.FuncDecl
	ifaces     map[string]*ast.InterfaceType
	ifaceFile  map[string]*ast.File
}

func goPkgDir(f *File) string {
	for _, ns := range f.Namespaces {
		if ns.Scope == "go" {
			return strings.ReplaceAll(ns.Value, ".", "/")
		}
	}
	for _, ns := range f.Namespaces {
		if ns.Scope == "*" {
			return strings.ReplaceAll(ns.Value, ".", "/")
		}
	}
	return f.Name
}

func scanPkg(dir string) (*bedPkg, error) {
	p := &bedPkg{dir: dir, fset: token.NewFileSet(), files: map[string]*ast.File{}, structIDL: map[string]string{}, funcs: map[string]*ast.FuncDecl{}, ifaces: map[string]*ast.InterfaceType{}, ifaceFile: map[string]*ast.File{}}
	ents, err := os.ReadDir(dir)
	if err != nil {
		return nil, err
	}
	for _, e := range ents {
		if e.IsDir() || !strings.HasSuffix(e.Name(), ".go") {
			continue
		}
		f, err := parser.ParseFile(p.fset, filepath.Join(dir, e.Name()), nil, 0)
		if err != nil {
			return nil, err
		}
		p.files[e.Name()] = f
		for _, d := range f.Decls {
			switch x := d.(type) {
			case *ast.FuncDecl:
				if x.Recv == nil {
					p.funcs[x.Name.Name] = x
					continue
				}
				if x.Name.Name == "Write" && len(x.Recv.List) == 1 {
					recv := ""
					if st, ok := x.Recv.List[0].Type.(*ast.StarExpr); ok {
						if id, ok := st.X.(*ast.Ident); ok {
							recv = id.Name
						}
					}
					ast.Inspect(x.Body, func(n ast.Node) bool {
						if c, ok := n.(*ast.CallExpr); ok {
							if s, ok := c.Fun.(*ast.SelectorExpr); ok && s.Sel.Name == "WriteStructBegin" && len(c.Args) == 2 {
								if lit, ok := c.Args[1].(*ast.BasicLit); ok && recv != "" {
									p.structIDL[recv] = strings.Trim(lit.Value, `"`)
								}
							}
						}
						return true
					})
				}
			case *ast.GenDecl:
				for _, s := range x.Specs {
					if ts, ok := s.(*ast.TypeSpec); ok {
						if it, ok := ts.Type.(*ast.InterfaceType); ok {
							p.ifaces[ts.Name.Name] = it
							p.ifaceFile[ts.Name.Name] = f
						}
					}
				}
			}
		}
	}
	return p, nil
}

func (p *bedPkg) findNorm(names map[string]bool, want string) string {
	for n := range names {
		if normName(n) == normName(want) {
			return n
		}
	}
	return ""
}

func (p *bedPkg) funcNorm(want string) string {
	for n := range p.funcs {
		if normName(n) == normName(want) {
			return n
		}
	}
	return ""
}

func (p *bedPkg) ifaceNorm(want string) string {
	for n := range p.ifaces {
		if normName(n) == normName(want) {
			return n
		}
	}
	return ""
}

func exprString(fset *token.FileSet, e ast.Expr) string {
	var b bytes.Buffer
	printer.Fprint(&b, fset, e)
	return b.String()
}

// qualifiers returns the package qualifiers used in an expression.
func qualifiers(e ast.Node, out map[string]bool) {
	ast.Inspect(e, func(n ast.Node) bool {
		if s, ok := n.(*ast.SelectorExpr); ok {
			if id, ok := s.X.(*ast.Ident); ok {
				out[id.Name] = true
			}
		}
		return true
	})
}

func importFor(f *ast.File, qualifier string) string {
	for _, im := range f.Imports {
		path := strings.Trim(im.Path.Value, `"`)
		name := path[strings.LastIndex(path, "/")+1:]
		if im.Name != nil {
			name = im.Name.Name
		}
		if name == qualifier {
			if im.Name != nil {
				return im.Name.Name + " " + im.Path.Value
			}
			return im.Path.Value
		}
	}
	return ""
}

// BuildBed writes the module under dir/genmod. It returns binding problems
// (declarations without generated counterpart etc.).
func BuildBed(dir string, progs []BedProgram) ([]string, error) {
	mod := filepath.Join(dir, "genmod")
	var problems []string
	var reg bytes.Buffer
	imports := map[string]string{} // alias -> path
	var regBody bytes.Buffer

	for k, bp := range progs {
		srcDir := filepath.Join(dir, "idl", fmt.Sprintf("p%d", k))
		root, texts, _, err := writeProgram(bp.P, bp.Lex, srcDir)
		if err != nil {
			return nil, err
		}
		out := filepath.Join(mod, fmt.Sprintf("p%d", k))
		genOpt := fmt.Sprintf("go:package_prefix=genmod/p%d/", k)
		if bp.Slim {
			genOpt = fmt.Sprintf("go:slim,package_prefix=genmod/p%d/", k)
		}
		cerr, pn := compileInProcess(root, genOpt, out, ".", true)
		if cerr != nil || pn != "" {
			return nil, fmt.Errorf("program %d does not compile to Go: %v %s\n%s", k, cerr, firstLines(pn, 6), allTexts(texts))
		}
		mj, _ := json.Marshal(bp.P)
		tj, _ := json.Marshal(texts)
		fmt.Fprintf(&regBody, "\tdriver.RegisterProgram(%d, %q, mustTexts(%q))\n", k, string(mj), string(tj))

		// only files reachable from the root through includes are compiled by -r
		reach := map[int]bool{}
		var mark func(i int)
		mark = func(i int) {
			if reach[i] {
				return
			}
			reach[i] = true
			for _, j := range bp.P.Files[i].Includes {
				mark(j)
			}
		}
		mark(len(bp.P.Files) - 1)
		pkgs := map[int]*bedPkg{}
		for fi, f := range bp.P.Files {
			if !reach[fi] {
				continue
			}
			pdir := filepath.Join(out, filepath.FromSlash(goPkgDir(f)))
			if _, err := os.Stat(pdir); err != nil {
				if len(f.Decls) > 0 {
					problems = append(problems, fmt.Sprintf("program %d: no Go package directory %s for file %s", k, goPkgDir(f), f.Path()))
				}
				continue
			}
			pk, err := scanPkg(pdir)
			if err != nil {
				return nil, fmt.Errorf("program %d: %v", k, err)
			}
			pk.fileIdx = fi
			pk.importPath = fmt.Sprintf("genmod/p%d/%s", k, goPkgDir(f))
			pk.alias = fmt.Sprintf("g%d_%d", k, fi)
			pkgs[fi] = pk
			imports[pk.alias] = pk.importPath
		}
		// structs
		for fi, f := range bp.P.Files {
			pk := pkgs[fi]
			if pk == nil {
				continue
			}
			used := false
			for _, d := range f.Decls {
				switch {
				case d.StructLike():
					goName := ""
					for g, idlName := range pk.structIDL {
						if idlName == d.Name {
							goName = g
						}
					}
					ctor := pk.funcNorm("New" + goName)
					if goName == "" || ctor == "" {
						problems = append(problems, fmt.Sprintf("program %d: %s %s has no generated Go type with a constructor (type %q ctor %q)", k, d.Kind, d.Name, goName, ctor))
						continue
					}
					fmt.Fprintf(&regBody, "\tdriver.RegisterStruct(%d, %d, %q, func() thrift.TStruct { return %s.%s() })\n", k, fi, d.Name, pk.alias, ctor)
					used = true
				case d.Kind == "service":
					for _, m := range d.Methods {
						for _, kind := range []string{"args", "result"} {
							if kind == "result" && m.Oneway {
								continue
							}
							ctor := pk.funcNorm("New" + d.Name + m.Name + kind)
							if ctor == "" {
								problems = append(problems, fmt.Sprintf("program %d: no constructor for the %s struct of %s.%s", k, kind, d.Name, m.Name))
								continue
							}
							fmt.Fprintf(&regBody, "\tdriver.RegisterSynth(%d, %d, %q, %q, %q, func() thrift.TStruct { return %s.%s() })\n", k, fi, d.Name, m.Name, kind, pk.alias, ctor)
							used = true
						}
					}
				}
			}
			// services: stubs are emitted into the generated package itself
			var stub bytes.Buffer
			stubImports := map[string]bool{}
			for _, d := range f.Decls {
				if d.Kind != "service" {
					continue
				}
				iface := pk.ifaceNorm("F" + d.Name)
				client := pk.funcNorm("NewF" + d.Name + "Client")
				proc := pk.funcNorm("NewF" + d.Name + "Processor")
				if iface == "" || client == "" || proc == "" {
					problems = append(problems, fmt.Sprintf("program %d: service %s lacks generated interface/client/processor (%q %q %q)", k, d.Name, iface, client, proc))
					continue
				}
				it := pk.ifaces[iface]
				sf := pk.ifaceFile[iface]
				stubName := "VerifStub" + iface
				var embedded []string // embedded stub type expressions
				var ownMethods []string
				var methodsSrc bytes.Buffer
				for _, m := range it.Methods.List {
					ft, isFunc := m.Type.(*ast.FuncType)
					if !isFunc {
						// embedded parent interface: FParent or pkg.FParent
						e := exprString(pk.fset, m.Type)
						if i := strings.LastIndex(e, "."); i >= 0 {
							embedded = append(embedded, e[:i+1]+"VerifStub"+e[i+1:])
							stubImports[importFor(sf, e[:i])] = true
						} else {
							embedded = append(embedded, "VerifStub"+e)
						}
						continue
					}
					name := m.Names[0].Name
					ownMethods = append(ownMethods, name)
					q := map[string]bool{}
					qualifiers(ft, q)
					for qq := range q {
						if im := importFor(sf, qq); im != "" {
							stubImports[im] = true
						}
					}
					var params, argNames []string
					for _, p := range ft.Params.List {
						for range p.Names {
							// positional names: the interface's own parameter names may shadow a type
							// of the package inside the stub's body (an argument named Alpha, a type Alpha)
							an := fmt.Sprintf("verifA%d", len(argNames))
							params = append(params, an+" "+exprString(pk.fset, p.Type))
							argNames = append(argNames, an)
						}
					}
					var results []string
					retType := ""
					for _, r := range ft.Results.List {
						for _, n := range r.Names {
							results = append(results, n.Name+" "+exprString(pk.fset, r.Type))
							if n.Name != "err" {
								retType = exprString(pk.fset, r.Type)
							}
						}
					}
					fmt.Fprintf(&methodsSrc, "func (verifS *%s) %s(%s) (%s) {\n", stubName, name, strings.Join(params, ", "), strings.Join(results, ", "))
					if retType != "" {
						fmt.Fprintf(&methodsSrc, "\tverifRes, verifErr := verifS.verifRec.Call(%q, []interface{}{%s}, reflect.TypeOf(&r).Elem())\n", name, strings.Join(argNames, ", "))
						fmt.Fprintf(&methodsSrc, "\tif verifRes != nil {\n\t\tr = verifRes.(%s)\n\t}\n\treturn r, verifErr\n}\n\n", retType)
					} else {
						fmt.Fprintf(&methodsSrc, "\t_, verifErr := verifS.verifRec.Call(%q, []interface{}{%s}, nil)\n\treturn verifErr\n}\n\n", name, strings.Join(argNames, ", "))
					}
				}
				fmt.Fprintf(&stub, "type %s struct {\n", stubName)
				for _, e := range embedded {
					fmt.Fprintf(&stub, "\t*%s\n", e)
				}
				fmt.Fprintf(&stub, "\tverifRec driver.Recorder\n}\n\n")
				fmt.Fprintf(&stub, "func New%s(rec driver.Recorder) *%s {\n\treturn &%s{", stubName, stubName, stubName)
				for _, e := range embedded {
					ctorExpr := e
					if i := strings.LastIndex(e, "."); i >= 0 {
						ctorExpr = e[:i+1] + "New" + e[i+1:]
					} else {
						ctorExpr = "New" + e
					}
					short := e[strings.LastIndex(e, ".")+1:]
					fmt.Fprintf(&stub, "%s: %s(rec), ", short, ctorExpr)
				}
				fmt.Fprintf(&stub, "verifRec: rec}\n}\n\n")
				stub.Write(methodsSrc.Bytes())
				// all methods incl. inherited, discovered through the embedded interfaces
				all := collectMethods(pkgs, pk, iface, 0)
				fmt.Fprintf(&regBody, "\tdriver.RegisterService(&driver.ServiceBinding{Prog: %d, File: %d, IDLName: %q,\n", k, fi, d.Name)
				fmt.Fprintf(&regBody, "\t\tNewClient: func(p *frugal.FServiceProvider, mw ...frugal.ServiceMiddleware) interface{} { return %s.%s(p, mw...) },\n", pk.alias, client)
				fmt.Fprintf(&regBody, "\t\tNewProcessor: func(h interface{}, mw ...frugal.ServiceMiddleware) frugal.FProcessor { return %s.%s(h.(%s.%s), mw...) },\n", pk.alias, proc, pk.alias, iface)
				fmt.Fprintf(&regBody, "\t\tNewStub: func(rec driver.Recorder) interface{} { return %s.New%s(rec) },\n", pk.alias, stubName)
				fmt.Fprintf(&regBody, "\t\tMethods: []driver.MethodBinding{")
				for _, m := range all {
					fmt.Fprintf(&regBody, "{GoName: %q}, ", m)
				}
				fmt.Fprintf(&regBody, "}})\n")
				_ = ownMethods
				used = true
			}
			// scopes
			for _, d := range f.Decls {
				if d.Kind != "scope" {
					continue
				}
				pubI := pk.ifaceNorm(d.Name + "Publisher")
				subI := pk.ifaceNorm(d.Name + "Subscriber")
				newPub := pk.funcNorm("New" + d.Name + "Publisher")
				newSub := pk.funcNorm("New" + d.Name + "Subscriber")
				if pubI == "" || subI == "" || newPub == "" || newSub == "" {
					problems = append(problems, fmt.Sprintf("program %d: scope %s lacks generated publisher/subscriber (%q %q %q %q)", k, d.Name, pubI, subI, newPub, newSub))
					continue
				}
				fmt.Fprintf(&regBody, "\tdriver.RegisterScope(&driver.ScopeBinding{Prog: %d, File: %d, IDLName: %q,\n", k, fi, d.Name)
				fmt.Fprintf(&regBody, "\t\tNewPublisher: func(p *frugal.FScopeProvider, mw ...frugal.ServiceMiddleware) interface{} { return %s.%s(p, mw...) },\n", pk.alias, newPub)
				fmt.Fprintf(&regBody, "\t\tNewSubscriber: func(p *frugal.FScopeProvider, mw ...frugal.ServiceMiddleware) interface{} { return %s.%s(p, mw...) },\n", pk.alias, newSub)
				fmt.Fprintf(&regBody, "\t\tOps: []driver.OpBinding{")
				subMethods := map[string]bool{}
				for _, m := range pk.ifaces[subI].Methods.List {
					if len(m.Names) > 0 {
						subMethods[m.Names[0].Name] = true
					}
				}
				for _, m := range pk.ifaces[pubI].Methods.List {
					if len(m.Names) == 0 || !strings.HasPrefix(m.Names[0].Name, "Publish") {
						continue
					}
					pn := m.Names[0].Name
					sn := "Subscribe" + strings.TrimPrefix(pn, "Publish")
					if !subMethods[sn] {
						problems = append(problems, fmt.Sprintf("program %d scope %s: publisher method %s has no subscriber counterpart %s", k, d.Name, pn, sn))
						continue
					}
					fmt.Fprintf(&regBody, "{PublishName: %q, SubscribeName: %q}, ", pn, sn)
				}
				fmt.Fprintf(&regBody, "}})\n")
				used = true
			}
			if stub.Len() > 0 {
				var hdr bytes.Buffer
				pkgName := ""
				for _, af := range pk.files {
					pkgName = af.Name.Name
				}
				fmt.Fprintf(&hdr, "// Code generated by the verification bed; stub handlers.\npackage %s\n\nimport (\n\t\"reflect\"\n\n\tdriver \"genmod/driver\"\n", pkgName)
				var ims []string
				for im := range stubImports {
					if im != "" && !strings.Contains(im, "genmod/driver") {
						ims = append(ims, im)
					}
				}
				sort.Strings(ims)
				for _, im := range ims {
					fmt.Fprintf(&hdr, "\t%s\n", im)
				}
				fmt.Fprintf(&hdr, ")\n\nvar _ = reflect.TypeOf\n\n")
				if err := os.WriteFile(filepath.Join(pk.dir, "zz_verif_stub.go"), append(hdr.Bytes(), stub.Bytes()...), 0o644); err != nil {
					return nil, err
				}
			}
			if !used {
				delete(imports, pk.alias)
			}
		}
	}

	// registration file
	fmt.Fprintf(&reg, "package bed\n\nimport (\n\t\"encoding/json\"\n\n\tdriver \"genmod/driver\"\n\tfrugal \"github.com/Workiva/frugal/lib/go\"\n\t\"github.com/apache/thrift/lib/go/thrift\"\n")
	var aliases []string
	for a := range imports {
		aliases = append(aliases, a)
	}
	sort.Strings(aliases)
	for _, a := range aliases {
		fmt.Fprintf(&reg, "\t%s %q\n", a, imports[a])
	}
	fmt.Fprintf(&reg, ")\n\nvar _ frugal.FContext\nvar _ thrift.TStruct\n\nfunc mustTexts(s string) map[string]string {\n\tm := map[string]string{}\n\tjson.Unmarshal([]byte(s), &m)\n\treturn m\n}\n\nfunc init() {\n")
	reg.Write(regBody.Bytes())
	for _, pr := range problems {
		fmt.Fprintf(&reg, "\tdriver.Problems = append(driver.Problems, %q)\n", pr)
	}
	fmt.Fprintf(&reg, "}\n")
	bedDir := filepath.Join(mod, "bed")
	os.MkdirAll(bedDir, 0o755)
	if err := os.WriteFile(filepath.Join(bedDir, "reg.go"), reg.Bytes(), 0o644); err != nil {
		return nil, err
	}
	testSrc := `package bed

import (
	"fmt"
	"os"
	"testing"

	driver "genmod/driver"
	"verif/ev"
)

func TestMain(m *testing.M) {
	code := m.Run()
	driver.Shutdown()
	ev.Flush()
	os.Exit(code)
}

func TestBindings(t *testing.T) { driver.RunBindings(t) }
func TestC02(t *testing.T)      { driver.RunC02(t) }
func TestC02Build(t *testing.T) { driver.RunC02Build(t) }
func TestC03(t *testing.T)      { driver.RunC03(t) }
func TestC16(t *testing.T)      { driver.RunC16(t) }
func TestScopes(t *testing.T)   { driver.RunScopes(t) }

func TestReplay(t *testing.T) {
	path := os.Getenv("VERIF_REPLAY")
	if path == "" {
		t.Skip("no VERIF_REPLAY")
	}
	name, f, err := ev.Replay(path)
	if err != nil {
		fmt.Printf("REPLAY-ERROR %s %v\n", name, err)
		t.Fatalf("replay error: %v", err)
	}
	if f != nil {
		fmt.Printf("REPLAY-FAIL %s %s\n", name, f.Sig)
		t.Fatalf("[%s] %s: %s", name, f.Sig, f.Msg)
	}
	fmt.Printf("REPLAY-PASS %s\n", name)
}
`
	if err := os.WriteFile(filepath.Join(bedDir, "bed_test.go"), []byte(testSrc), 0o644); err != nil {
		return nil, err
	}
	// driver sources
	drvSrc := filepath.Join(verifDir(), "h", "genbed", "driver")
	drvDst := filepath.Join(mod, "driver")
	os.MkdirAll(drvDst, 0o755)
	ents, err := os.ReadDir(drvSrc)
	if err != nil {
		return nil, err
	}
	for _, e := range ents {
		if strings.HasSuffix(e.Name(), ".go") {
			b, _ := os.ReadFile(filepath.Join(drvSrc, e.Name()))
			os.WriteFile(filepath.Join(drvDst, e.Name()), b, 0o644)
		}
	}
	gomod := `module genmod

go 1.20

require (
	github.com/Workiva/frugal v0.0.0
	github.com/Workiva/frugal/lib/go v0.0.0
	github.com/apache/thrift v0.19.0
	github.com/nats-io/nats.go v1.33.1
	github.com/sirupsen/logrus v1.9.3
	pgregory.net/rapid v1.3.0
	verif/ev v0.0.0
	verif/idl v0.0.0
	verif/rt v0.0.0
)

replace github.com/Workiva/frugal => /repo

replace github.com/Workiva/frugal/lib/go => /repo/lib/go

replace verif/ev => ` + filepath.Join(verifDir(), "h", "ev") + `

replace verif/idl => ` + filepath.Join(verifDir(), "h", "idl") + `

replace verif/rt => ` + filepath.Join(verifDir(), "h", "rt") + `
`
	if err := os.WriteFile(filepath.Join(mod, "go.mod"), []byte(gomod), 0o644); err != nil {
		return nil, err
	}
	var sum bytes.Buffer
	for _, f := range []string{"/repo/go.sum", "/repo/lib/go/go.sum", filepath.Join(verifDir(), "h", "rt", "go.sum"), filepath.Join(verifDir(), "h", "idl", "go.sum")} {
		b, _ := os.ReadFile(f)
		sum.Write(b)
		sum.WriteString("\n")
	}
	os.WriteFile(filepath.Join(mod, "go.sum"), sum.Bytes(), 0o644)
	return problems, nil
}

func collectMethods(pkgs map[int]*bedPkg, pk *bedPkg, iface string, depth int) []string {
	var out []string
	it := pk.ifaces[iface]
	if it == nil || depth > 16 {
		return nil
	}
	for _, m := range it.Methods.List {
		if _, isFunc := m.Type.(*ast.FuncType); isFunc {
			out = append(out, m.Names[0].Name)
			continue
		}
		e := exprString(pk.fset, m.Type)
		if i := strings.LastIndex(e, "."); i >= 0 {
			// find the package by qualifier through the file's imports
			path := importFor(pk.ifaceFile[iface], e[:i])
			for _, other := range pkgs {
				if strings.Contains(path, `"`+other.importPath+`"`) {
					out = append(out, collectMethods(pkgs, other, e[i+1:], depth+1)...)
				}
			}
		} else {
			out = append(out, collectMethods(pkgs, pk, e, depth+1)...)
		}
	}
	return out
}

// BuildBedBinary compiles the bed's test binary.
func BuildBedBinary(dir string) (string, error) {
	bin := filepath.Join(dir, "bed.test")
	cmd := exec.Command("go", "test", "-c", "-tags", "verif", "-o", bin, "./bed")
	cmd.Dir = filepath.Join(dir, "genmod")
	cmd.Env = append(os.Environ(), "GOFLAGS=-mod=mod", "GOPROXY=off", "GOSUMDB=off", "GOTOOLCHAIN=local")
	out, err := cmd.CombinedOutput()
	if err != nil {
		return "", fmt.Errorf("building the bed failed: %v\n%s", err, clip(string(out), 6000))
	}
	return bin, nil
}
