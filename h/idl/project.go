package idl

// Projection of the compiler's parse tree (parser.Frugal) onto the model's
// normal form, and the normal form of a model file, for field-by-field
// comparison (C10).

import (
	"fmt"
	"sort"
	"strings"

	"github.com/Workiva/frugal/compiler/parser"
)

// NF is a canonical, order-insensitive-where-the-language-is description of one file.
type NF struct {
	Includes   []string
	Namespaces []string
	Typedefs   []string
	Enums      []string
	Consts     []string
	Structs    []string // struct, union, exception (prefixed with their kind)
	Services   []string
	Scopes     []string // in sorted-by-name order, as documented
}

func annStr(a []Ann) string {
	if len(a) == 0 {
		return ""
	}
	var parts []string
	for _, x := range a {
		parts = append(parts, fmt.Sprintf("%s=%q", x.K, x.V))
	}
	return " ann(" + strings.Join(parts, ",") + ")"
}

func docStr(d string) string {
	if d == "" {
		return ""
	}
	return fmt.Sprintf(" doc%q", strings.Split(d, "\n"))
}

func (p *Program) typeNF(fi int, t *Type) string {
	switch t.Kind {
	case "base":
		return t.Name + annStr(t.Ann)
	case "list":
		return "list<" + p.typeNF(fi, t.Val) + ">" + annStr(t.Ann)
	case "set":
		return "set<" + p.typeNF(fi, t.Val) + ">" + annStr(t.Ann)
	case "map":
		return "map<" + p.typeNF(fi, t.Key) + "," + p.typeNF(fi, t.Val) + ">" + annStr(t.Ann)
	}
	if t.File == fi {
		return t.Name
	}
	return p.Files[t.File].Name + "." + t.Name
}

func valueNF(v *Value) string {
	if v == nil {
		return "<none>"
	}
	switch v.Kind {
	case "int":
		return fmt.Sprintf("int:%d", v.I)
	case "double":
		return fmt.Sprintf("double:%v", v.D)
	case "bool":
		return fmt.Sprintf("bool:%v", v.B)
	case "string":
		return fmt.Sprintf("string:%q", v.S)
	case "ident":
		return "ident:" + v.Ident
	case "list":
		var parts []string
		for _, e := range v.L {
			parts = append(parts, valueNF(e))
		}
		return "[" + strings.Join(parts, ",") + "]"
	case "map":
		var parts []string
		for _, kv := range v.M {
			parts = append(parts, valueNF(kv[0])+":"+valueNF(kv[1]))
		}
		return "{" + strings.Join(parts, ",") + "}"
	}
	return "?"
}

func (p *Program) fieldNF(fi int, f Field, forceOptional bool) string {
	req := f.Req
	if req == "" {
		req = "default"
	}
	if forceOptional {
		req = "optional"
	}
	return fmt.Sprintf("%d:%s %s %s =%s%s%s", f.ID, req, p.typeNF(fi, f.Type), f.Name, valueNF(f.Default), annStr(f.Ann), docStr(f.Doc))
}

// ModelNF computes the expected normal form of file fi.
func (p *Program) ModelNF(fi int) *NF {
	f := p.Files[fi]
	nf := &NF{}
	for _, inc := range f.Includes {
		g := p.Files[inc]
		nf.Includes = append(nf.Includes, g.Name+"="+relPath(f.Dir, g.Path()))
	}
	for _, ns := range f.Namespaces {
		nf.Namespaces = append(nf.Namespaces, ns.Scope+"="+ns.Value)
	}
	for _, d := range f.Decls {
		head := d.Name + annStr(d.Ann) + docStr(d.Doc)
		switch d.Kind {
		case "typedef":
			nf.Typedefs = append(nf.Typedefs, head+" -> "+p.typeNF(fi, d.Type))
		case "const":
			nf.Consts = append(nf.Consts, head+" : "+p.typeNF(fi, d.Type)+" = "+valueNF(d.Value))
		case "enum":
			s := head + " {"
			for _, ev := range d.EnumValues {
				s += fmt.Sprintf(" %s=%d%s%s;", ev.Name, ev.Value, annStr(ev.Ann), docStr(ev.Doc))
			}
			nf.Enums = append(nf.Enums, s+" }")
		case "struct", "union", "exception":
			s := d.Kind + " " + head + " {"
			for _, fl := range d.Fields {
				s += " " + p.fieldNF(fi, fl, d.Kind == "union") + ";"
			}
			nf.Structs = append(nf.Structs, s+" }")
		case "service":
			s := head
			if d.Extends != nil {
				if d.Extends.File == fi {
					s += " extends " + d.Extends.Name
				} else {
					s += " extends " + p.Files[d.Extends.File].Name + "." + d.Extends.Name
				}
			}
			s += " {"
			for _, m := range d.Methods {
				ret := "void"
				if m.Ret != nil {
					ret = p.typeNF(fi, m.Ret)
				}
				s += fmt.Sprintf(" [oneway=%v %s %s(", m.Oneway, ret, m.Name)
				for _, a := range m.Args {
					s += p.fieldNF(fi, a, false) + ", "
				}
				s += ") throws("
				for _, a := range m.Throws {
					s += p.fieldNF(fi, a, true) + ", "
				}
				s += ")" + annStr(m.Ann) + docStr(m.Doc) + "]"
			}
			nf.Services = append(nf.Services, s+" }")
		case "scope":
			var vars []string
			var toks []string
			for _, t := range d.Prefix {
				if t.Var {
					vars = append(vars, t.Text)
					toks = append(toks, "{"+t.Text+"}")
				} else {
					toks = append(toks, t.Text)
				}
			}
			s := fmt.Sprintf("%s prefix=%q vars=%v {", head, strings.Join(toks, "."), vars)
			for _, o := range d.Ops {
				s += fmt.Sprintf(" %s:%s%s%s;", o.Name, p.typeNF(fi, o.Type), annStr(o.Ann), docStr(o.Doc))
			}
			nf.Scopes = append(nf.Scopes, s+" }")
		}
	}
	sort.SliceStable(nf.Scopes, func(i, j int) bool { return scopeName(nf.Scopes[i]) < scopeName(nf.Scopes[j]) })
	return nf
}

func scopeName(s string) string {
	if i := strings.IndexAny(s, " "); i > 0 {
		return s[:i]
	}
	return s
}

// ---- parse tree side

func pAnn(a parser.Annotations) string {
	var out []Ann
	for _, x := range a {
		out = append(out, Ann{x.Name, x.Value})
	}
	return annStr(out)
}

func pDoc(c []string) string {
	if len(c) == 0 {
		return ""
	}
	return fmt.Sprintf(" doc%q", c)
}

func pType(t *parser.Type) string {
	if t == nil {
		return "void"
	}
	switch t.Name {
	case "list":
		return "list<" + pType(t.ValueType) + ">" + pAnn(t.Annotations)
	case "set":
		return "set<" + pType(t.ValueType) + ">" + pAnn(t.Annotations)
	case "map":
		return "map<" + pType(t.KeyType) + "," + pType(t.ValueType) + ">" + pAnn(t.Annotations)
	}
	return t.Name + pAnn(t.Annotations)
}

func pValue(v interface{}) string {
	switch x := v.(type) {
	case nil:
		return "<none>"
	case int64:
		return fmt.Sprintf("int:%d", x)
	case float64:
		return fmt.Sprintf("double:%v", x)
	case bool:
		return fmt.Sprintf("bool:%v", x)
	case string:
		return fmt.Sprintf("string:%q", x)
	case parser.Identifier:
		return "ident:" + string(x)
	case []interface{}:
		var parts []string
		for _, e := range x {
			parts = append(parts, pValue(e))
		}
		return "[" + strings.Join(parts, ",") + "]"
	case []parser.KeyValue:
		var parts []string
		for _, kv := range x {
			parts = append(parts, pValue(kv.Key)+":"+pValue(kv.Value))
		}
		return "{" + strings.Join(parts, ",") + "}"
	}
	return fmt.Sprintf("?%T:%v", v, v)
}

func pField(f *parser.Field) string {
	req := "default"
	switch f.Modifier {
	case parser.Required:
		req = "required"
	case parser.Optional:
		req = "optional"
	}
	return fmt.Sprintf("%d:%s %s %s =%s%s%s", f.ID, req, pType(f.Type), f.Name, pValue(f.Default), pAnn(f.Annotations), pDoc(f.Comment))
}

// ParsedNF projects a parse tree.
func ParsedNF(fr *parser.Frugal) *NF {
	nf := &NF{}
	for _, inc := range fr.Includes {
		nf.Includes = append(nf.Includes, inc.Name+"="+inc.Value)
	}
	for _, ns := range fr.Namespaces {
		nf.Namespaces = append(nf.Namespaces, ns.Scope+"="+ns.Value)
	}
	for _, d := range fr.Typedefs {
		nf.Typedefs = append(nf.Typedefs, d.Name+pAnn(d.Annotations)+pDoc(d.Comment)+" -> "+pType(d.Type))
	}
	for _, d := range fr.Constants {
		nf.Consts = append(nf.Consts, d.Name+pAnn(d.Annotations)+pDoc(d.Comment)+" : "+pType(d.Type)+" = "+pValue(d.Value))
	}
	for _, d := range fr.Enums {
		s := d.Name + pAnn(d.Annotations) + pDoc(d.Comment) + " {"
		for _, ev := range d.Values {
			s += fmt.Sprintf(" %s=%d%s%s;", ev.Name, ev.Value, pAnn(ev.Annotations), pDoc(ev.Comment))
		}
		nf.Enums = append(nf.Enums, s+" }")
	}
	st := func(kind string, d *parser.Struct) string {
		s := kind + " " + d.Name + pAnn(d.Annotations) + pDoc(d.Comment) + " {"
		for _, f := range d.Fields {
			s += " " + pField(f) + ";"
		}
		return s + " }"
	}
	for _, d := range fr.Structs {
		if d.Type != parser.StructTypeStruct {
			nf.Structs = append(nf.Structs, "WRONG-STRUCT-TYPE "+d.Name)
		}
		nf.Structs = append(nf.Structs, st("struct", d))
	}
	for _, d := range fr.Unions {
		if d.Type != parser.StructTypeUnion {
			nf.Structs = append(nf.Structs, "WRONG-STRUCT-TYPE "+d.Name)
		}
		nf.Structs = append(nf.Structs, st("union", d))
	}
	for _, d := range fr.Exceptions {
		if d.Type != parser.StructTypeException {
			nf.Structs = append(nf.Structs, "WRONG-STRUCT-TYPE "+d.Name)
		}
		nf.Structs = append(nf.Structs, st("exception", d))
	}
	for _, d := range fr.Services {
		s := d.Name + pAnn(d.Annotations) + pDoc(d.Comment)
		if d.Extends != "" {
			s += " extends " + d.Extends
		}
		s += " {"
		for _, m := range d.Methods {
			s += fmt.Sprintf(" [oneway=%v %s %s(", m.Oneway, pType(m.ReturnType), m.Name)
			for _, a := range m.Arguments {
				s += pField(a) + ", "
			}
			s += ") throws("
			for _, a := range m.Exceptions {
				s += pField(a) + ", "
			}
			s += ")" + pAnn(m.Annotations) + pDoc(m.Comment) + "]"
		}
		nf.Services = append(nf.Services, s+" }")
	}
	for _, d := range fr.Scopes {
		prefix, vars := "", []string(nil)
		if d.Prefix != nil {
			prefix = d.Prefix.String
			if len(d.Prefix.Variables) > 0 {
				vars = d.Prefix.Variables
			}
		}
		s := fmt.Sprintf("%s prefix=%q vars=%v {", d.Name+pAnn(d.Annotations)+pDoc(d.Comment), prefix, vars)
		for _, o := range d.Operations {
			s += fmt.Sprintf(" %s:%s%s%s;", o.Name, pType(o.Type), pAnn(o.Annotations), pDoc(o.Comment))
		}
		nf.Scopes = append(nf.Scopes, s+" }")
	}
	return nf
}

// structural kinds are compared as ordered lists within their kind, except
// structs/unions/exceptions which the parser keeps in three separate lists.
func (a *NF) Diff(b *NF) string {
	cmp := func(what string, x, y []string, sorted bool) string {
		x, y = append([]string{}, x...), append([]string{}, y...)
		if sorted {
			sort.Strings(x)
			sort.Strings(y)
		}
		for i := 0; i < len(x) || i < len(y); i++ {
			switch {
			case i >= len(x):
				return fmt.Sprintf("%s: parser has extra %q", what, y[i])
			case i >= len(y):
				return fmt.Sprintf("%s: parser lacks %q", what, x[i])
			case x[i] != y[i]:
				return fmt.Sprintf("%s differ:\n   model : %s\n   parser: %s", what, x[i], y[i])
			}
		}
		return ""
	}
	for _, c := range []struct {
		what   string
		x, y   []string
		sorted bool
	}{
		{"includes", a.Includes, b.Includes, false},
		{"namespaces", a.Namespaces, b.Namespaces, false},
		{"typedefs", a.Typedefs, b.Typedefs, false},
		{"enums", a.Enums, b.Enums, false},
		{"constants", a.Consts, b.Consts, false},
		{"structs/unions/exceptions", a.Structs, b.Structs, true},
		{"services", a.Services, b.Services, false},
		{"scopes", a.Scopes, b.Scopes, false},
	} {
		if d := cmp(c.what, c.x, c.y, c.sorted); d != "" {
			return d
		}
	}
	return ""
}
