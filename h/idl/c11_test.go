package idl

// C11 — the compiler is total: valid IDL yields valid code, bad input a diagnostic.
// Valid side, in-process: Compile must succeed for every target/option set and
// every emitted file must be well-formed for its target.

import (
	"fmt"
	"os"
	"path/filepath"
	"sort"
	"strings"
	"testing"
	"time"

	"github.com/Workiva/frugal/compiler"
	"github.com/Workiva/frugal/compiler/globals"
	"pgregory.net/rapid"
	"verif/ev"
)

// all target/option combinations exercised
var genTargets = []string{
	"go", "go:slim", "go:async", "go:package_prefix=pre/fix", "go:suppress_deprecated_logging", "go:omit_server_service_generation", "go:slim,async", "go:frugal_import=" + altFrugalImport, "go:use_vendor", "java:use_vendor", "dart:use_vendor",
	"java", "java:async", "java:boxed_primitives", "java:default_unsupported", "java:generated_annotations=undated", "java:generated_annotations=suppress", "java:async,boxed_primitives",
	"dart", "dart:use_enums", "dart:use_int64", "dart:use_null_for_unset", "dart:library_prefix=my_lib.src", "dart:use_enums,use_int64,use_null_for_unset",
	"py", "py:asyncio", "py:tornado", "py:package_prefix=pre.fix.",
	"json", "json:indent", "html", "html:standalone",
}

type c11Case struct {
	P       *Program `json:"program"`
	Lex     []byte   `json:"lex"`
	Targets []string `json:"targets"`
	Delim   string   `json:"delim"`
	Recurse bool     `json:"recurse"`
}

func genC11(c *Cfg) func(t *rapid.T) c11Case {
	g := genProgCase(c)
	return func(t *rapid.T) c11Case {
		pc := g(t)
		out := c11Case{P: pc.P, Lex: pc.Lex}
		n := rapid.IntRange(1, 5).Draw(t, "ntargets")
		seen := map[string]bool{}
		for i := 0; i < n; i++ {
			tg := rapid.SampledFrom(genTargets).Draw(t, "target")
			if !seen[tg] {
				seen[tg] = true
				out.Targets = append(out.Targets, tg)
			}
		}
		out.Delim = rapid.SampledFrom([]string{".", ".", "/", "-", "_", ":", "|"}).Draw(t, "delim")
		out.Recurse = rapid.IntRange(0, 3).Draw(t, "recurse") != 0
		return out
	}
}

func classifyC11(c c11Case) ev.Class {
	kinds, labels := programStats(c.P)
	for _, t := range c.Targets {
		labels = append(labels, "target="+t)
	}
	if c.Delim != "." {
		labels = append(labels, "delim!=.")
	}
	if c.Recurse {
		labels = append(labels, "recurse")
	}
	withOpt := false
	for _, t := range c.Targets {
		if strings.Contains(t, ":") {
			withOpt = true
		}
	}
	nt := (kinds["service"] > 0 || kinds["scope"] > 0) && (len(c.P.Files) >= 2 || withOpt)
	texts, _ := Render(c.P, c.Lex)
	var all []string
	for _, k := range sortedKeys(texts) {
		all = append(all, k, texts[k])
	}
	return ev.Class{NonTrivial: nt, Key: strings.Join(all, "\x00") + "|" + strings.Join(c.Targets, ";") + "|" + c.Delim + fmt.Sprint(c.Recurse), Labels: uniq(labels)}
}

var devNull *os.File

// compileInProcess runs compiler.Compile with panic capture.
func compileInProcess(root, gen, out, delim string, recurse bool) (err error, panicked string) {
	// the compiler prints warnings straight to stdout; keep the test output clean
	if devNull == nil {
		devNull, _ = os.OpenFile(os.DevNull, os.O_WRONLY, 0)
	}
	oldStdout := os.Stdout
	os.Stdout = devNull
	defer func() { os.Stdout = oldStdout }()
	ok, p := within(60*time.Second, func() {
		defer globals.Reset()
		err = compiler.Compile(compiler.Options{File: root, Gen: gen, Out: out, Delim: delim, Recurse: recurse})
	})
	if !ok {
		return nil, "hang: Compile did not return within 60s"
	}
	return err, p
}

func listFiles(dir string) []string {
	var out []string
	filepath.Walk(dir, func(p string, info os.FileInfo, err error) error {
		if err == nil && !info.IsDir() {
			out = append(out, p)
		}
		return nil
	})
	sort.Strings(out)
	return out
}

func checkC11Valid(c c11Case) *ev.Failure {
	dir, cleanup := scratchDir("c11")
	defer cleanup()
	root, texts, _, err := writeProgram(c.P, c.Lex, filepath.Join(dir, "src"))
	if err != nil {
		return ev.Failf("harness:write", "%v", err)
	}
	for i, tg := range c.Targets {
		out := filepath.Join(dir, fmt.Sprintf("out%d", i))
		err, p := compileInProcess(root, tg, out, c.Delim, c.Recurse)
		lang := strings.SplitN(tg, ":", 2)[0]
		if p != "" {
			return ev.Failf("compile-panic:"+lang+":"+panicSig(p), "-gen %s panicked on valid IDL: %s\n%s", tg, firstLines(p, 12), allTexts(texts))
		}
		if err != nil {
			return ev.Failf("compile-error:"+lang+":"+errSig(err.Error()), "-gen %s rejects valid IDL: %v\n%s", tg, err, allTexts(texts))
		}
		files := listFiles(out)
		nonTypedef := false
		for _, d := range c.P.Root().Decls {
			if d.Kind != "typedef" {
				nonTypedef = true
			}
		}
		// (a file of typedefs only legitimately yields no Java file)
		if len(files) == 0 && nonTypedef {
			return ev.Failf("no-output:"+lang, "-gen %s produced no files", tg)
		}
		if f := wellFormed(tg, out, files, c.Recurse || len(c.P.Root().Includes) == 0); f != nil {
			f.Msg += "\n" + allTexts(texts)
			return f
		}
	}
	return nil
}

func firstLines(s string, n int) string {
	l := strings.Split(s, "\n")
	if len(l) > n {
		l = l[:n]
	}
	return strings.Join(l, "\n")
}

// panicSig / errSig reduce a message to a short root-cause signature.
func panicSig(p string) string {
	l := strings.SplitN(p, "\n", 2)[0]
	l = strings.TrimPrefix(l, "panic: ")
	return squash(l)
}

func errSig(e string) string { return squash(e) }

func squash(s string) string {
	var b strings.Builder
	for _, w := range strings.Fields(s) {
		// drop words with digits, dots or path separators (names, positions): keep the message skeleton
		if strings.ContainsAny(w, "0123456789/._\"'") {
			continue
		}
		b.WriteString(w + " ")
		if b.Len() > 60 {
			break
		}
	}
	return strings.TrimSpace(b.String())
}

var c11Cfg = func() *Cfg { c := DefaultCfg(); c.EnumDecreasing = true; return c }()

var c11ValidProp = ev.Prop("c11.valid", genC11(c11Cfg), checkC11Valid, classifyC11, func(c c11Case) interface{} {
	return map[string]interface{}{"targets": c.Targets, "delim": c.Delim, "recurse": c.Recurse, "files": sampleProg(progCase{c.P, c.Lex})}
})

func TestC11Valid(t *testing.T) {
	rapid.Check(t, c11ValidProp)
	for k, v := range c11Cfg.Excluded {
		ev.Count("c11.valid", "excluded:"+k, v)
	}
}
