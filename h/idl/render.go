package idl

// Renders a Program to IDL text. All lexical freedom the grammar grants
// (comment kinds and positions, separators, quote styles, end-of-statement
// styles, blank lines, whitespace inside container types) is driven by a byte
// string of choices (Lex) so that a case stays a plain, replayable value:
// choice i is Lex[i mod len]; an empty Lex gives the canonical plain style.

import (
	"fmt"
	"sort"
	"strconv"
	"strings"
)

type renderer struct {
	p    *Program
	fi   int
	lex  []byte
	pos  int
	sb   strings.Builder
	used map[string]int // lexical feature -> count
}

func (r *renderer) pick(n int) int {
	if len(r.lex) == 0 || n <= 1 {
		return 0
	}
	v := int(r.lex[r.pos%len(r.lex)])
	r.pos++
	return v % n
}

func (r *renderer) use(s string) { r.used[s]++ }

// sp: horizontal space where the grammar has `_` (no newline allowed).
func (r *renderer) sp(mandatory bool) string {
	switch r.pick(8) {
	case 1:
		return "  "
	case 2:
		return "\t"
	case 3:
		r.use("inline-block-comment")
		return " /* c */ "
	case 4:
		if mandatory {
			return " "
		}
		return ""
	}
	return " "
}

// nl: where the grammar has `__` (whitespace, newlines and comments).
func (r *renderer) nl() string {
	switch r.pick(10) {
	case 1:
		return " "
	case 2:
		return "\n\n"
	case 3:
		r.use("slash-comment")
		return " // trailing comment\n"
	case 4:
		r.use("hash-comment")
		return " # hash comment\n"
	case 5:
		r.use("block-comment")
		return "\n/* block\n   comment */\n"
	case 6:
		return "\n\t"
	}
	return "\n"
}

func (r *renderer) sep() string {
	switch r.pick(5) {
	case 1:
		r.use("sep-semicolon")
		return ";"
	case 2, 3:
		r.use("sep-none")
		return ""
	}
	return ","
}

// eos: end of statement — `;`, a newline (optionally after a line comment), or nothing at EOF.
func (r *renderer) eos(last bool) string {
	switch r.pick(6) {
	case 1:
		r.use("eos-semicolon")
		return ";\n"
	case 2:
		r.use("eos-semicolon")
		return " ;" + r.nl()
	case 3:
		r.use("eos-line-comment")
		return " // end\n"
	case 4:
		if last {
			r.use("eos-eof")
			return ""
		}
	}
	return "\n"
}

func (r *renderer) quote(s string) string {
	esc := func(q byte) string {
		var b strings.Builder
		for i := 0; i < len(s); i++ {
			switch c := s[i]; {
			case c == q || c == '\\':
				b.WriteByte('\\')
				b.WriteByte(c)
			case c == '\n':
				b.WriteString(`\n`)
			default:
				b.WriteByte(c)
			}
		}
		return b.String()
	}
	if r.pick(3) == 1 {
		r.use("single-quote")
		return "'" + esc('\'') + "'"
	}
	return `"` + esc('"') + `"`
}

func (r *renderer) anns(a []Ann) string {
	if len(a) == 0 {
		return ""
	}
	var parts []string
	for _, x := range a {
		if x.V == "" && r.pick(2) == 0 {
			parts = append(parts, x.K)
		} else {
			parts = append(parts, x.K+r.sp(false)+"="+r.sp(false)+r.quote(x.V))
		}
	}
	sep := []string{", ", "; ", " ", ",\n    "}[r.pick(4)]
	r.use("annotations")
	return " (" + strings.Join(parts, sep) + ")"
}

func (r *renderer) doc(d string, indent string) string {
	if d == "" {
		return ""
	}
	lines := strings.Split(d, "\n")
	r.use("docstring")
	if len(lines) == 1 && r.pick(2) == 0 {
		return indent + "/**@ " + lines[0] + " */" + "\n"
	}
	var b strings.Builder
	b.WriteString(indent + "/**@\n")
	for _, l := range lines {
		b.WriteString(indent + " * " + l + "\n")
	}
	b.WriteString(indent + " */\n")
	return b.String()
}

func (r *renderer) typ(t *Type) string {
	ws := func() string { return []string{"", " ", "  ", "\t"}[r.pick(4)] }
	var s string
	switch t.Kind {
	case "base":
		s = t.Name
	case "list":
		s = "list<" + ws() + r.typ(t.Val) + ws() + ">"
	case "set":
		s = "set<" + ws() + r.typ(t.Val) + ws() + ">"
	case "map":
		s = "map<" + ws() + r.typ(t.Key) + ws() + "," + ws() + r.typ(t.Val) + ws() + ">"
	case "ref":
		if t.File == r.fi {
			s = t.Name
		} else {
			s = r.p.Files[t.File].Name + "." + t.Name
		}
	}
	if len(t.Ann) > 0 {
		s += r.anns(t.Ann)
	}
	return s
}

func fmtDouble(d float64) string {
	s := strconv.FormatFloat(d, 'f', -1, 64)
	if !strings.Contains(s, ".") {
		s += ".0"
	}
	return s
}

// int renders an integer literal, now and then zero-padded (IntConstant is a run of decimal
// digits: 010 is ten).
func (r *renderer) int(n int64) string {
	s := strconv.FormatInt(n, 10)
	if r.pick(6) != 0 {
		return s
	}
	r.used["zero-padded-int"]++
	pad := []string{"0", "00"}[r.pick(2)]
	if n < 0 {
		return "-" + pad + s[1:]
	}
	return pad + s
}

func (r *renderer) value(v *Value) string {
	switch v.Kind {
	case "int":
		return r.int(v.I)
	case "double":
		// plain or exponent notation (the latter only when it has a decimal point: see the
		// known finding about "1e5")
		if e := strconv.FormatFloat(v.D, 'e', -1, 64); strings.Contains(e, ".") && r.pick(3) == 0 {
			r.used["double-exponent"]++
			return e
		}
		return fmtDouble(v.D)
	case "bool":
		if v.B {
			return "true"
		}
		return "false"
	case "string":
		return r.quote(v.S)
	case "ident":
		return v.Ident
	case "list":
		var parts []string
		for _, e := range v.L {
			parts = append(parts, r.value(e))
		}
		sep := []string{", ", ",", " ", "; "}[r.pick(4)]
		return "[" + strings.Join(parts, sep) + "]"
	case "map":
		var parts []string
		for _, kv := range v.M {
			parts = append(parts, r.value(kv[0])+[]string{": ", ":", " : "}[r.pick(3)]+r.value(kv[1]))
		}
		return "{" + strings.Join(parts, []string{", ", ",", ",\n  "}[r.pick(3)]) + "}"
	}
	return "0"
}

func (r *renderer) field(f Field, indent string) string {
	var b strings.Builder
	b.WriteString(r.doc(f.Doc, indent))
	b.WriteString(indent + r.int(int64(f.ID)) + r.sp(false) + ":" + r.sp(false))
	if f.Req != "" {
		b.WriteString(f.Req + r.sp(true))
	}
	b.WriteString(r.typ(f.Type) + r.sp(true) + f.Name)
	if f.Default != nil {
		b.WriteString(r.sp(false) + "=" + r.sp(false) + r.value(f.Default))
	}
	b.WriteString(r.anns(f.Ann))
	b.WriteString(r.sep())
	return b.String()
}

func (r *renderer) fieldList(fs []Field, indent string, inline bool) string {
	var b strings.Builder
	for i, f := range fs {
		s := r.field(f, indent)
		if inline {
			s = strings.TrimLeft(s, " \t")
			// a field without separator needs whitespace before the next one
			if i < len(fs)-1 {
				s += " "
			}
			b.WriteString(s)
		} else {
			b.WriteString(s + r.nl())
		}
	}
	return b.String()
}

func (r *renderer) prefix(p []PrefixTok) string {
	var parts []string
	for _, t := range p {
		if t.Var {
			parts = append(parts, "{"+t.Text+"}")
		} else {
			parts = append(parts, t.Text)
		}
	}
	return strings.Join(parts, ".")
}

func (r *renderer) decl(d *Decl, last bool) string {
	var b strings.Builder
	b.WriteString(r.doc(d.Doc, ""))
	switch d.Kind {
	case "typedef":
		b.WriteString("typedef" + r.sp(true) + r.typ(d.Type) + r.sp(true) + d.Name + r.anns(d.Ann) + r.eos(last))
	case "const":
		b.WriteString("const" + r.sp(true) + r.typ(d.Type) + r.sp(true) + d.Name + r.sp(false) + "=" + r.sp(false) + r.value(d.Value) + r.anns(d.Ann) + r.eos(last))
	case "enum":
		b.WriteString("enum" + r.sp(true) + d.Name + r.nlOrSp() + "{" + r.nl())
		for _, ev := range d.EnumValues {
			b.WriteString(r.doc(ev.Doc, "  "))
			b.WriteString("  " + ev.Name)
			if ev.Explicit {
				b.WriteString(r.sp(false) + "=" + r.sp(false) + r.int(int64(ev.Value)))
			}
			b.WriteString(r.anns(ev.Ann) + r.sep() + r.nl())
		}
		b.WriteString("}" + r.anns(d.Ann) + r.eos(last))
	case "struct", "union", "exception":
		b.WriteString(d.Kind + r.sp(true) + d.Name + r.nlOrSp() + "{" + r.nl())
		b.WriteString(r.fieldList(d.Fields, "  ", false))
		b.WriteString("}" + r.anns(d.Ann) + r.eos(last))
	case "service":
		b.WriteString("service" + r.sp(true) + d.Name)
		if d.Extends != nil {
			ext := d.Extends.Name
			if d.Extends.File != r.fi {
				ext = r.p.Files[d.Extends.File].Name + "." + ext
			}
			b.WriteString(r.sp(true) + "extends" + r.nlOrSp() + ext)
		}
		b.WriteString(r.nlOrSp() + "{" + r.nl())
		for _, m := range d.Methods {
			b.WriteString(r.doc(m.Doc, "  "))
			b.WriteString("  ")
			if m.Oneway {
				b.WriteString("oneway" + r.nlOrSp())
			}
			if m.Ret == nil {
				b.WriteString("void")
			} else {
				b.WriteString(r.typ(m.Ret))
			}
			b.WriteString(r.nlOrSp() + m.Name + r.sp(false) + "(")
			inline := r.pick(3) != 0
			if inline {
				b.WriteString(r.fieldList(m.Args, "", true))
			} else {
				b.WriteString("\n" + r.fieldList(m.Args, "      ", false) + "  ")
			}
			b.WriteString(")")
			if len(m.Throws) > 0 {
				b.WriteString(r.nlOrSp() + "throws" + r.nlOrSp() + "(" + r.fieldList(m.Throws, "", true) + ")")
			}
			b.WriteString(r.anns(m.Ann) + r.sep() + r.nl())
		}
		b.WriteString("}" + r.anns(d.Ann) + r.eos(last))
	case "scope":
		b.WriteString("scope" + r.nlOrSp() + d.Name)
		if len(d.Prefix) > 0 {
			// (a comment between `prefix` and its tokens would become part of the prefix
			// string in this grammar; only whitespace is used there)
			b.WriteString(r.nlOrSp() + "prefix" + []string{" ", "  ", "\n  ", "\t"}[r.pick(4)] + r.prefix(d.Prefix))
		}
		b.WriteString(r.nlOrSp() + "{" + r.nl())
		for _, o := range d.Ops {
			b.WriteString(r.doc(o.Doc, "  "))
			b.WriteString("  " + o.Name + r.sp(false) + ":" + r.nlOrSp() + r.typ(o.Type) + r.anns(o.Ann) + r.sep() + r.nl())
		}
		b.WriteString("}" + r.anns(d.Ann) + r.eos(last))
	}
	return b.String()
}

// nlOrSp: a `__` position that must not be empty (separates two words).
func (r *renderer) nlOrSp() string {
	switch r.pick(6) {
	case 1:
		return "\n"
	case 2:
		return "  "
	case 3:
		r.use("block-comment")
		return " /* between */ "
	case 4:
		r.use("slash-comment")
		return " // c\n  "
	}
	return " "
}

// RenderFile renders file fi of the program; returns the text and the lexical
// features used.
func RenderFile(p *Program, fi int, lex []byte) (string, map[string]int) {
	r := &renderer{p: p, fi: fi, lex: lex, used: map[string]int{}, pos: fi * 7}
	f := p.Files[fi]
	var b strings.Builder
	if r.pick(4) == 1 {
		r.use("leading-comment")
		b.WriteString("/*\n * header comment\n */\n// and a line comment\n# and a hash comment\n\n")
	}
	for _, inc := range f.Includes {
		g := p.Files[inc]
		rel := relPath(f.Dir, g.Path())
		b.WriteString("include" + r.sp(true) + r.quote(rel) + r.eos(false))
	}
	for _, ns := range f.Namespaces {
		vendor := ""
		if ns.Vendor != "" {
			vendor = r.sp(false) + "(vendor" + r.sp(false) + "=" + r.sp(false) + r.quote(ns.Vendor) + ")"
		}
		b.WriteString("namespace" + r.sp(true) + ns.Scope + r.sp(true) + ns.Value + vendor + r.eos(false))
	}
	for i, d := range f.Decls {
		b.WriteString(r.nl())
		b.WriteString(r.decl(d, i == len(f.Decls)-1))
	}
	r.sb = b
	return b.String(), r.used
}

func relPath(fromDir, to string) string {
	if fromDir == "" {
		return to
	}
	ups := strings.Repeat("../", len(strings.Split(fromDir, "/")))
	return ups + to
}

// Render renders all files: path (relative to the source root) -> text.
func Render(p *Program, lex []byte) (map[string]string, map[string]int) {
	out := map[string]string{}
	used := map[string]int{}
	for i, f := range p.Files {
		s, u := RenderFile(p, i, lex)
		out[f.Path()] = s
		for k, v := range u {
			used[k] += v
		}
	}
	return out, used
}

func sortedKeys(m map[string]string) []string {
	var ks []string
	for k := range m {
		ks = append(ks, k)
	}
	sort.Strings(ks)
	return ks
}

var _ = fmt.Sprint
