package idl

// Outer side of the generated-code bed (C02, C03, C16): generate a batch of
// programs, build the bed, run its test binary and fold its evidence and
// failures into this process's evidence.

import (
	"encoding/json"
	"flag"
	"fmt"
	"os"
	"os/exec"
	"path/filepath"
	"strconv"
	"strings"
	"testing"

	"pgregory.net/rapid"
	"verif/ev"
)

func goExecCfg() *Cfg {
	c := DefaultCfg()
	c.GoExec = true
	c.Docs = false
	c.Annots = false
	return c
}

type bedFailure struct {
	Inner   json.RawMessage `json:"inner"`   // failure record of the inner binary {check, sig, msg, case}
	Program BedProgram      `json:"program"` // the one program the failing case belongs to
	Index   int             `json:"index"`   // its index in the batch (case indices refer to a single-program bed after reduction)
	Tests   string          `json:"tests"`
}

func envInt(name string, def int) int {
	if v, err := strconv.Atoi(os.Getenv(name)); err == nil {
		return v
	}
	return def
}

// runBed builds a bed for progs and runs the inner tests matching `tests`.
// It returns the inner evidence file content.
func runBed(dir string, progs []BedProgram, tests string, checks int, seed int, replay string) (innerOut map[string]interface{}, output string, err error) {
	problems, err := BuildBed(dir, progs)
	if err != nil {
		return nil, "", err
	}
	_ = problems
	bin, err := BuildBedBinary(dir)
	if err != nil {
		return nil, "", err
	}
	outFile := filepath.Join(dir, "inner.json")
	args := []string{"-test.run", "^(" + tests + ")$", "-test.count=1", "-test.timeout=3000s", fmt.Sprintf("-rapid.checks=%d", checks), fmt.Sprintf("-rapid.seed=%d", seed), "-rapid.nofailfile", "-rapid.shrinktime=40s"}
	cmd := exec.Command(bin, args...)
	cmd.Dir = dir
	cmd.Env = append(os.Environ(), "VERIF_OUT="+outFile)
	if replay != "" {
		cmd.Env = append(cmd.Env, "VERIF_REPLAY="+replay)
	}
	b, rerr := cmd.CombinedOutput()
	output = string(b)
	if data, e := os.ReadFile(outFile); e == nil {
		json.Unmarshal(data, &innerOut)
	}
	if rerr != nil && innerOut == nil {
		return nil, output, fmt.Errorf("bed binary failed without evidence: %v\n%s", rerr, clip(output, 4000))
	}
	return innerOut, output, nil
}

func bedBatch(t *testing.T, name string, tests string) {
	seed := envInt("VERIF_RAPID_SEED", 1)
	nprog := envInt("VERIF_BED_PROGRAMS", 6)
	checks := envInt("VERIF_BED_CHECKS", 0)
	if checks == 0 {
		checks = 3000
		if f := flag.Lookup("rapid.checks"); f != nil {
			if v, err := strconv.Atoi(f.Value.String()); err == nil && v > 0 {
				checks = v
			}
		}
	}
	cfg := goExecCfg()
	gen := rapid.Custom(genProgCase(cfg))
	var progs []BedProgram
	for i := 0; i < nprog; i++ {
		pc := gen.Example(seed*1000 + i)
		if i%2 == 1 {
			addTwinThrower(pc.P)
		}
		progs = append(progs, BedProgram{P: pc.P, Lex: pc.Lex, Slim: i%3 == 2})
	}
	dir, cleanup := scratchDir("bed")
	defer cleanup()
	inner, output, err := runBed(dir, progs, tests, checks, seed, "")
	if err != nil {
		f := ev.Failf("harness:bed", "%v", err)
		// a bed that does not build because generated code does not compile is a C11-class finding; report it
		if strings.Contains(err.Error(), "building the bed failed") {
			f = ev.Failf("bed-build-failed:"+squash(firstBuildError(err.Error())), "the generated Go code of the batch does not build together with the driver: %v", err)
		}
		ev.RecordFailure(name, f, map[string]interface{}{"programs": progs, "tests": tests})
		t.Fatalf("%s", f.Msg)
	}
	mergeInner(name, inner, progs, tests, t, output)
	for k, v := range cfg.Excluded {
		ev.Count(name, "excluded:"+k, v)
	}
}

func firstBuildError(s string) string {
	for _, l := range strings.Split(s, "\n") {
		if strings.Contains(l, ".go:") {
			if i := strings.Index(l, ".go:"); i >= 0 {
				if j := strings.Index(l[i:], ": "); j >= 0 {
					return l[i+j+2:]
				}
			}
			return l
		}
	}
	return s
}

// mergeInner folds the inner evidence into ours and converts inner failures.
func mergeInner(name string, inner map[string]interface{}, progs []BedProgram, tests string, t *testing.T, output string) {
	if inner == nil {
		return
	}
	b, _ := json.Marshal(inner)
	var parsed struct {
		Checks map[string]struct {
			Evaluations int            `json:"evaluations"`
			NonTrivial  int            `json:"nontrivial"`
			Labels      map[string]int `json:"labels"`
			Samples     []interface{}  `json:"samples"`
			Extra       map[string]int `json:"extra"`
		} `json:"checks"`
		Hashes   map[string][]string `json:"hashes"`
		Failures []json.RawMessage   `json:"failures"`
	}
	json.Unmarshal(b, &parsed)
	for cname, st := range parsed.Checks {
		ev.MergeStats(cname, st.Evaluations, st.NonTrivial, st.Labels, st.Samples, st.Extra, parsed.Hashes[cname])
	}
	for _, fr := range parsed.Failures {
		var rec struct {
			Check string          `json:"check"`
			Sig   string          `json:"sig"`
			Msg   string          `json:"msg"`
			Case  json.RawMessage `json:"case"`
		}
		json.Unmarshal(fr, &rec)
		f := &ev.Failure{Sig: rec.Sig, Msg: rec.Msg}
		ev.RecordFailure(rec.Check+"@bed", f, bedFailure{Inner: fr, Program: BedProgram{}, Index: -1, Tests: tests})
		// keep the whole batch: inner case indices refer to it
		ev.RecordFailure(rec.Check+"@bed", f, map[string]interface{}{"inner": fr, "programs": progs, "tests": tests})
		t.Errorf("[%s] %s: %s", rec.Check, rec.Sig, clip(rec.Msg, 3000))
	}
	if len(parsed.Failures) == 0 && strings.Contains(output, "--- FAIL") {
		t.Errorf("bed binary reported a failure without a record:\n%s", clip(output, 3000))
	}
}

type bedReplayCase struct {
	Inner    json.RawMessage `json:"inner"`
	Programs []BedProgram    `json:"programs"`
	Tests    string          `json:"tests"`
}

func replayBed(raw []byte) *ev.Failure {
	var c bedReplayCase
	if err := json.Unmarshal(raw, &c); err != nil {
		return ev.Failf("harness:bad-replay", "%v", err)
	}
	if len(c.Programs) == 0 {
		return ev.Failf("harness:bad-replay", "no programs in the replay case")
	}
	dir, cleanup := scratchDir("bedreplay")
	defer cleanup()
	rp := filepath.Join(dir, "inner-replay.json")
	os.MkdirAll(dir, 0o755)
	os.WriteFile(rp, c.Inner, 0o644)
	_, output, err := runBed(dir, c.Programs, "TestReplay", 1, 1, rp)
	if err != nil {
		if strings.Contains(err.Error(), "building the bed failed") {
			return ev.Failf("bed-build-failed:"+squash(firstBuildError(err.Error())), "%v", err)
		}
		// the inner binary exits non-zero on REPLAY-FAIL without evidence
		output = err.Error()
	}
	for _, line := range strings.Split(output, "\n") {
		line = strings.TrimSpace(line)
		if strings.HasPrefix(line, "REPLAY-PASS") {
			return nil
		}
		if strings.HasPrefix(line, "REPLAY-FAIL") {
			parts := strings.SplitN(line, " ", 3)
			sig := ""
			if len(parts) == 3 {
				sig = parts[2]
			}
			return ev.Failf(sig, "inner replay failed:\n%s", clip(output, 3000))
		}
	}
	return ev.Failf("harness:bed-replay", "inner replay gave no verdict:\n%s", clip(output, 3000))
}

func init() {
	for _, n := range []string{"c02.roundtrip@bed", "c02.constructed@bed", "c03.rpc@bed", "c16.middleware@bed", "bed.bindings@bed", "bed.scopes@bed", "c02.bed", "c03.bed", "c16.bed", "c08.bed", "c07.bed"} {
		ev.Register(n, replayBed)
	}
}

func TestBedC02(t *testing.T) { bedBatch(t, "c02.bed", "TestBindings|TestC02|TestC02Build") }
func TestBedC03(t *testing.T) { bedBatch(t, "c03.bed", "TestBindings|TestC03|TestScopes") }
func TestBedC16(t *testing.T) { bedBatch(t, "c16.bed", "TestBindings|TestC16|TestScopes") }

// C08: the generated Go publishers and subscribers are executed against a recording broker.
func TestBedC08(t *testing.T) { bedBatch(t, "c08.bed", "TestBindings|TestScopes") }

// C07: generated publishers and subscribers of generated scopes, executed (exactly-once delivery of
// every published payload to the subscriber of the same topic, nothing to others).
func TestBedC07(t *testing.T) { bedBatch(t, "c07.bed", "TestBindings|TestScopes") }

// addTwinThrower gives every other program of a batch a method that declares two exceptions of
// the same name, one from an included file and one of its own (rare under the generator's
// own odds with only a few programs per batch).
func addTwinThrower(p *Program) {
	root := p.Root()
	ri := len(p.Files) - 1
	if len(root.Includes) == 0 {
		return
	}
	inc := root.Includes[0]
	for _, f := range []*File{p.Files[inc], root} {
		for _, d := range f.Decls {
			if NormName(d.Name) == NormName("ZzTwinError") || NormName(d.Name) == NormName("ZzTwinThrower") {
				return
			}
		}
	}
	p.Files[inc].Decls = append(p.Files[inc].Decls, &Decl{Kind: "exception", Name: "ZzTwinError",
		Fields: []Field{{ID: 1, Name: "why", Type: &Type{Kind: "base", Name: "string"}}}})
	root.Decls = append(root.Decls,
		&Decl{Kind: "exception", Name: "ZzTwinError", Fields: []Field{{ID: 1, Name: "code", Type: &Type{Kind: "base", Name: "i32"}}, {ID: 2, Name: "detail", Type: &Type{Kind: "base", Name: "string"}}}},
		&Decl{Kind: "service", Name: "ZzTwinThrower", Methods: []Method{{Name: "zzRaise", Ret: &Type{Kind: "base", Name: "i32"},
			Args: []Field{{ID: 1, Name: "which", Type: &Type{Kind: "base", Name: "i32"}}},
			Throws: []Field{
				{ID: 1, Name: "fromInclude", Type: &Type{Kind: "ref", Name: "ZzTwinError", File: inc}},
				{ID: 2, Name: "ofThisFile", Type: &Type{Kind: "ref", Name: "ZzTwinError", File: ri}}}}}})
}
