package idl

// Reference audit: the documented breaking-change rules (doc comments of
// compiler/parser/audit.go and the statement of C18), re-stated over the model.
// It compares the root files of two programs and returns the list of breaking
// changes it sees (empty = the audit must pass).

import (
	"fmt"
	"strings"
)

func cloneProgram(p *Program) *Program {
	var q Program
	jsonCopy(p, &q)
	return &q
}

// typeSig renders the resolved structure of a type as seen from file fi.
func (p *Program) typeSig(fi int, t *Type) string {
	if t == nil {
		return "void"
	}
	r := p.Resolve(t)
	switch r.Kind {
	case "base":
		return r.Name
	case "list":
		return "list<" + p.typeSig(fi, r.Val) + ">"
	case "set":
		return "set<" + p.typeSig(fi, r.Val) + ">"
	case "map":
		return "map<" + p.typeSig(fi, r.Key) + "," + p.typeSig(fi, r.Val) + ">"
	}
	if r.File == fi {
		return r.Name
	}
	return p.Files[r.File].Name + "." + r.Name
}

func isRequired(f Field, union, throws bool) bool {
	if union || throws {
		return false
	}
	return f.Req == "required"
}

func isOptional(f Field, union, throws bool) bool {
	if union || throws {
		return true
	}
	return f.Req == "optional"
}

func normPrefix(p []PrefixTok) string {
	var parts []string
	for _, t := range p {
		if t.Var {
			parts = append(parts, "{}")
		} else {
			parts = append(parts, t.Text)
		}
	}
	return strings.Join(parts, ".")
}

func refAuditFields(old, new *Program, what string, of, nf []Field, union, throws bool) []string {
	var out []string
	nm := map[int]Field{}
	for _, f := range nf {
		nm[f.ID] = f
	}
	om := map[int]Field{}
	oi, ni := len(old.Files)-1, len(new.Files)-1
	for _, f := range of {
		om[f.ID] = f
		g, ok := nm[f.ID]
		if !ok {
			if !isOptional(f, union, throws) {
				out = append(out, fmt.Sprintf("%s: non-optional field %d (%s) removed", what, f.ID, f.Name))
			}
			continue
		}
		if a, b := old.typeSig(oi, f.Type), new.typeSig(ni, g.Type); a != b {
			out = append(out, fmt.Sprintf("%s: field %d (%s) retyped %s -> %s", what, f.ID, f.Name, a, b))
		}
		if isRequired(f, union, throws) != isRequired(g, union, throws) {
			out = append(out, fmt.Sprintf("%s: field %d (%s) requiredness changed", what, f.ID, f.Name))
		}
	}
	for _, g := range nf {
		if _, ok := om[g.ID]; !ok && isRequired(g, union, throws) {
			out = append(out, fmt.Sprintf("%s: required field %d (%s) added", what, g.ID, g.Name))
		}
	}
	return out
}

// RefAudit returns the breaking changes of new relative to old (root files).
func RefAudit(old, new *Program) []string {
	var out []string
	of, nf := old.Root(), new.Root()
	oi, ni := len(old.Files)-1, len(new.Files)-1
	find := func(f *File, kind, name string) *Decl {
		for _, d := range f.Decls {
			if d.Kind == kind && d.Name == name {
				return d
			}
		}
		return nil
	}
	refName := func(p *Program, fi int, r *Ref) string {
		if r == nil {
			return ""
		}
		if r.File == fi {
			return r.Name
		}
		return p.Files[r.File].Name + "." + r.Name
	}
	for _, d := range of.Decls {
		switch d.Kind {
		case "scope":
			n := find(nf, "scope", d.Name)
			if n == nil {
				out = append(out, "scope "+d.Name+" removed")
				continue
			}
			if a, b := normPrefix(d.Prefix), normPrefix(n.Prefix); a != b {
				out = append(out, fmt.Sprintf("scope %s: prefix %q -> %q", d.Name, a, b))
			}
			for _, o := range d.Ops {
				var no *Op
				for i := range n.Ops {
					if n.Ops[i].Name == o.Name {
						no = &n.Ops[i]
					}
				}
				if no == nil {
					out = append(out, fmt.Sprintf("scope %s: operation %s removed", d.Name, o.Name))
				} else if a, b := old.typeSig(oi, o.Type), new.typeSig(ni, no.Type); a != b {
					out = append(out, fmt.Sprintf("scope %s: operation %s retyped %s -> %s", d.Name, o.Name, a, b))
				}
			}
		case "enum":
			n := find(nf, "enum", d.Name)
			if n == nil {
				continue // documented as a warning only
			}
			have := map[int]bool{}
			for _, v := range n.EnumValues {
				have[v.Value] = true
			}
			for _, v := range d.EnumValues {
				if !have[v.Value] {
					out = append(out, fmt.Sprintf("enum %s: value %s=%d removed", d.Name, v.Name, v.Value))
				}
			}
		case "struct", "union", "exception":
			n := find(nf, d.Kind, d.Name)
			if n == nil {
				out = append(out, d.Kind+" "+d.Name+" removed")
				continue
			}
			out = append(out, refAuditFields(old, new, d.Kind+" "+d.Name, d.Fields, n.Fields, d.Kind == "union", false)...)
		case "service":
			n := find(nf, "service", d.Name)
			if n == nil {
				out = append(out, "service "+d.Name+" removed")
				continue
			}
			if d.Extends != nil && refName(old, oi, d.Extends) != refName(new, ni, n.Extends) {
				out = append(out, fmt.Sprintf("service %s: extends changed", d.Name))
			}
			for _, m := range d.Methods {
				var nm *Method
				for i := range n.Methods {
					if n.Methods[i].Name == m.Name {
						nm = &n.Methods[i]
					}
				}
				what := fmt.Sprintf("service %s method %s", d.Name, m.Name)
				if nm == nil {
					out = append(out, what+" removed")
					continue
				}
				if m.Oneway != nm.Oneway {
					out = append(out, what+": oneway changed")
				}
				if a, b := old.typeSig(oi, m.Ret), new.typeSig(ni, nm.Ret); a != b {
					out = append(out, fmt.Sprintf("%s: return type %s -> %s", what, a, b))
				}
				out = append(out, refAuditFields(old, new, what+" args", m.Args, nm.Args, false, false)...)
				out = append(out, refAuditFields(old, new, what+" throws", m.Throws, nm.Throws, false, true)...)
				if m.Ret == nil && len(m.Throws) == 0 && len(nm.Throws) > 0 {
					out = append(out, what+": exceptions added to a void method without any")
				}
				if nm.Ret == nil && len(nm.Throws) == 0 && len(m.Throws) > 0 {
					out = append(out, what+": last exception of a void method removed")
				}
			}
		}
	}
	return out
}
