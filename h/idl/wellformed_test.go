package idl

import (
	"encoding/json"
	"go/parser"
	"go/token"
	"os"
	"strings"

	"verif/ev"
)

// wellFormed applies the per-target well-formedness oracle to emitted files.
func wellFormed(target, outDir string, files []string, complete bool) *ev.Failure {
	lang := strings.SplitN(target, ":", 2)[0]
	switch lang {
	case "go":
		fset := token.NewFileSet()
		for _, f := range files {
			if !strings.HasSuffix(f, ".go") {
				continue
			}
			if _, err := parser.ParseFile(fset, f, nil, parser.AllErrors); err != nil {
				src, _ := os.ReadFile(f)
				return ev.Failf("go-syntax", "-gen %s emitted Go that does not parse: %v\n--- %s\n%s", target, err, f, clip(string(src), 3000))
			}
		}
		// type-check against the runtime (needs the included packages, i.e. -r or no includes)
		if complete {
			prefix := ""
			if i := strings.Index(target, "package_prefix="); i >= 0 {
				prefix = strings.SplitN(target[i+len("package_prefix="):], ",", 2)[0]
				if !strings.HasSuffix(prefix, "/") {
					prefix += "/"
				}
			}
			problem, err := typeCheckGo(outDir, prefix)
			if err != nil {
				return ev.Failf("harness:gotypes", "%v", err)
			}
			if problem != "" {
				return ev.Failf("go-typecheck:"+squash(firstTypeErr(problem)), "-gen %s emitted Go that does not type-check against the runtime: %s", target, problem)
			}
		}
	case "java":
		r, err := javaParse(outDir)
		if err != nil {
			return ev.Failf("harness:java-peer", "%v", err)
		}
		if r.Errors > 0 {
			return ev.Failf("java-syntax", "-gen %s emitted Java that javac's parser rejects (%d errors in %d files): %s\n%s", target, r.Errors, r.Files, r.First, fileAround(r.First))
		}
	case "py":
		tornado := strings.Contains(target, "tornado")
		asyncio := strings.Contains(target, "asyncio")
		// py:tornado output is Python 2 syntax by design; py:asyncio needs Python 3; vanilla must parse under both
		if !tornado {
			r, err := pyCheck(false, "py", outDir)
			if err != nil {
				return ev.Failf("harness:py-peer", "%v", err)
			}
			if r.Errors > 0 {
				return ev.Failf("python-syntax", "-gen %s emitted Python that CPython 3 rejects (%d errors in %d files): %s\n%s", target, r.Errors, r.Files, r.First, fileAround(r.First))
			}
		}
		if !asyncio {
			r, err := pyCheck(true, "py", outDir)
			if err != nil {
				return ev.Failf("harness:py-peer", "%v", err)
			}
			if r.Errors > 0 {
				return ev.Failf("python-syntax", "-gen %s emitted Python that CPython 2.7 rejects (%d errors in %d files): %s\n%s", target, r.Errors, r.Files, r.First, fileAround(r.First))
			}
		}
	case "html":
		r, err := pyCheck(false, "html", outDir)
		if err != nil {
			return ev.Failf("harness:py-peer", "%v", err)
		}
		if r.Errors > 0 {
			return ev.Failf("html-structure", "-gen %s emitted HTML with unbalanced tags: %s", target, r.First)
		}
	case "dart":
		for _, f := range files {
			if !strings.HasSuffix(f, ".dart") {
				continue
			}
			b, _ := os.ReadFile(f)
			if p := dartBalance(string(b)); p != "" {
				return ev.Failf("dart-lexical", "-gen %s emitted Dart that is lexically unbalanced: %s: %s", target, f, p)
			}
		}
	case "json":
		for _, f := range files {
			b, _ := os.ReadFile(f)
			var v interface{}
			if err := json.Unmarshal(b, &v); err != nil {
				return ev.Failf("json-syntax", "-gen %s emitted invalid JSON: %v\n%s", target, err, clip(string(b), 2000))
			}
		}
	}
	return nil
}

func clip(s string, n int) string {
	if len(s) > n {
		return s[:n] + "\n…"
	}
	return s
}

func firstTypeErr(p string) string {
	lines := strings.Split(p, "\n")
	if len(lines) > 1 {
		l := strings.TrimSpace(lines[1])
		// drop the file position
		if i := strings.Index(l, ".go:"); i >= 0 {
			if j := strings.Index(l[i:], ": "); j >= 0 {
				l = l[i+j+2:]
			}
		}
		return l
	}
	return p
}

// fileAround shows the neighbourhood of "path:line: msg".
func fileAround(first string) string {
	parts := strings.SplitN(first, ":", 3)
	if len(parts) < 2 {
		return ""
	}
	b, err := os.ReadFile(parts[0])
	if err != nil {
		return ""
	}
	ln := 0
	for _, c := range parts[1] {
		if c < '0' || c > '9' {
			break
		}
		ln = ln*10 + int(c-'0')
	}
	lines := strings.Split(string(b), "\n")
	lo, hi := ln-6, ln+3
	if lo < 0 {
		lo = 0
	}
	if hi > len(lines) {
		hi = len(lines)
	}
	return "--- " + parts[0] + "\n" + strings.Join(lines[lo:hi], "\n")
}
