package idl

// In-process type checking of generated Go code against the runtime: the
// export data of github.com/Workiva/frugal/lib/go (built from /repo's working
// tree), Thrift and logrus is obtained once through `go list -export`; the
// generated packages are checked with go/types in dependency order.

import (
	"fmt"
	"go/ast"
	"go/importer"
	"go/parser"
	"go/token"
	"go/types"
	"io"
	"os"
	"os/exec"
	"path/filepath"
	"sort"
	"strings"
	"sync"
)

var (
	exportOnce sync.Once
	exportMap  map[string]string
	exportErr  error
)

func verifDir() string {
	if d := os.Getenv("VERIF_DIR"); d != "" {
		return d
	}
	return "/verif"
}

func loadExports() (map[string]string, error) {
	exportOnce.Do(func() {
		cmd := exec.Command("go", "list", "-export", "-deps", "-f", "{{.ImportPath}}={{.Export}}",
			"github.com/Workiva/frugal/lib/go", "github.com/apache/thrift/lib/go/thrift", "github.com/sirupsen/logrus", "std")
		cmd.Dir = filepath.Join(verifDir(), "h", "rt")
		cmd.Env = append(os.Environ(), "GOFLAGS=-mod=mod", "GOPROXY=off", "GOSUMDB=off", "GOTOOLCHAIN=local")
		out, err := cmd.Output()
		if err != nil {
			msg := ""
			if ee, ok := err.(*exec.ExitError); ok {
				msg = string(ee.Stderr)
			}
			exportErr = fmt.Errorf("go list -export failed: %v %s", err, msg)
			return
		}
		exportMap = map[string]string{}
		for _, line := range strings.Split(string(out), "\n") {
			if i := strings.Index(line, "="); i > 0 && len(line) > i+1 {
				exportMap[line[:i]] = line[i+1:]
			}
		}
	})
	return exportMap, exportErr
}

type genImporter struct {
	base  types.Importer
	local map[string]*types.Package
}

func (g *genImporter) Import(path string) (*types.Package, error) {
	if p, ok := g.local[path]; ok {
		return p, nil
	}
	return g.base.Import(path)
}

// typeCheckGo checks every package under outDir. importPrefix is what the
// generator was told to prepend to generated import paths (package_prefix).
// Returns a description of the first problem, or "".
const altFrugalImport = "vendored.example/third_party/frugal"

func typeCheckGo(outDir, importPrefix string) (string, error) {
	exports, err := loadExports()
	if err != nil {
		return "", err
	}
	fset := token.NewFileSet()
	lookup := func(path string) (io.ReadCloser, error) {
		if path == altFrugalImport {
			// -gen go:frugal_import=<path>: the runtime under another import path
			path = "github.com/Workiva/frugal/lib/go"
		}
		f, ok := exports[path]
		if !ok || f == "" {
			return nil, fmt.Errorf("no export data for %q", path)
		}
		return os.Open(f)
	}
	imp := &genImporter{base: importer.ForCompiler(fset, "gc", lookup), local: map[string]*types.Package{}}

	type pkg struct {
		path  string
		files []*ast.File
		names []string
	}
	pkgs := map[string]*pkg{}
	err = filepath.Walk(outDir, func(p string, info os.FileInfo, err error) error {
		if err != nil || info.IsDir() || !strings.HasSuffix(p, ".go") {
			return err
		}
		rel, _ := filepath.Rel(outDir, filepath.Dir(p))
		ip := importPrefix + filepath.ToSlash(rel)
		f, perr := parser.ParseFile(fset, p, nil, parser.AllErrors)
		if perr != nil {
			return fmt.Errorf("parse %s: %v", p, perr)
		}
		if pkgs[ip] == nil {
			pkgs[ip] = &pkg{path: ip}
		}
		pkgs[ip].files = append(pkgs[ip].files, f)
		pkgs[ip].names = append(pkgs[ip].names, p)
		return nil
	})
	if err != nil {
		return err.Error(), nil
	}
	var order []string
	for k := range pkgs {
		order = append(order, k)
	}
	sort.Strings(order)
	done := map[string]bool{}
	for round := 0; round <= len(order); round++ {
		progress := false
		for _, ip := range order {
			if done[ip] {
				continue
			}
			ready := true
			for _, f := range pkgs[ip].files {
				for _, im := range f.Imports {
					path := strings.Trim(im.Path.Value, `"`)
					if _, gen := pkgs[path]; gen && !done[path] && path != ip {
						ready = false
					}
				}
			}
			if !ready {
				continue
			}
			var errs []string
			conf := types.Config{Importer: imp, Error: func(e error) {
				if len(errs) < 8 {
					errs = append(errs, e.Error())
				}
			}}
			tp, _ := conf.Check(ip, fset, pkgs[ip].files, nil)
			if len(errs) > 0 {
				return fmt.Sprintf("package %q does not type-check:\n  %s", ip, strings.Join(errs, "\n  ")), nil
			}
			imp.local[ip] = tp
			done[ip] = true
			progress = true
		}
		if !progress {
			break
		}
	}
	for _, ip := range order {
		if !done[ip] {
			return fmt.Sprintf("package %q could not be ordered for type checking (import cycle among generated packages?)", ip), nil
		}
	}
	return "", nil
}
