package idl

// C18 — the IDL audit flags every breaking change and nothing else.

import (
	"fmt"
	"path/filepath"
	"strings"
	"testing"
	"time"

	"github.com/Workiva/frugal/compiler/parser"
	"pgregory.net/rapid"
	"verif/ev"
)

type c18Case struct {
	P     *Program `json:"program"`
	LexA  []byte   `json:"lex_old"`
	LexB  []byte   `json:"lex_new"`
	Edits []Edit   `json:"edits"`
}

type recLogger struct {
	warnings, errors []string
}

func (l *recLogger) LogWarning(s ...string) { l.warnings = append(l.warnings, strings.Join(s, " ")) }
func (l *recLogger) LogError(s ...string)   { l.errors = append(l.errors, strings.Join(s, " ")) }
func (l *recLogger) ErrorsLogged() bool     { return len(l.errors) > 0 }

func genC18(c *Cfg) func(t *rapid.T) c18Case {
	g := genProgCase(c)
	all := append(append([]string{}, BreakingEdits...), CompatibleEdits...)
	return func(t *rapid.T) c18Case {
		pc := g(t)
		out := c18Case{P: pc.P, LexA: pc.Lex}
		if rapid.Bool().Draw(t, "sameLex") {
			out.LexB = pc.Lex
		} else {
			out.LexB = rapid.SliceOfN(rapid.Byte(), 0, 24).Draw(t, "lexB")
		}
		n := rapid.SampledFrom([]int{1, 1, 1, 2, 3, 4}).Draw(t, "nedits")
		for i := 0; i < n; i++ {
			var k string
			switch rapid.IntRange(0, 2).Draw(t, "class") {
			case 0:
				k = rapid.SampledFrom(CompatibleEdits).Draw(t, "compatible")
			case 1:
				k = rapid.SampledFrom(BreakingEdits).Draw(t, "breaking")
			default:
				k = rapid.SampledFrom(all).Draw(t, "any")
			}
			out.Edits = append(out.Edits, Edit{Kind: k, A: rapid.IntRange(0, 1000).Draw(t, "a"), B: rapid.IntRange(0, 1000).Draw(t, "b"), C: rapid.IntRange(0, 1000).Draw(t, "c")})
		}
		return out
	}
}

type c18Applied struct {
	q        *Program
	applied  []string
	sites    []string
	anyBreak bool
	deep     bool
}

func applyAll(c c18Case) c18Applied {
	a := c18Applied{q: c.P}
	for _, e := range c.Edits {
		q, ok, site := ApplyEdit(a.q, e)
		if !ok {
			continue
		}
		a.q = q
		a.applied = append(a.applied, e.Kind)
		a.sites = append(a.sites, site)
		if isBreakingKind(e.Kind) {
			a.anyBreak = true
		}
		if e.A > 0 || e.Kind == "retarget-typedef" || e.Kind == "alias-type" {
			a.deep = true
		}
	}
	return a
}

func classifyC18(c c18Case) ev.Class {
	a := applyAll(c)
	labels := []string{fmt.Sprintf("applied=%d", len(a.applied))}
	for _, k := range a.applied {
		labels = append(labels, "edit="+k)
	}
	if a.anyBreak {
		labels = append(labels, "expect-fail")
	} else {
		labels = append(labels, "expect-pass")
	}
	if len(c.P.Files) > 1 {
		labels = append(labels, "multi-file")
	}
	nt := len(a.applied) >= 2 || (len(a.applied) == 1 && a.deep)
	return ev.Class{NonTrivial: nt, Key: fmt.Sprintf("%s|%+v", allTexts(func() map[string]string { m, _ := Render(c.P, c.LexA); return m }()), c.Edits), Labels: uniq(labels)}
}

func checkC18(c c18Case) *ev.Failure {
	var f *ev.Failure
	ok, p := within(60*time.Second, func() { f = checkC18Inner(c) })
	if !ok {
		return ev.Failf("hang:audit", "audit did not finish in 60s")
	}
	if p != "" {
		return ev.Failf("panic:audit:"+panicSig(p), "%s", firstLines(p, 14))
	}
	return f
}

func checkC18Inner(c c18Case) *ev.Failure {
	a := applyAll(c)
	breaks := RefAudit(c.P, a.q)
	expectFail := len(breaks) > 0
	if len(a.applied) == 1 && expectFail != a.anyBreak {
		return ev.Failf("harness:catalogue-vs-reference", "edit %s at %s: catalogue says breaking=%v, reference audit says %v", a.applied[0], a.sites[0], a.anyBreak, breaks)
	}
	dir, cleanup := scratchDir("c18")
	defer cleanup()
	oldRoot, oldTexts, _, err := writeProgram(c.P, c.LexA, filepath.Join(dir, "old"))
	if err != nil {
		return ev.Failf("harness:write", "%v", err)
	}
	newRoot, newTexts, _, err := writeProgram(a.q, c.LexB, filepath.Join(dir, "new"))
	if err != nil {
		return ev.Failf("harness:write", "%v", err)
	}
	lg := &recLogger{}
	aerr := parser.NewAuditorWithLogger(lg).Audit(oldRoot, newRoot)
	describe := func() string {
		return fmt.Sprintf("edits applied: %v at %v\nreference audit: %v\naudit errors: %v\naudit warnings: %v\n--- old root\n%s\n--- new root\n%s",
			a.applied, a.sites, breaks, lg.errors, lg.warnings, oldTexts[c.P.Root().Path()], newTexts[a.q.Root().Path()])
	}
	if aerr != nil && len(lg.errors) == 0 {
		return ev.Failf("audit-rejects-valid", "the audit could not process two valid programs: %v\n%s", aerr, describe())
	}
	if expectFail && aerr == nil {
		return ev.Failf("breaking-change-missed:"+firstKind(a.applied, true), "the audit passes although the new program contains a documented breaking change\n%s", describe())
	}
	if !expectFail && aerr != nil {
		return ev.Failf("compatible-change-flagged:"+firstKind(a.applied, false), "the audit fails although only documented compatible edits were applied\n%s", describe())
	}
	if expectFail && len(a.applied) == 1 && a.sites[0] != "-" {
		// the ERROR line must name the edited declaration
		name := ""
		for _, w := range strings.Fields(a.sites[0]) {
			switch w {
			case "scope", "struct", "union", "exception", "enum", "service", "typedef", "const":
				continue
			}
			name = strings.SplitN(w, ".", 2)[0]
			break
		}
		found := false
		for _, e := range lg.errors {
			if strings.Contains(e, name) {
				found = true
			}
		}
		if !found && a.applied[0] != "retarget-typedef" {
			return ev.Failf("error-does-not-name-declaration", "no ERROR line mentions %q\n%s", name, describe())
		}
	}
	return nil
}

func firstKind(applied []string, breaking bool) string {
	for _, k := range applied {
		if isBreakingKind(k) == breaking {
			return k
		}
	}
	if len(applied) > 0 {
		return applied[0]
	}
	return "none"
}

var c18Cfg = func() *Cfg { c := DefaultCfg(); c.Docs = true; return c }()

var c18Prop = ev.Prop("c18.audit", genC18(c18Cfg), checkC18, classifyC18, func(c c18Case) interface{} {
	a := applyAll(c)
	return map[string]interface{}{"edits": a.applied, "sites": a.sites, "files": len(c.P.Files), "reference_verdict": RefAudit(c.P, a.q)}
})

func TestC18Audit(t *testing.T) { rapid.Check(t, c18Prop) }
