package idl

import (
	"fmt"
	"io"
	"log"
	"os"
	"testing"

	"verif/ev"
)

func TestMain(m *testing.M) {
	log.SetOutput(io.Discard)
	code := m.Run()
	stopPeers()
	ev.Flush()
	os.Exit(code)
}

func TestReplay(t *testing.T) {
	path := os.Getenv("VERIF_REPLAY")
	if path == "" {
		t.Skip("no VERIF_REPLAY")
	}
	name, f, err := ev.Replay(path)
	if err != nil {
		fmt.Printf("REPLAY-ERROR %s %v\n", name, err)
		t.Fatalf("replay error: %v", err)
	}
	if f != nil {
		fmt.Printf("REPLAY-FAIL %s %s\n", name, f.Sig)
		t.Fatalf("[%s] %s: %s", name, f.Sig, f.Msg)
	}
	fmt.Printf("REPLAY-PASS %s\n", name)
}
