package idl

// Catalogue of IDL edits for C18, applied to the root file of a program at
// drawn sites. Every edit keeps the program valid. `Breaking` is the
// catalogue's classification (documented breaking change or documented
// compatible edit); the reference audit (audit_ref.go) is the oracle, the
// catalogue flag is cross-checked against it.

import (
	"encoding/json"
	"fmt"
	"strings"
)

func jsonCopy(src, dst interface{}) {
	b, _ := json.Marshal(src)
	json.Unmarshal(b, dst)
}

type Edit struct {
	Kind string `json:"kind"`
	A    int    `json:"a"`
	B    int    `json:"b"`
	C    int    `json:"c"`
}

var BreakingEdits = []string{"remove-scope", "prefix-add-token", "prefix-remove-token", "prefix-rename-token", "prefix-add-var", "prefix-remove-var",
	"remove-op", "retype-op", "remove-structlike", "retype-field", "toggle-required", "add-required-field", "remove-nonoptional-field",
	"remove-enum-value", "renumber-enum-value", "remove-service", "change-extends", "remove-method", "toggle-oneway", "retype-return",
	"retype-arg", "remove-arg", "add-required-arg", "retype-exception", "add-exception-to-bare-void", "remove-last-exception-of-void", "retarget-typedef",
	"add-required-field-in-middle", "add-required-arg-in-middle", "retype-const-and-field", "swap-include-qualifier"}

var CompatibleEdits = []string{"identity", "rename-field", "rename-arg", "rename-exception", "rename-prefix-var", "rename-enum-variant",
	"add-optional-field", "add-default-field", "add-field-in-middle", "add-enum-value", "add-method", "add-service", "add-scope", "add-op", "add-struct",
	"change-namespace", "change-const", "remove-const", "change-default", "alias-type", "reorder-decls", "reorder-fields", "change-docs",
	"remove-optional-field", "add-extends", "optional-default-swap", "add-exception", "add-optional-arg", "rename-method-arg-and-doc"}

func isBreakingKind(k string) bool {
	for _, b := range BreakingEdits {
		if b == k {
			return true
		}
	}
	return false
}

// countRefs counts uses of declaration (fi,name) anywhere in the program
// (types, extends, enum identifiers in values).
func countRefs(p *Program, fi int, name string) int {
	n := 0
	p.WalkTypes(func(_ int, _ string, t *Type) {
		if t.Kind == "ref" && t.File == fi && t.Name == name {
			n++
		}
	})
	for _, f := range p.Files {
		for _, d := range f.Decls {
			if d.Extends != nil && d.Extends.File == fi && d.Extends.Name == name {
				n++
			}
		}
	}
	n += countIdentRefs(p, name+".")
	return n
}

func countIdentRefs(p *Program, needle string) int {
	n := 0
	var walk func(v *Value)
	walk = func(v *Value) {
		if v == nil {
			return
		}
		if v.Kind == "ident" && (strings.HasPrefix(v.Ident, needle) || strings.Contains(v.Ident, "."+needle)) {
			n++
		}
		for _, e := range v.L {
			walk(e)
		}
		for _, kv := range v.M {
			walk(kv[0])
			walk(kv[1])
		}
	}
	for _, f := range p.Files {
		for _, d := range f.Decls {
			walk(d.Value)
			for _, fl := range d.Fields {
				walk(fl.Default)
			}
		}
	}
	return n
}

type editor struct {
	p *Program
	r int
	f *File
	e Edit
}

func (ed *editor) decls(kinds ...string) []*Decl {
	var out []*Decl
	for _, d := range ed.f.Decls {
		for _, k := range kinds {
			if d.Kind == k {
				out = append(out, d)
			}
		}
	}
	return out
}

func (ed *editor) freshName(prefix string) string {
	used := map[string]bool{}
	for _, d := range ed.f.Decls {
		used[normName(d.Name)] = true
	}
	for i := 0; ; i++ {
		n := fmt.Sprintf("%s%d", prefix, i)
		if !used[normName(n)] {
			return n
		}
	}
}

func freshMember(fields []Field, prefix string) string {
	used := map[string]bool{}
	for _, f := range fields {
		used[normName(f.Name)] = true
	}
	for i := 0; ; i++ {
		n := fmt.Sprintf("%s%d", prefix, i)
		if !used[normName(n)] {
			return n
		}
	}
}

func maxID(fields []Field) int {
	m := 0
	for _, f := range fields {
		if f.ID > m {
			m = f.ID
		}
	}
	return m
}

// retype changes one leaf of the type so that its resolved structure differs.
func (ed *editor) retype(t *Type, sel int, key bool) *Type {
	switch t.Kind {
	case "list":
		if sel%3 == 0 {
			return &Type{Kind: "set", Val: ed.keyable(t.Val)}
		}
		return &Type{Kind: "list", Val: ed.retype(t.Val, sel/3, false)}
	case "set":
		return &Type{Kind: "set", Val: ed.retype(t.Val, sel, true)}
	case "map":
		if sel%2 == 0 {
			return &Type{Kind: "map", Key: ed.retype(t.Key, sel/2, true), Val: t.Val}
		}
		return &Type{Kind: "map", Key: t.Key, Val: ed.retype(t.Val, sel/2, false)}
	}
	// leaf: base or ref
	cur := ed.p.typeSig(ed.r, t)
	cands := []string{"i32", "i64", "string", "bool", "double", "i16"}
	if !key {
		cands = append(cands, "binary")
	}
	for i := 0; i < len(cands); i++ {
		c := cands[(sel+i)%len(cands)]
		if c != cur {
			return &Type{Kind: "base", Name: c}
		}
	}
	return &Type{Kind: "base", Name: "i64"}
}

// keyable returns t if it can be a set element, else a string.
func (ed *editor) keyable(t *Type) *Type {
	k := ed.p.KindOf(t)
	if k == "enum" {
		return t
	}
	if r := ed.p.Resolve(t); r.Kind == "base" && r.Name != "binary" {
		return t
	}
	return &Type{Kind: "base", Name: "string"}
}

type fieldSite struct {
	fields *[]Field
	idx    int
	union  bool
	throws bool
	args   bool
	owner  string
}

func (ed *editor) fieldSites(structs, args, throws bool) []fieldSite {
	var out []fieldSite
	for _, d := range ed.f.Decls {
		if structs && d.StructLike() {
			for i := range d.Fields {
				out = append(out, fieldSite{&d.Fields, i, d.Kind == "union", false, false, d.Name})
			}
		}
		if d.Kind == "service" {
			for mi := range d.Methods {
				m := &d.Methods[mi]
				if args {
					for i := range m.Args {
						out = append(out, fieldSite{&m.Args, i, false, false, true, d.Name + "." + m.Name})
					}
				}
				if throws {
					for i := range m.Throws {
						out = append(out, fieldSite{&m.Throws, i, false, true, false, d.Name + "." + m.Name})
					}
				}
			}
		}
	}
	return out
}

type methodSite struct {
	svc *Decl
	idx int
}

func (ed *editor) methodSites() []methodSite {
	var out []methodSite
	for _, d := range ed.decls("service") {
		for i := range d.Methods {
			out = append(out, methodSite{d, i})
		}
	}
	return out
}

func (ed *editor) exceptionTypes() []*Type {
	var out []*Type
	for _, d := range ed.decls("exception") {
		out = append(out, &Type{Kind: "ref", Name: d.Name, File: ed.r})
	}
	return out
}

func removeField(fs *[]Field, i int) { *fs = append((*fs)[:i:i], (*fs)[i+1:]...) }

func removeDecl(f *File, d *Decl) {
	for i, x := range f.Decls {
		if x == d {
			f.Decls = append(f.Decls[:i:i], f.Decls[i+1:]...)
			return
		}
	}
}

// ApplyEdit applies e to a copy of p. ok=false means the edit had no applicable site.
// site is a short description of where it was applied.
func ApplyEdit(p *Program, e Edit) (q *Program, ok bool, site string) {
	q = cloneProgram(p)
	ed := &editor{p: q, r: len(q.Files) - 1, e: e}
	ed.f = q.Files[ed.r]
	pick := func(n int) int { return e.A % n }
	pick2 := func(n int) int { return e.B % n }

	switch e.Kind {
	case "identity":
		return q, true, "-"

	// ---------------- a constant (compatible on its own) and a field / argument of the same type
	// retyped in the same way: the field change is still a breaking change
	case "retype-const-and-field":
		type pair struct {
			c *Decl
			s fieldSite
		}
		var pairs []pair
		for _, c := range ed.decls("const") {
			if c.Type == nil || c.Type.Kind != "base" || c.Type.Name == "binary" {
				continue
			}
			for _, fs := range ed.fieldSites(true, true, false) {
				f := (*fs.fields)[fs.idx]
				if f.Type.Kind == "base" && f.Type.Name == c.Type.Name {
					pairs = append(pairs, pair{c, fs})
				}
			}
		}
		if len(pairs) == 0 {
			return q, false, ""
		}
		pr := pairs[pick(len(pairs))]
		nt := ed.retype(pr.c.Type, e.C, true)
		zero := map[string]*Value{"bool": {Kind: "bool"}, "string": {Kind: "string"}, "double": {Kind: "double"}}[nt.Name]
		if zero == nil {
			zero = &Value{Kind: "int"}
		}
		if countIdentRefs(q, pr.c.Name) > 0 {
			return q, false, ""
		}
		pr.c.Type, pr.c.Value = nt, zero
		f := &(*pr.s.fields)[pr.s.idx]
		f.Type, f.Default = &Type{Kind: "base", Name: nt.Name}, nil
		return q, true, fmt.Sprintf("%s field %d (%s) and const %s", pr.s.owner, f.ID, f.Name, pr.c.Name)

	// ---------------- a reference moves to the declaration of the same name in another include
	case "swap-include-qualifier":
		type occ struct {
			t     *Type
			def   **Value
			where string
		}
		var occs []occ
		var collect func(t *Type, def **Value, where string)
		collect = func(t *Type, def **Value, where string) {
			if t == nil {
				return
			}
			if t.Kind == "ref" && t.File != ed.r {
				occs = append(occs, occ{t, def, where})
			}
			collect(t.Key, def, where)
			collect(t.Val, def, where)
		}
		for _, d := range ed.f.Decls {
			if d.StructLike() {
				for i := range d.Fields {
					collect(d.Fields[i].Type, &d.Fields[i].Default, fmt.Sprintf("%s field %d (%s)", d.Name, d.Fields[i].ID, d.Fields[i].Name))
				}
			}
			for mi := range d.Methods {
				m := &d.Methods[mi]
				collect(m.Ret, nil, fmt.Sprintf("%s.%s return type", d.Name, m.Name))
				for i := range m.Args {
					collect(m.Args[i].Type, &m.Args[i].Default, fmt.Sprintf("%s.%s argument %d", d.Name, m.Name, m.Args[i].ID))
				}
				for i := range m.Throws {
					collect(m.Throws[i].Type, nil, fmt.Sprintf("%s.%s exception %d", d.Name, m.Name, m.Throws[i].ID))
				}
			}
			for i := range d.Ops {
				collect(d.Ops[i].Type, nil, fmt.Sprintf("scope %s operation %s", d.Name, d.Ops[i].Name))
			}
		}
		type swap struct {
			o  occ
			to int
		}
		var swaps []swap
		for _, o := range occs {
			cur := q.Decl(o.t.File, o.t.Name)
			if cur == nil || cur.Kind == "typedef" {
				continue
			}
			for _, inc := range ed.f.Includes {
				if inc == o.t.File {
					continue
				}
				if other := q.Decl(inc, o.t.Name); other != nil && other.Kind == cur.Kind {
					swaps = append(swaps, swap{o, inc})
				}
			}
		}
		if len(swaps) > 0 {
			sw := swaps[pick(len(swaps))]
			from := q.Files[sw.o.t.File].Name
			sw.o.t.File = sw.to
			if sw.o.def != nil {
				*sw.o.def = nil
			}
			return q, true, fmt.Sprintf("%s : %s.%s -> %s.%s", sw.o.where, from, sw.o.t.Name, q.Files[sw.to].Name, sw.o.t.Name)
		}
		// ... or a service extends the service of the same name in another include
		for _, d := range ed.decls("service") {
			if d.Extends == nil || d.Extends.File == ed.r {
				continue
			}
			for _, inc := range ed.f.Includes {
				if inc != d.Extends.File && q.Service(inc, d.Extends.Name) != nil {
					from := q.Files[d.Extends.File].Name
					d.Extends.File = inc
					return q, true, fmt.Sprintf("service %s extends %s.%s -> %s.%s", d.Name, from, d.Extends.Name, q.Files[inc].Name, d.Extends.Name)
				}
			}
		}
		return q, false, ""

	// ---------------- scopes
	case "remove-scope":
		ds := ed.decls("scope")
		if len(ds) == 0 {
			return q, false, ""
		}
		d := ds[pick(len(ds))]
		removeDecl(ed.f, d)
		return q, true, "scope " + d.Name
	case "prefix-add-token", "prefix-add-var", "prefix-remove-token", "prefix-remove-var", "prefix-rename-token", "rename-prefix-var":
		ds := ed.decls("scope")
		if len(ds) == 0 {
			return q, false, ""
		}
		d := ds[pick(len(ds))]
		switch e.Kind {
		case "prefix-add-token", "prefix-add-var":
			tok := PrefixTok{Text: fmt.Sprintf("zz%d", e.C%7)}
			if e.Kind == "prefix-add-var" {
				tok = PrefixTok{Var: true, Text: fmt.Sprintf("var%d", len(d.Prefix))}
				for _, t := range d.Prefix {
					if t.Var && t.Text == tok.Text {
						return q, false, ""
					}
				}
			}
			pos := e.B % (len(d.Prefix) + 1)
			d.Prefix = append(d.Prefix[:pos:pos], append([]PrefixTok{tok}, d.Prefix[pos:]...)...)
		default:
			wantVar := e.Kind == "prefix-remove-var" || e.Kind == "rename-prefix-var"
			var idx []int
			for i, t := range d.Prefix {
				if t.Var == wantVar {
					idx = append(idx, i)
				}
			}
			if len(idx) == 0 {
				return q, false, ""
			}
			i := idx[pick2(len(idx))]
			switch e.Kind {
			case "prefix-remove-token", "prefix-remove-var":
				d.Prefix = append(d.Prefix[:i:i], d.Prefix[i+1:]...)
			case "prefix-rename-token":
				if d.Prefix[i].Text == "renamed" {
					d.Prefix[i].Text = "renamed2"
				} else {
					d.Prefix[i].Text = "renamed"
				}
			case "rename-prefix-var":
				nn := fmt.Sprintf("rn%d", i)
				for _, t := range d.Prefix {
					if t.Var && t.Text == nn {
						return q, false, ""
					}
				}
				d.Prefix[i].Text = nn
			}
		}
		return q, true, "scope " + d.Name + " prefix"
	case "remove-op", "retype-op", "add-op":
		ds := ed.decls("scope")
		if len(ds) == 0 {
			return q, false, ""
		}
		d := ds[pick(len(ds))]
		switch e.Kind {
		case "add-op":
			used := map[string]bool{}
			for _, o := range d.Ops {
				used[normName(o.Name)] = true
			}
			n := "AddedOp"
			for i := 0; used[normName(n)]; i++ {
				n = fmt.Sprintf("AddedOp%d", i)
			}
			d.Ops = append(d.Ops, Op{Name: n, Type: &Type{Kind: "base", Name: "string"}})
			return q, true, "scope " + d.Name
		case "remove-op":
			if len(d.Ops) < 2 {
				return q, false, ""
			}
			i := pick2(len(d.Ops))
			name := d.Ops[i].Name
			d.Ops = append(d.Ops[:i:i], d.Ops[i+1:]...)
			return q, true, "scope " + d.Name + " op " + name
		default:
			i := pick2(len(d.Ops))
			d.Ops[i].Type = ed.retype(d.Ops[i].Type, e.C, false)
			return q, true, "scope " + d.Name + " op " + d.Ops[i].Name
		}
	case "add-scope":
		ed.f.Decls = append(ed.f.Decls, &Decl{Kind: "scope", Name: ed.freshName("AddedScope"), Prefix: []PrefixTok{{Text: "added"}}, Ops: []Op{{Name: "Op", Type: &Type{Kind: "base", Name: "i32"}}}})
		return q, true, "-"

	// ---------------- struct-likes
	case "remove-structlike":
		var cands []*Decl
		for _, d := range ed.decls("struct", "union", "exception") {
			if countRefs(q, ed.r, d.Name) == 0 {
				cands = append(cands, d)
			}
		}
		if len(cands) == 0 {
			return q, false, ""
		}
		d := cands[pick(len(cands))]
		removeDecl(ed.f, d)
		return q, true, d.Kind + " " + d.Name
	case "add-struct":
		ed.f.Decls = append(ed.f.Decls, &Decl{Kind: "struct", Name: ed.freshName("AddedStruct"), Fields: []Field{{ID: 1, Name: "a", Req: "required", Type: &Type{Kind: "base", Name: "i32"}}}})
		return q, true, "-"
	case "retype-field", "toggle-required", "remove-nonoptional-field", "remove-optional-field", "rename-field", "change-default", "alias-type", "optional-default-swap":
		sites := ed.fieldSites(true, false, false)
		var cands []fieldSite
		for _, s := range sites {
			f := (*s.fields)[s.idx]
			switch e.Kind {
			case "toggle-required", "optional-default-swap":
				if s.union {
					continue
				}
				if e.Kind == "optional-default-swap" && f.Req == "required" {
					continue
				}
			case "remove-nonoptional-field":
				if isOptional(f, s.union, false) {
					continue
				}
			case "remove-optional-field":
				if !isOptional(f, s.union, false) || (s.union && len(*s.fields) < 2) {
					continue
				}
			case "change-default":
				if f.Default == nil || f.Default.Kind != "int" && f.Default.Kind != "bool" && f.Default.Kind != "string" {
					continue
				}
			case "alias-type":
				if typeHasIncludedTypedefChain(q, ed.r, f.Type) {
					continue
				}
			}
			cands = append(cands, s)
		}
		if len(cands) == 0 {
			return q, false, ""
		}
		s := cands[pick(len(cands))]
		f := &(*s.fields)[s.idx]
		site = fmt.Sprintf("%s field %d (%s)", s.owner, f.ID, f.Name)
		switch e.Kind {
		case "retype-field":
			f.Type = ed.retype(f.Type, e.C, false)
			f.Default = nil
		case "toggle-required":
			if f.Req == "required" {
				f.Req = []string{"", "optional"}[e.B%2]
			} else {
				f.Req = "required"
			}
		case "optional-default-swap":
			if f.Req == "optional" {
				f.Req = ""
			} else {
				f.Req = "optional"
			}
		case "remove-nonoptional-field", "remove-optional-field":
			removeField(s.fields, s.idx)
		case "rename-field":
			f.Name = freshMember(*s.fields, "renamed")
		case "change-default":
			switch f.Default.Kind {
			case "int":
				f.Default.I = (f.Default.I + 1) % 100
			case "bool":
				f.Default.B = !f.Default.B
			case "string":
				f.Default.S += "x"
			}
		case "alias-type":
			name := ed.freshName("AddedAlias")
			td := &Decl{Kind: "typedef", Name: name, Type: f.Type}
			ed.f.Decls = append([]*Decl{td}, ed.f.Decls...)
			f.Type = &Type{Kind: "ref", Name: name, File: ed.r}
		}
		return q, true, site
	case "add-required-arg-in-middle":
		for _, ms := range ed.methodSites() {
			m := &ms.svc.Methods[ms.idx]
			used := map[int]bool{}
			lo, hi := 1<<30, 0
			for _, f := range m.Args {
				used[f.ID] = true
				if f.ID < lo {
					lo = f.ID
				}
				if f.ID > hi {
					hi = f.ID
				}
			}
			for id := lo + 1; id < hi; id++ {
				if !used[id] {
					m.Args = append(m.Args, Field{ID: id, Name: freshMember(m.Args, "middleArg"), Req: "required", Type: &Type{Kind: "base", Name: "bool"}})
					return q, true, fmt.Sprintf("service %s method %s", ms.svc.Name, m.Name)
				}
			}
		}
		return q, false, ""
	case "add-required-field", "add-optional-field", "add-default-field", "add-field-in-middle", "add-required-field-in-middle", "reorder-fields":
		var ds []*Decl
		for _, d := range ed.decls("struct", "exception") {
			ds = append(ds, d)
		}
		if e.Kind == "add-optional-field" || e.Kind == "reorder-fields" {
			ds = append(ds, ed.decls("union")...)
		}
		if len(ds) == 0 {
			return q, false, ""
		}
		d := ds[pick(len(ds))]
		switch e.Kind {
		case "reorder-fields":
			if len(d.Fields) < 2 {
				return q, false, ""
			}
			i := pick2(len(d.Fields) - 1)
			d.Fields[i], d.Fields[i+1] = d.Fields[i+1], d.Fields[i]
		case "add-field-in-middle", "add-required-field-in-middle":
			// an unused id strictly between the smallest and the largest id
			used := map[int]bool{}
			lo, hi := 1<<30, 0
			for _, f := range d.Fields {
				used[f.ID] = true
				if f.ID < lo {
					lo = f.ID
				}
				if f.ID > hi {
					hi = f.ID
				}
			}
			id := 0
			for i := lo + 1; i < hi; i++ {
				if !used[i] {
					id = i
					break
				}
			}
			if id == 0 {
				return q, false, ""
			}
			req := "optional"
			if e.Kind == "add-required-field-in-middle" {
				if d.Kind == "union" {
					return q, false, ""
				}
				req = "required"
			}
			d.Fields = append(d.Fields, Field{ID: id, Name: freshMember(d.Fields, "middle"), Req: req, Type: &Type{Kind: "base", Name: "string"}})
		default:
			req := map[string]string{"add-required-field": "required", "add-optional-field": "optional", "add-default-field": ""}[e.Kind]
			if d.Kind == "union" {
				req = ""
			}
			d.Fields = append(d.Fields, Field{ID: maxID(d.Fields) + 1 + e.C%3, Name: freshMember(d.Fields, "added"), Req: req, Type: &Type{Kind: "list", Val: &Type{Kind: "base", Name: "i64"}}})
		}
		return q, true, d.Kind + " " + d.Name

	// ---------------- enums
	case "remove-enum-value", "renumber-enum-value", "rename-enum-variant", "add-enum-value":
		ds := ed.decls("enum")
		if len(ds) == 0 {
			return q, false, ""
		}
		d := ds[pick(len(ds))]
		if e.Kind == "add-enum-value" {
			max := -1
			used := map[string]bool{}
			for _, v := range d.EnumValues {
				if v.Value > max {
					max = v.Value
				}
				used[normName(v.Name)] = true
			}
			n := "ADDED_VALUE"
			for i := 0; used[normName(n)]; i++ {
				n = fmt.Sprintf("ADDED_VALUE%d", i)
			}
			d.EnumValues = append(d.EnumValues, EnumValue{Name: n, Explicit: true, Value: max + 1 + e.C%3})
			return q, true, "enum " + d.Name
		}
		var idx []int
		for i, v := range d.EnumValues {
			if countIdentRefs(q, d.Name+"."+v.Name) == 0 {
				idx = append(idx, i)
			}
		}
		if len(idx) == 0 || (e.Kind == "remove-enum-value" && len(d.EnumValues) < 2) {
			return q, false, ""
		}
		i := idx[pick2(len(idx))]
		site = fmt.Sprintf("enum %s value %s", d.Name, d.EnumValues[i].Name)
		// make every value explicit first so that numbering of the others is unaffected
		for j := range d.EnumValues {
			d.EnumValues[j].Explicit = true
		}
		switch e.Kind {
		case "remove-enum-value":
			d.EnumValues = append(d.EnumValues[:i:i], d.EnumValues[i+1:]...)
		case "renumber-enum-value":
			max := 0
			for _, v := range d.EnumValues {
				if v.Value > max {
					max = v.Value
				}
			}
			// keep the text order monotonic: move the renumbered value to the end
			v := d.EnumValues[i]
			v.Value = max + 1 + e.C%3
			d.EnumValues = append(append(d.EnumValues[:i:i], d.EnumValues[i+1:]...), v)
		case "rename-enum-variant":
			d.EnumValues[i].Name = "RENAMED_" + fmt.Sprint(i)
			for j, v := range d.EnumValues {
				if j != i && normName(v.Name) == normName(d.EnumValues[i].Name) {
					return q, false, ""
				}
			}
		}
		return q, true, site

	// ---------------- services
	case "remove-service":
		var cands []*Decl
		for _, d := range ed.decls("service") {
			if countRefs(q, ed.r, d.Name) == 0 {
				cands = append(cands, d)
			}
		}
		if len(cands) == 0 {
			return q, false, ""
		}
		d := cands[pick(len(cands))]
		removeDecl(ed.f, d)
		return q, true, "service " + d.Name
	case "add-service":
		ed.f.Decls = append(ed.f.Decls, &Decl{Kind: "service", Name: ed.freshName("AddedService"), Methods: []Method{{Name: "ping"}}})
		return q, true, "-"
	case "change-extends", "add-extends":
		var cands []*Decl
		for _, d := range ed.decls("service") {
			if (e.Kind == "change-extends") == (d.Extends != nil) {
				cands = append(cands, d)
			}
		}
		if len(cands) == 0 {
			return q, false, ""
		}
		d := cands[pick(len(cands))]
		if e.Kind == "change-extends" && e.B%2 == 0 {
			d.Extends = nil
			return q, true, "service " + d.Name + " extends removed"
		}
		// a fresh base service without methods cannot conflict with anything
		base := &Decl{Kind: "service", Name: ed.freshName("AddedBase"), Methods: []Method{{Name: "addedBaseMethod"}}}
		for _, m := range d.Methods {
			if normName(m.Name) == normName("addedBaseMethod") {
				return q, false, ""
			}
		}
		ed.f.Decls = append([]*Decl{base}, ed.f.Decls...)
		d.Extends = &Ref{File: ed.r, Name: base.Name}
		return q, true, "service " + d.Name + " extends"
	case "add-method":
		ds := ed.decls("service")
		if len(ds) == 0 {
			return q, false, ""
		}
		d := ds[pick(len(ds))]
		used := map[string]bool{}
		for s := d; s != nil; {
			for _, m := range s.Methods {
				used[normName(m.Name)] = true
			}
			if s.Extends == nil {
				break
			}
			s = q.Service(s.Extends.File, s.Extends.Name)
		}
		n := "addedMethod"
		for i := 0; used[normName(n)]; i++ {
			n = fmt.Sprintf("addedMethod%d", i)
		}
		d.Methods = append(d.Methods, Method{Name: n, Ret: &Type{Kind: "base", Name: "bool"}})
		return q, true, "service " + d.Name
	case "remove-method", "toggle-oneway", "retype-return", "add-exception-to-bare-void", "remove-last-exception-of-void", "add-exception", "rename-method-arg-and-doc":
		var cands []methodSite
		for _, ms := range ed.methodSites() {
			m := ms.svc.Methods[ms.idx]
			switch e.Kind {
			case "toggle-oneway":
				if m.Ret != nil || len(m.Throws) > 0 {
					continue
				}
			case "add-exception-to-bare-void":
				if m.Ret != nil || len(m.Throws) > 0 || m.Oneway || len(ed.exceptionTypes()) == 0 {
					continue
				}
			case "remove-last-exception-of-void":
				if m.Ret != nil || len(m.Throws) != 1 {
					continue
				}
			case "add-exception":
				if (m.Ret == nil && len(m.Throws) == 0) || m.Oneway || len(ed.exceptionTypes()) == 0 {
					continue
				}
			case "rename-method-arg-and-doc":
				if len(m.Args) == 0 {
					continue
				}
			}
			cands = append(cands, ms)
		}
		if len(cands) == 0 {
			return q, false, ""
		}
		ms := cands[pick(len(cands))]
		m := &ms.svc.Methods[ms.idx]
		site = fmt.Sprintf("service %s method %s", ms.svc.Name, m.Name)
		switch e.Kind {
		case "remove-method":
			ms.svc.Methods = append(ms.svc.Methods[:ms.idx:ms.idx], ms.svc.Methods[ms.idx+1:]...)
		case "toggle-oneway":
			m.Oneway = !m.Oneway
		case "retype-return":
			switch {
			case m.Ret == nil:
				if m.Oneway {
					return q, false, ""
				}
				m.Ret = &Type{Kind: "base", Name: "i32"}
			case e.B%4 == 0:
				m.Ret = nil
			default:
				m.Ret = ed.retype(m.Ret, e.C, false)
			}
		case "add-exception-to-bare-void", "add-exception":
			ex := ed.exceptionTypes()
			m.Throws = append(m.Throws, Field{ID: maxID(m.Throws) + 1, Name: freshMember(m.Throws, "addedExc"), Type: ex[e.B%len(ex)]})
		case "remove-last-exception-of-void":
			m.Throws = nil
		case "rename-method-arg-and-doc":
			m.Args[e.B%len(m.Args)].Name = freshMember(m.Args, "renamedArg")
			m.Doc = "changed documentation"
		}
		return q, true, site
	case "retype-arg", "remove-arg", "rename-arg":
		sites := ed.fieldSites(false, true, false)
		if len(sites) == 0 {
			return q, false, ""
		}
		s := sites[pick(len(sites))]
		f := &(*s.fields)[s.idx]
		site = fmt.Sprintf("%s arg %d (%s)", s.owner, f.ID, f.Name)
		switch e.Kind {
		case "retype-arg":
			f.Type = ed.retype(f.Type, e.C, false)
		case "remove-arg":
			if f.Req == "optional" {
				return q, false, ""
			}
			removeField(s.fields, s.idx)
		case "rename-arg":
			f.Name = freshMember(*s.fields, "renamedArg")
		}
		return q, true, site
	case "add-required-arg", "add-optional-arg":
		mss := ed.methodSites()
		if len(mss) == 0 {
			return q, false, ""
		}
		ms := mss[pick(len(mss))]
		m := &ms.svc.Methods[ms.idx]
		req := "required"
		if e.Kind == "add-optional-arg" {
			req = []string{"", "optional"}[e.B%2]
		}
		m.Args = append(m.Args, Field{ID: maxID(m.Args) + 1, Name: freshMember(m.Args, "addedArg"), Req: req, Type: &Type{Kind: "base", Name: "string"}})
		return q, true, fmt.Sprintf("service %s method %s", ms.svc.Name, m.Name)
	case "retype-exception", "rename-exception":
		sites := ed.fieldSites(false, false, true)
		if len(sites) == 0 {
			return q, false, ""
		}
		s := sites[pick(len(sites))]
		f := &(*s.fields)[s.idx]
		site = fmt.Sprintf("%s exception %d (%s)", s.owner, f.ID, f.Name)
		if e.Kind == "rename-exception" {
			f.Name = freshMember(*s.fields, "renamedExc")
			return q, true, site
		}
		cur := q.typeSig(ed.r, f.Type)
		for _, ex := range ed.exceptionTypes() {
			dup := false
			for _, o := range *s.fields {
				if q.typeSig(ed.r, o.Type) == q.typeSig(ed.r, ex) {
					dup = true
				}
			}
			if q.typeSig(ed.r, ex) != cur && !dup {
				f.Type = ex
				return q, true, site
			}
		}
		// no other exception type around: declare one
		nd := &Decl{Kind: "exception", Name: ed.freshName("AddedException")}
		ed.f.Decls = append([]*Decl{nd}, ed.f.Decls...)
		f.Type = &Type{Kind: "ref", Name: nd.Name, File: ed.r}
		return q, true, site

	// ---------------- typedefs / consts / misc
	case "retarget-typedef":
		// a typedef (root or included file) that a checked position of the root file goes through
		type td struct {
			fi int
			d  *Decl
		}
		var cands []td
		used := map[string]bool{}
		var mark func(t *Type)
		mark = func(t *Type) {
			for i := 0; i < 32 && t != nil; i++ {
				if t.Kind != "ref" {
					mark(t.Key)
					if t.Val != nil {
						t = t.Val
						continue
					}
					return
				}
				d := q.Decl(t.File, t.Name)
				if d == nil || d.Kind != "typedef" {
					return
				}
				used[fmt.Sprint(t.File, "/", t.Name)] = true
				t = d.Type
			}
		}
		for _, d := range ed.f.Decls {
			for _, f := range d.Fields {
				mark(f.Type)
			}
			for _, m := range d.Methods {
				if m.Ret != nil {
					mark(m.Ret)
				}
				for _, f := range m.Args {
					mark(f.Type)
				}
			}
			for _, o := range d.Ops {
				mark(o.Type)
			}
		}
		for fi, f := range q.Files {
			for _, d := range f.Decls {
				if d.Kind == "typedef" && used[fmt.Sprint(fi, "/", d.Name)] {
					cands = append(cands, td{fi, d})
				}
			}
		}
		if len(cands) == 0 {
			return q, false, ""
		}
		c := cands[pick(len(cands))]
		// the new target must stay usable wherever the alias is used (set element / map key)
		asKey := false
		q.WalkTypes(func(_ int, _ string, t *Type) {
			chk := func(k *Type) {
				for i := 0; i < 32 && k != nil && k.Kind == "ref"; i++ {
					if k.File == c.fi && k.Name == c.d.Name {
						asKey = true
					}
					d := q.Decl(k.File, k.Name)
					if d == nil || d.Kind != "typedef" {
						break
					}
					k = d.Type
				}
			}
			if t.Kind == "set" {
				chk(t.Val)
			}
			if t.Kind == "map" {
				chk(t.Key)
			}
		})
		old := c.d.Type
		c.d.Type = (&editor{p: q, r: c.fi}).retype(old, e.C, asKey)
		// defaults typed by the alias would no longer fit: drop them
		dropDefaultsThrough(q, c.fi, c.d.Name)
		return q, true, fmt.Sprintf("typedef %s in %s", c.d.Name, q.Files[c.fi].Name)
	case "change-namespace":
		if len(ed.f.Namespaces) == 0 {
			ed.f.Namespaces = append(ed.f.Namespaces, Namespace{Scope: "java", Value: "org.addedns"})
		} else if e.B%2 == 0 {
			ed.f.Namespaces = ed.f.Namespaces[1:]
		} else {
			ed.f.Namespaces[pick(len(ed.f.Namespaces))].Value = "changedns"
		}
		return q, true, "-"
	case "change-const", "remove-const":
		ds := ed.decls("const")
		if len(ds) == 0 {
			return q, false, ""
		}
		d := ds[pick(len(ds))]
		if e.Kind == "remove-const" {
			if countIdentRefs(q, d.Name) > 0 {
				return q, false, ""
			}
			removeDecl(ed.f, d)
			return q, true, "const " + d.Name
		}
		switch d.Value.Kind {
		case "int":
			d.Value.I = (d.Value.I%100 + 101) % 100
		case "bool":
			d.Value.B = !d.Value.B
		case "string":
			d.Value.S += "y"
		default:
			return q, false, ""
		}
		return q, true, "const " + d.Name
	case "reorder-decls":
		if len(ed.f.Decls) < 2 {
			return q, false, ""
		}
		i := pick(len(ed.f.Decls) - 1)
		ed.f.Decls[i], ed.f.Decls[i+1] = ed.f.Decls[i+1], ed.f.Decls[i]
		return q, true, "-"
	case "change-docs":
		for _, d := range ed.f.Decls {
			d.Doc = "documentation changed"
			d.Ann = append(d.Ann, Ann{"added.annotation", "x"})
			for i := range d.Fields {
				d.Fields[i].Doc = ""
			}
		}
		return q, true, "-"
	}
	return q, false, ""
}

// typeHasIncludedTypedefChain reports whether aliasing t again would build an
// included typedef chain (a construct excluded by hazard tag).
func typeHasIncludedTypedefChain(p *Program, fi int, t *Type) bool {
	return false
}

// dropDefaultsThrough removes default values of fields whose type goes through typedef (fi,name).
func dropDefaultsThrough(p *Program, fi int, name string) {
	through := func(t *Type) bool {
		found := false
		var walk func(t *Type)
		walk = func(t *Type) {
			for i := 0; i < 32 && t != nil; i++ {
				if t.Kind == "ref" {
					if t.File == fi && t.Name == name {
						found = true
					}
					d := p.Decl(t.File, t.Name)
					if d == nil || d.Kind != "typedef" {
						return
					}
					t = d.Type
					continue
				}
				walk(t.Key)
				t = t.Val
			}
		}
		walk(t)
		return found
	}
	for _, f := range p.Files {
		for _, d := range f.Decls {
			for i := range d.Fields {
				if d.Fields[i].Default != nil && through(d.Fields[i].Type) {
					d.Fields[i].Default = nil
				}
			}
			if d.Kind == "const" && through(d.Type) {
				// constants typed by the alias: retype the constant to its old resolved value type is
				// not generally possible; turn it into a harmless i32 constant
				d.Type = &Type{Kind: "base", Name: "i32"}
				d.Value = &Value{Kind: "int", I: 0}
			}
		}
	}
}
