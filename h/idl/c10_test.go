package idl

// C10 — the parser represents every declaration exactly and accepts all Thrift.

import (
	"fmt"
	"sort"
	"strings"
	"testing"
	"time"

	"github.com/Workiva/frugal/compiler/parser"
	"pgregory.net/rapid"
	"verif/ev"
)

type progCase struct {
	P   *Program `json:"program"`
	Lex []byte   `json:"lex"`
}

func genProgCase(c *Cfg) func(t *rapid.T) progCase {
	g := GenProgram(c)
	return func(t *rapid.T) progCase {
		p := g(t)
		n := rapid.IntRange(0, 48).Draw(t, "lexlen")
		lex := make([]byte, n)
		for i := range lex {
			lex[i] = rapid.Byte().Draw(t, "lex")
		}
		return progCase{p, lex}
	}
}

func programStats(p *Program) (kinds map[string]int, labels []string) {
	kinds = map[string]int{}
	for _, f := range p.Files {
		for _, d := range f.Decls {
			kinds[d.Kind]++
		}
	}
	for k := range kinds {
		labels = append(labels, "has-"+k)
	}
	labels = append(labels, fmt.Sprintf("files=%d", len(p.Files)))
	incl := false
	p.WalkTypes(func(fi int, where string, t *Type) {
		if t.Kind == "ref" && t.File != fi {
			incl = true
		}
	})
	if incl {
		labels = append(labels, "include-qualified-type")
	}
	for _, f := range p.Files {
		for _, d := range f.Decls {
			for i := 1; i < len(d.EnumValues); i++ {
				if d.EnumValues[i].Explicit && d.EnumValues[i].Value < d.EnumValues[i-1].Value {
					labels = append(labels, "enum-explicit-value-decreases")
					if i+1 < len(d.EnumValues) && !d.EnumValues[i+1].Explicit {
						labels = append(labels, "enum-implicit-after-decrease")
					}
				}
			}
		}
	}
	sort.Strings(labels)
	return
}

func classifyC10(c progCase) ev.Class {
	kinds, labels := programStats(c.P)
	texts, used := Render(c.P, c.Lex)
	for k := range used {
		labels = append(labels, "lex:"+k)
	}
	commentKinds := 0
	for _, k := range []string{"slash-comment", "hash-comment", "block-comment", "inline-block-comment", "docstring"} {
		if used[k] > 0 {
			commentKinds++
		}
	}
	nonDefaultSep := used["sep-semicolon"] > 0 || used["sep-none"] > 0 || used["eos-semicolon"] > 0
	var all []string
	for _, k := range sortedKeys(texts) {
		all = append(all, k, texts[k])
	}
	return ev.Class{NonTrivial: len(kinds) >= 3 && (commentKinds >= 2 || nonDefaultSep), Key: strings.Join(all, "\x00"), Labels: uniq(labels)}
}

func uniq(s []string) []string {
	sort.Strings(s)
	out := s[:0]
	for i, x := range s {
		if i == 0 || x != s[i-1] {
			out = append(out, x)
		}
	}
	return out
}

func sampleProg(c progCase) interface{} {
	texts, _ := Render(c.P, c.Lex)
	out := map[string]string{}
	for k, v := range texts {
		if len(v) > 1500 {
			v = v[:1500] + "…"
		}
		out[k] = v
	}
	return out
}

func checkC10(c progCase) *ev.Failure {
	var f *ev.Failure
	ok, p := within(30*time.Second, func() { f = checkC10Inner(c) })
	if !ok {
		return ev.Failf("hang:parse", "parsing did not finish within 30s")
	}
	if p != "" {
		return ev.Failf("panic:parse", "%s", p)
	}
	return f
}

func checkC10Inner(c progCase) *ev.Failure {
	dir, cleanup := scratchDir("c10")
	defer cleanup()
	root, texts, _, err := writeProgram(c.P, c.Lex, dir)
	if err != nil {
		return ev.Failf("harness:write", "%v", err)
	}
	fr, err := parser.ParseFrugal(root)
	if err != nil {
		return ev.Failf("valid-idl-rejected", "the parser rejects a well-formed program: %v\n--- %s\n%s", err, c.P.Root().Path(), allTexts(texts))
	}
	// walk the include tree alongside the model
	var visit func(fi int, fr *parser.Frugal) *ev.Failure
	seen := map[int]bool{}
	visit = func(fi int, fr *parser.Frugal) *ev.Failure {
		if seen[fi] {
			return nil
		}
		seen[fi] = true
		want := c.P.ModelNF(fi)
		got := ParsedNF(fr)
		if d := want.Diff(got); d != "" {
			return ev.Failf("model-mismatch", "file %s: %s\n--- text\n%s", c.P.Files[fi].Path(), d, texts[c.P.Files[fi].Path()])
		}
		if fr.Name != c.P.Files[fi].Name {
			return ev.Failf("model-mismatch", "file %s: parsed Name %q", c.P.Files[fi].Path(), fr.Name)
		}
		if len(fr.ParsedIncludes) != len(c.P.Files[fi].Includes) {
			return ev.Failf("model-mismatch", "file %s: %d parsed includes, %d declared", c.P.Files[fi].Path(), len(fr.ParsedIncludes), len(c.P.Files[fi].Includes))
		}
		for _, inc := range c.P.Files[fi].Includes {
			sub, ok := fr.ParsedIncludes[c.P.Files[inc].Name]
			if !ok {
				return ev.Failf("model-mismatch", "file %s: include %q not in ParsedIncludes", c.P.Files[fi].Path(), c.P.Files[inc].Name)
			}
			if f := visit(inc, sub); f != nil {
				return f
			}
		}
		return nil
	}
	return visit(len(c.P.Files)-1, fr)
}

func allTexts(texts map[string]string) string {
	var b strings.Builder
	for _, k := range sortedKeys(texts) {
		fmt.Fprintf(&b, "=== %s\n%s\n", k, texts[k])
	}
	return b.String()
}

var c10Cfg = func() *Cfg { c := DefaultCfg(); c.QuoteStrings = true; c.Twins = true; return c }()

var c10Prop = ev.Prop("c10.roundtrip", genProgCase(c10Cfg), checkC10, classifyC10, sampleProg)

func TestC10RoundTrip(t *testing.T) {
	rapid.Check(t, c10Prop)
	for k, v := range c10Cfg.Excluded {
		ev.Count("c10.roundtrip", "excluded:"+k, v)
	}
}
