package idl

// A JSON-serialisable model of an IDL *program* (one or more files). Programs
// are built valid by construction by the generators in gen.go; render.go turns
// them into IDL text with lexical variation; project.go maps the compiler's
// parse tree back onto this model for comparison.

import (
	"fmt"
	"sort"
	"strings"
)

type Program struct {
	Files []*File `json:"files"` // file i may include only files j < i; the last file is the root
}

type File struct {
	Name       string      `json:"name"` // base name without extension
	Dir        string      `json:"dir"`  // directory relative to the source root ("" or "sub")
	Includes   []int       `json:"includes,omitempty"`
	Namespaces []Namespace `json:"namespaces,omitempty"`
	Decls      []*Decl     `json:"decls"`
}

type Namespace struct {
	Scope string `json:"scope"`
	Value string `json:"value"`
	// Vendor: the namespace advertises where the generated code is vendored: (vendor="<path>")
	Vendor string `json:"vendor,omitempty"`
}

type Ann struct {
	K string `json:"k"`
	V string `json:"v,omitempty"`
}

type Decl struct {
	Kind string `json:"kind"` // typedef enum const struct union exception service scope
	Name string `json:"name"`
	Doc  string `json:"doc,omitempty"`
	Ann  []Ann  `json:"ann,omitempty"`

	Type  *Type  `json:"type,omitempty"`  // typedef target, const type
	Value *Value `json:"value,omitempty"` // const value

	EnumValues []EnumValue `json:"enum_values,omitempty"`
	Fields     []Field     `json:"fields,omitempty"`

	Extends *Ref     `json:"extends,omitempty"` // service
	Methods []Method `json:"methods,omitempty"`

	Prefix []PrefixTok `json:"prefix,omitempty"` // scope
	Ops    []Op        `json:"ops,omitempty"`
}

type Ref struct {
	File int    `json:"file"` // index into Program.Files
	Name string `json:"name"`
}

type EnumValue struct {
	Name     string `json:"name"`
	Explicit bool   `json:"explicit,omitempty"`
	Value    int    `json:"value"` // effective value (Thrift numbering)
	Doc      string `json:"doc,omitempty"`
	Ann      []Ann  `json:"ann,omitempty"`
}

type Type struct {
	Kind string `json:"kind"` // base list set map ref
	Name string `json:"name,omitempty"`
	File int    `json:"file,omitempty"` // ref: defining file index
	Key  *Type  `json:"key,omitempty"`
	Val  *Type  `json:"val,omitempty"`
	Ann  []Ann  `json:"ann,omitempty"`
}

type Field struct {
	ID      int    `json:"id"`
	Name    string `json:"name"`
	Req     string `json:"req,omitempty"` // "required" | "optional" | "" (default)
	Type    *Type  `json:"type"`
	Default *Value `json:"default,omitempty"`
	Doc     string `json:"doc,omitempty"`
	Ann     []Ann  `json:"ann,omitempty"`
}

type Method struct {
	Name   string  `json:"name"`
	Oneway bool    `json:"oneway,omitempty"`
	Ret    *Type   `json:"ret,omitempty"` // nil = void
	Args   []Field `json:"args,omitempty"`
	Throws []Field `json:"throws,omitempty"`
	Doc    string  `json:"doc,omitempty"`
	Ann    []Ann   `json:"ann,omitempty"`
}

type PrefixTok struct {
	Var  bool   `json:"var,omitempty"`
	Text string `json:"text"`
}

type Op struct {
	Name string `json:"name"`
	Type *Type  `json:"type"`
	Doc  string `json:"doc,omitempty"`
	Ann  []Ann  `json:"ann,omitempty"`
}

type Value struct {
	Kind  string      `json:"kind"` // int double bool string list map ident
	I     int64       `json:"i,omitempty"`
	D     float64     `json:"d,omitempty"`
	B     bool        `json:"b,omitempty"`
	S     string      `json:"s,omitempty"`
	L     []*Value    `json:"l,omitempty"`
	M     [][2]*Value `json:"m,omitempty"`
	Ident string      `json:"ident,omitempty"`
}

// ---- helpers

func (p *Program) Root() *File { return p.Files[len(p.Files)-1] }

func (f *File) Path() string {
	if f.Dir == "" {
		return f.Name + ".frugal"
	}
	return f.Dir + "/" + f.Name + ".frugal"
}

func (p *Program) Decl(file int, name string) *Decl {
	for _, d := range p.Files[file].Decls {
		if d.Name == name && d.Kind != "const" && d.Kind != "service" && d.Kind != "scope" {
			return d
		}
	}
	return nil
}

func (p *Program) Service(file int, name string) *Decl {
	for _, d := range p.Files[file].Decls {
		if d.Name == name && d.Kind == "service" {
			return d
		}
	}
	return nil
}

// Resolve follows typedefs to the underlying type (base/container/ref to a
// non-typedef declaration).
func (p *Program) Resolve(t *Type) *Type {
	for i := 0; i < 64 && t.Kind == "ref"; i++ {
		d := p.Decl(t.File, t.Name)
		if d == nil || d.Kind != "typedef" {
			return t
		}
		t = d.Type
	}
	return t
}

// KindOf returns base|list|set|map|enum|struct|union|exception for a type.
func (p *Program) KindOf(t *Type) string {
	r := p.Resolve(t)
	if r.Kind != "ref" {
		return r.Kind
	}
	if d := p.Decl(r.File, r.Name); d != nil {
		return d.Kind
	}
	return "?"
}

func (t *Type) String() string {
	switch t.Kind {
	case "base":
		return t.Name
	case "list":
		return "list<" + t.Val.String() + ">"
	case "set":
		return "set<" + t.Val.String() + ">"
	case "map":
		return "map<" + t.Key.String() + "," + t.Val.String() + ">"
	}
	return fmt.Sprintf("%d:%s", t.File, t.Name)
}

func (d *Decl) StructLike() bool {
	return d.Kind == "struct" || d.Kind == "union" || d.Kind == "exception"
}

// Normalise a name the way the target generators do when they derive
// identifiers (case folding, underscores dropped): two names that normalise
// equally may clash in generated code.
func normName(s string) string {
	return strings.ToLower(strings.ReplaceAll(s, "_", ""))
}

func sortedAnn(a []Ann) []Ann {
	b := append([]Ann{}, a...)
	sort.SliceStable(b, func(i, j int) bool { return b[i].K < b[j].K })
	return b
}

// Walk calls fn for every type occurrence in the program (including nested).
func (p *Program) WalkTypes(fn func(fileIdx int, where string, t *Type)) {
	var walk func(fi int, where string, t *Type)
	walk = func(fi int, where string, t *Type) {
		if t == nil {
			return
		}
		fn(fi, where, t)
		walk(fi, where, t.Key)
		walk(fi, where, t.Val)
	}
	for fi, f := range p.Files {
		for _, d := range f.Decls {
			walk(fi, d.Kind+" "+d.Name, d.Type)
			for _, fl := range d.Fields {
				walk(fi, d.Name+"."+fl.Name, fl.Type)
			}
			for _, m := range d.Methods {
				walk(fi, d.Name+"."+m.Name, m.Ret)
				for _, a := range m.Args {
					walk(fi, d.Name+"."+m.Name, a.Type)
				}
				for _, a := range m.Throws {
					walk(fi, d.Name+"."+m.Name, a.Type)
				}
			}
			for _, o := range d.Ops {
				walk(fi, d.Name+"."+o.Name, o.Type)
			}
		}
	}
}

// NormName is exported for the generated-code bed.
func NormName(s string) string { return normName(s) }

// walkType calls fn for t and every type nested in it.
func walkType(t *Type, fn func(*Type)) {
	if t == nil {
		return
	}
	fn(t)
	walkType(t.Key, fn)
	walkType(t.Val, fn)
}
