package idl

// rapid generators that build only valid programs, by construction. Every
// construct that is known to hit a confirmed defect of the compiler is produced
// only when its hazard tag is enabled (see Hazards); by default they are off and
// the number of draws that would have been hazardous is counted.

import (
	"fmt"
	"os"
	"strings"

	"pgregory.net/rapid"
)

// Hazard tags (all off by default).
const (
	HzBaseTypePrefixName = "basetype-prefix-name" // type names like stringList, i32Thing, optionalFoo (no word boundary in the grammar)
	HzUnderscoreEdge     = "underscore-edge"      // _foo, a__b, c_  (snakeToCamel index out of range)
	HzEnumNonMonotonic   = "enum-nonmonotonic"    // explicit enum values that decrease or are negative
	HzKeywordArg         = "keyword-arg"          // argument/field names that are target keywords or generated identifiers
	HzContainerKey       = "container-key"        // binary / container / struct typed set elements and map keys
	HzInclTypedefChain   = "included-typedef-chain" // a typedef of an include whose target lies in a third file
	HzScopeNewPair       = "scope-new-pair" // scopes X and NewX in one file (Go: NewXPublisher declared twice)
	HzTypedefStruct      = "typedef-struct" // a typedef of a struct/union/exception used as a type (Go output does not compile)
)

type Cfg struct {
	MaxFiles     int
	// EnumDecreasing: explicit enum values may be lower than their predecessor (all values stay
	// distinct under the compiler's documented numbering "largest so far + 1"). Only for checks
	// that do not compare implicit values with Thrift's numbering (C11).
	EnumDecreasing bool
	// ScopeSpread: scopes get up to 5 operations and prefer payload types from included files
	// they do not reference yet (import lists with several entries)
	ScopeSpread bool
	Scale        int // multiplies declaration counts (1 = small)
	Dirs         bool
	Twins        bool // sometimes a five-file program with two different files of one base name in different directories, each included by its own includer
	Services     bool
	Scopes       bool
	Consts       bool
	Defaults     bool
	Annots       bool
	Docs         bool
	Hazards      map[string]bool
	Excluded     map[string]int // out: hazard tag -> draws suppressed
	GoExec       bool           // restrict to what the generated-Go test bed can drive
	QuoteStrings bool           // string literals may contain quotes, apostrophes, tabs and backslashes
	NoIncludes   bool
}

func DefaultCfg() *Cfg {
	c := &Cfg{MaxFiles: 3, Scale: 1, Services: true, Scopes: true, ScopeSpread: true, Consts: true, Defaults: true, Annots: true, Docs: true,
		Hazards: map[string]bool{}, Excluded: map[string]int{}}
	// VERIF_HAZARDS=tag,tag enables hazard tags (used to re-examine known findings, never by registered checks)
	for _, h := range strings.Split(os.Getenv("VERIF_HAZARDS"), ",") {
		if h != "" {
			c.Hazards[h] = true
		}
	}
	return c
}

func (c *Cfg) hz(t *rapid.T, tag string, oneIn int) bool {
	if rapid.IntRange(0, oneIn-1).Draw(t, "hz:"+tag) != 0 {
		return false
	}
	if c.Hazards[tag] {
		return true
	}
	c.Excluded[tag]++
	return false
}

var words = []string{"alpha", "beta", "gamma", "delta", "omega", "sigma", "kappa", "lambda0", "user", "account", "event", "item", "order", "token",
	"status", "color", "shape", "point", "entry", "node", "edge", "graph", "album", "track", "title", "price", "total", "count", "level",
	"score", "label", "blob", "note", "media", "asset", "owner", "group", "role", "thing", "widget", "gadget", "payload", "message", "envelope",
	"version", "region", "zone", "shard", "bucket", "digest", "cursor", "offset", "limit", "amount", "ratio", "weight", "height", "width"}

// stringValues: literal contents for defaults / constants. Quote characters are
// produced only when the hazard tag is on (see HzQuoteInString).
func stringValues(c *Cfg) []string {
	v := []string{"", "hello", "two words", "x.y-z_0", "CamelCase"}
	if c.QuoteStrings {
		v = append(v, "it's", "rock 'n'", "'", "say \"hi\"", "\"", "tab\there", "back\\slash")
	}
	return v
}

var baseTypes = []string{"bool", "byte", "i8", "i16", "i32", "i64", "double", "string", "binary"}
var keyBaseTypes = []string{"bool", "byte", "i8", "i16", "i32", "i64", "double", "string"}

// namer hands out names that are unique within a naming scope, also after the
// normalisation target generators apply.
type namer struct{ used map[string]bool }

func newNamer() *namer { return &namer{used: map[string]bool{}} }

func (n *namer) take(s string) bool {
	k := normName(s)
	if n.used[k] {
		return false
	}
	n.used[k] = true
	return true
}

func title(s string) string { return strings.ToUpper(s[:1]) + s[1:] }

// genName draws an identifier in one of several shapes.
func (c *Cfg) genName(t *rapid.T, n *namer, label string, styles []string) string {
	for i := 0; i < 50; i++ {
		w1 := rapid.SampledFrom(words).Draw(t, label+".w1")
		w2 := rapid.SampledFrom(words).Draw(t, label+".w2")
		style := rapid.SampledFrom(styles).Draw(t, label+".style")
		var s string
		switch style {
		case "lower":
			s = w1
		case "title":
			s = title(w1)
		case "camel":
			s = w1 + title(w2)
		case "pascal":
			s = title(w1) + title(w2)
		case "snake":
			s = w1 + "_" + w2
		case "scream":
			s = strings.ToUpper(w1 + "_" + w2)
		case "initialism":
			s = w1 + rapid.SampledFrom([]string{"ID", "URL", "HTTP", "UUID", "API"}).Draw(t, label+".init")
		case "Initialism":
			s = rapid.SampledFrom([]string{"ID", "URL", "HTTP", "UUID", "API"}).Draw(t, label+".init") + title(w1)
		case "Initialism_snake":
			s = rapid.SampledFrom([]string{"ID", "URL", "HTTP", "UUID", "API"}).Draw(t, label+".init") + "_" + w1
		case "digit":
			s = w1 + fmt.Sprint(rapid.IntRange(0, 99).Draw(t, label+".d"))
		}
		if rapid.IntRange(0, 39).Draw(t, label+".usedge") == 0 {
			// leading / trailing / doubled underscores (were a crash in -gen go; fixed)
			s = rapid.SampledFrom([]string{"_" + s, s + "_", w1 + "__" + w2}).Draw(t, label+".us")
		}
		if rapid.IntRange(0, 19).Draw(t, label+".affix?") == 0 {
			// names the Go generator mangles: it appends "_" to identifiers that start with New or
			// end in Result / Args (they would clash with generated constructors and structs)
			snake := strings.Contains(s, "_")
			switch rapid.IntRange(0, 2).Draw(t, label+".affix") {
			case 0:
				if snake || s == strings.ToLower(s) {
					s = "new_" + s
				} else {
					s = "New" + title(s)
				}
			case 1:
				if snake || s == strings.ToLower(s) {
					s += "_result"
				} else {
					s += "Result"
				}
			default:
				if snake || s == strings.ToLower(s) {
					s += "_args"
				} else {
					s += "Args"
				}
			}
		}
		if n.take(s) {
			return s
		}
	}
	// fall back to a numbered name
	for i := 0; ; i++ {
		s := fmt.Sprintf("name%d", i)
		if n.take(s) {
			return s
		}
	}
}

var typeStyles = []string{"title", "pascal", "pascal", "lower", "snake", "Initialism", "digit", "camel"}
var memberStyles = []string{"lower", "camel", "camel", "snake", "initialism", "title", "digit", "pascal"}
var methodStyles = []string{"lower", "camel", "camel", "snake", "initialism", "title", "digit", "pascal", "Initialism", "Initialism_snake", "scream"}
var enumValStyles = []string{"scream", "scream", "title", "lower", "pascal"}

// avail is a referencable type declaration.
type avail struct {
	file int
	name string
	kind string // enum struct union exception typedef
	und  string // underlying kind for typedefs: base:<name> list set map enum struct union exception
}

type builder struct {
	c     *Cfg
	t     *rapid.T
	p     *Program
	fi    int
	f     *File
	names *namer
	types []avail // referencable from the current file (own + directly included files)
	svcs  []Ref
}

func (b *builder) doc(label string) string {
	if !b.c.Docs || rapid.IntRange(0, 4).Draw(b.t, label+".doc?") != 0 {
		return ""
	}
	n := rapid.IntRange(1, 2).Draw(b.t, label+".doclines")
	var lines []string
	for i := 0; i < n; i++ {
		lines = append(lines, rapid.SampledFrom([]string{"Describes the thing.", "A doc line with punctuation, and (brackets).", "second line", "Uses @ sign and * star inside"}).Draw(b.t, label+".docline"))
	}
	return strings.Join(lines, "\n")
}

func (b *builder) ann(label string) []Ann {
	if !b.c.Annots || rapid.IntRange(0, 5).Draw(b.t, label+".ann?") != 0 {
		return nil
	}
	n := rapid.IntRange(1, 2).Draw(b.t, label+".nann")
	var out []Ann
	seen := map[string]bool{}
	for i := 0; i < n; i++ {
		k := rapid.SampledFrom([]string{"meta", "cpp.type", "java.swift.mutable", "key", "a.b.c"}).Draw(b.t, label+".annk")
		if seen[k] {
			continue
		}
		seen[k] = true
		v := rapid.SampledFrom([]string{"", "v", "some value", "x.y", "1"}).Draw(b.t, label+".annv")
		out = append(out, Ann{k, v})
	}
	return out
}

// genType draws a type. depth bounds container nesting; key=true restricts to
// what may be a set element / map key.
func (b *builder) genType(label string, depth int, key bool, allowKinds map[string]bool) *Type {
	t := b.t
	opts := []string{"base", "base", "base"}
	if len(b.types) > 0 {
		opts = append(opts, "ref", "ref", "ref")
	}
	if depth > 0 && !key {
		opts = append(opts, "list", "set", "map")
	}
	if key && depth > 0 && b.c.hz(t, HzContainerKey, 25) {
		return &Type{Kind: "list", Val: &Type{Kind: "base", Name: "i32"}}
	}
	for tries := 0; tries < 20; tries++ {
		switch rapid.SampledFrom(opts).Draw(t, label+".tk") {
		case "base":
			bt := baseTypes
			if key {
				bt = keyBaseTypes
				if b.c.hz(t, HzContainerKey, 25) {
					return &Type{Kind: "base", Name: "binary"}
				}
			}
			return &Type{Kind: "base", Name: rapid.SampledFrom(bt).Draw(t, label+".base")}
		case "list":
			return &Type{Kind: "list", Val: b.genType(label+".lv", depth-1, false, allowKinds)}
		case "set":
			return &Type{Kind: "set", Val: b.genType(label+".sv", depth-1, true, allowKinds)}
		case "map":
			return &Type{Kind: "map", Key: b.genType(label+".mk", depth-1, true, allowKinds), Val: b.genType(label+".mv", depth-1, false, allowKinds)}
		case "ref":
			a := b.types[rapid.IntRange(0, len(b.types)-1).Draw(t, label+".ref")]
			k := a.kind
			if k == "typedef" {
				k = a.und
			}
			if key && !(k == "enum" || strings.HasPrefix(k, "base:") && k != "base:binary") {
				continue
			}
			if strings.HasPrefix(k, "base:") {
				k = "base"
			}
			if allowKinds != nil && !allowKinds[k] {
				continue
			}
			if a.kind == "typedef" && (a.und == "struct" || a.und == "union" || a.und == "exception") && !b.c.Hazards[HzTypedefStruct] {
				b.c.Excluded[HzTypedefStruct]++
				continue
			}
			if a.kind == "typedef" && a.file != b.fi && !b.c.Hazards[HzInclTypedefChain] {
				// an included typedef whose target is itself a typedef/declaration of the included file
				d := b.p.Decl(a.file, a.name)
				if d != nil && typeLeavesFile(b.p, d.Type, a.file, 0) {
					b.c.Excluded[HzInclTypedefChain]++
					continue
				}
			}
			return &Type{Kind: "ref", Name: a.name, File: a.file}
		}
	}
	return &Type{Kind: "base", Name: "i32"}
}

// typeHasRef reports whether a type mentions a user-defined type anywhere.
func typeHasRef(t *Type) bool {
	if t == nil {
		return false
	}
	return t.Kind == "ref" || typeHasRef(t.Key) || typeHasRef(t.Val)
}

// typeLeavesFile reports whether a type written in file fi mentions, directly or through
// typedefs of fi, a declaration of another file (a typedef of an include that itself points into
// a third file cannot be resolved from the including file: known finding).
func typeLeavesFile(p *Program, t *Type, fi int, depth int) bool {
	if t == nil || depth > 32 {
		return false
	}
	if t.Kind == "ref" {
		if t.File != fi {
			return true
		}
		if d := p.Decl(t.File, t.Name); d != nil && d.Kind == "typedef" {
			return typeLeavesFile(p, d.Type, fi, depth+1)
		}
		return false
	}
	return typeLeavesFile(p, t.Key, fi, depth+1) || typeLeavesFile(p, t.Val, fi, depth+1)
}

func (b *builder) undKind(t *Type) string {
	r := b.p.Resolve(t)
	switch r.Kind {
	case "base":
		return "base:" + r.Name
	case "ref":
		if d := b.p.Decl(r.File, r.Name); d != nil {
			return d.Kind
		}
		// declared in the file under construction
		for _, d := range b.f.Decls {
			if d.Name == r.Name {
				return d.Kind
			}
		}
	}
	return r.Kind
}

// genValue draws a literal of the given type (nil when the type has no literal form we generate).
func (b *builder) genValue(label string, ty *Type, depth int, forConst bool) *Value {
	t := b.t
	r := b.resolveLocal(ty)
	switch r.Kind {
	case "base":
		switch r.Name {
		case "bool":
			return &Value{Kind: "bool", B: rapid.Bool().Draw(t, label+".b")}
		case "byte", "i8":
			return &Value{Kind: "int", I: int64(rapid.IntRange(-128, 127).Draw(t, label+".i"))}
		case "i16":
			return &Value{Kind: "int", I: int64(rapid.IntRange(-32768, 32767).Draw(t, label+".i"))}
		case "i32":
			return &Value{Kind: "int", I: int64(rapid.Int32().Draw(t, label+".i"))}
		case "i64":
			return &Value{Kind: "int", I: rapid.SampledFrom([]int64{0, 1, -1, 42, 1 << 40, -(1 << 40), 9223372036854775807, -9223372036854775808}).Draw(t, label+".i")}
		case "double":
			return &Value{Kind: "double", D: rapid.SampledFrom([]float64{0, 1.5, -2.25, 3, 1000.125, 1.5e3, 0.001, 0.0000001, 1.23456789, -0.00000075, 6.62607015e-34, 12345678.901234567, 2.5e10, -9.87654321e15, 2.5e-8, 1.25e9, -7.5e-9}).Draw(t, label+".d")}
		case "string":
			return &Value{Kind: "string", S: rapid.SampledFrom(stringValues(b.c)).Draw(t, label+".s")}
		case "binary":
			return nil
		}
	case "list", "set":
		if depth <= 0 {
			return nil
		}
		n := rapid.IntRange(0, 3).Draw(t, label+".n")
		v := &Value{Kind: "list"}
		seen := map[string]bool{}
		for i := 0; i < n; i++ {
			e := b.genValue(label+".e", r.Val, depth-1, forConst)
			if e == nil {
				return nil
			}
			k := valueKey(e)
			if r.Kind == "set" && seen[k] {
				continue
			}
			seen[k] = true
			v.L = append(v.L, e)
		}
		return v
	case "map":
		if depth <= 0 {
			return nil
		}
		n := rapid.IntRange(0, 3).Draw(t, label+".n")
		v := &Value{Kind: "map"}
		seen := map[string]bool{}
		for i := 0; i < n; i++ {
			k := b.genValue(label+".k", r.Key, depth-1, forConst)
			e := b.genValue(label+".v", r.Val, depth-1, forConst)
			if k == nil || e == nil {
				return nil
			}
			ks := valueKey(k)
			if seen[ks] {
				continue
			}
			seen[ks] = true
			v.M = append(v.M, [2]*Value{k, e})
		}
		return v
	case "ref":
		d := b.lookup(r)
		if d == nil || d.Kind != "enum" || len(d.EnumValues) == 0 {
			return nil
		}
		ev := d.EnumValues[rapid.IntRange(0, len(d.EnumValues)-1).Draw(t, label+".ev")]
		if forConst {
			// by number or by name (constants naming an enum value were rejected before the
			// validateConstant fix, see known_findings.json)
			if rapid.Bool().Draw(t, label+".bynumber") {
				return &Value{Kind: "int", I: int64(ev.Value)}
			}
		}
		name := d.Name + "." + ev.Name
		if r.File != b.fi {
			// an identifier may only name something from a directly included file
			direct := false
			for _, inc := range b.f.Includes {
				if inc == r.File {
					direct = true
				}
			}
			if !direct {
				return nil
			}
			name = b.p.Files[r.File].Name + "." + name
		}
		// I carries the numeric value so that container keys can be compared (it is not rendered)
		return &Value{Kind: "ident", Ident: name, I: int64(ev.Value)}
	}
	return nil
}

// valueKey identifies a constant value semantically: an enum value named by
// identifier and the same value written as an integer are one key.
func valueKey(v *Value) string {
	if v.Kind == "ident" || v.Kind == "int" {
		return fmt.Sprintf("n:%d", v.I)
	}
	return fmt.Sprintf("%+v", *v)
}

func (b *builder) lookup(r *Type) *Decl {
	if r.File == b.fi {
		for _, d := range b.f.Decls {
			if d.Name == r.Name && d.Kind != "const" && d.Kind != "service" && d.Kind != "scope" {
				return d
			}
		}
		return nil
	}
	return b.p.Decl(r.File, r.Name)
}

func (b *builder) resolveLocal(t *Type) *Type {
	for i := 0; i < 64 && t.Kind == "ref"; i++ {
		d := b.lookup(t)
		if d == nil || d.Kind != "typedef" {
			return t
		}
		t = d.Type
	}
	return t
}

func (b *builder) genFields(label string, owner string, n int, union, args bool) []Field {
	t := b.t
	fn := newNamer()
	var out []Field
	// ids: ascending with gaps, or (1 in 4) in an order unrelated to the declaration order
	ids := make([]int, n)
	id := 0
	for i := range ids {
		id += rapid.IntRange(1, 3).Draw(t, label+".idstep")
		ids[i] = id
	}
	if n > 1 && rapid.IntRange(0, 3).Draw(t, label+".idshuffle") == 0 {
		ids = rapid.Permutation(ids).Draw(t, label+".idorder")
	}
	for i := 0; i < n; i++ {
		id = ids[i]
		f := Field{ID: id}
		f.Name = b.c.genName(t, fn, label+".fname", memberStyles)
		if b.c.hz(t, HzKeywordArg, 40) {
			f.Name = rapid.SampledFrom([]string{"type", "range", "class", "def", "r", "err", "func", "import"}).Draw(t, label+".kw")
		}
		f.Type = b.genType(label+".ftype", 2, false, nil)
		if !union {
			f.Req = rapid.SampledFrom([]string{"", "", "required", "optional"}).Draw(t, label+".req")
		} else {
			// a requiredness keyword may be written on a union field; it stays optional all the same
			f.Req = rapid.SampledFrom([]string{"", "", "", "optional", "required"}).Draw(t, label+".ureq")
		}
		if args {
			f.Req = rapid.SampledFrom([]string{"", "", "", "required"}).Draw(t, label+".areq")
		}
		if b.c.Defaults && !union && !args && rapid.IntRange(0, 3).Draw(t, label+".def?") == 0 {
			f.Default = b.genValue(label+".def", f.Type, 2, false)
			if k := b.undKind(f.Type); b.c.GoExec && f.Req == "optional" && f.Default != nil && !(k == "enum" || strings.HasPrefix(k, "base:") && k != "base:binary") {
				// Thrift-Go represents an optional field with a default as a plain value whose
				// "set" state is value != default; the executable spec models that convention for
				// scalars (numbers, bool, string, enums) only
				f.Default = nil
				b.c.Excluded["optional-container-with-default(goexec)"]++
			}
		}
		f.Doc = b.doc(label + ".f")
		f.Ann = b.ann(label + ".f")
		out = append(out, f)
	}
	// shuffle textual order a little: ids need not be ascending in the text
	if len(out) > 1 && rapid.IntRange(0, 3).Draw(t, label+".swap") == 0 {
		i := rapid.IntRange(0, len(out)-2).Draw(t, label+".swapi")
		out[i], out[i+1] = out[i+1], out[i]
	}
	return out
}

func (b *builder) add(d *Decl) {
	b.f.Decls = append(b.f.Decls, d)
	switch d.Kind {
	case "enum", "struct", "union", "exception":
		b.types = append(b.types, avail{b.fi, d.Name, d.Kind, ""})
	case "typedef":
		b.types = append(b.types, avail{b.fi, d.Name, "typedef", b.undKind(d.Type)})
	case "service":
		b.svcs = append(b.svcs, Ref{b.fi, d.Name})
	}
}

func (b *builder) count(label string, max int) int {
	return rapid.IntRange(0, max*b.c.Scale).Draw(b.t, label)
}

// GenProgram draws a valid program.
func GenProgram(c *Cfg) func(t *rapid.T) *Program {
	return func(t *rapid.T) *Program {
		p := &Program{}
		nf := rapid.IntRange(1, c.MaxFiles).Draw(t, "nfiles")
		twins := c.Twins && !c.NoIncludes && rapid.IntRange(0, 5).Draw(t, "twins") == 0
		if twins {
			nf = 5 // 0: l/<name>, 1: r/<name>, 2 includes 0, 3 includes 1, 4 (root) includes 2 and 3
		}
		fileNames := newNamer()
		pkgNames := newNamer()
		var allTypes [][]avail
		var allSvcs [][]Ref
		for fi := 0; fi < nf; fi++ {
			f := &File{}
			// file (= include / default package) names come from their own vocabulary so that
			// no member name can shadow a generated package name and no namespace collides with a file
			f.Name = strings.ToLower(c.genName(t, fileNames, "file", []string{"lower", "digit"})) +
				rapid.SampledFrom([]string{"_def", "_types", "svc", "_idl", "mod"}).Draw(t, "filesuffix")
			if c.Dirs && rapid.IntRange(0, 2).Draw(t, "dir?") == 0 {
				f.Dir = rapid.SampledFrom([]string{"sub", "deps/v1"}).Draw(t, "dir")
			}
			if twins {
				switch fi {
				case 0:
					f.Dir = "l"
				case 1:
					f.Dir, f.Name = "r", p.Files[0].Name
				}
			}
			b := &builder{c: c, t: t, p: p, fi: fi, f: f, names: newNamer()}
			// includes: any earlier files (transitively earlier ones stay reachable only if included directly)
			if !c.NoIncludes {
				for j := 0; j < fi; j++ {
					forced, want := twins, false
					if twins {
						want = fi == 2 && j == 0 || fi == 3 && j == 1 || fi == 4 && (j == 2 || j == 3)
					}
					if forced && !want {
						continue
					}
					if forced && want || rapid.IntRange(0, 2).Draw(t, "incl?") != 0 || (fi == nf-1 && j == fi-1) {
						f.Includes = append(f.Includes, j)
						b.types = append(b.types, allTypes[j]...)
						b.svcs = append(b.svcs, allSvcs[j]...)
					}
				}
			}
			// the include statements need not follow the order in which the files were written
			if len(f.Includes) > 1 && rapid.Bool().Draw(t, "inclshuffle") {
				f.Includes = rapid.Permutation(f.Includes).Draw(t, "inclorder")
			}
			// namespaces
			if rapid.IntRange(0, 2).Draw(t, "ns?") != 0 {
				pk := strings.ReplaceAll(c.genName(t, pkgNames, "pkg", []string{"lower", "digit"}), "_", "") + "pkg"
				for _, sc := range []string{"go", "java", "py", "dart", "*"} {
					if rapid.IntRange(0, 2).Draw(t, "ns."+sc) == 0 {
						v := pk
						if sc == "java" || sc == "py" || sc == "*" {
							if rapid.Bool().Draw(t, "nsdot") {
								v = "org." + pk
							}
						}
						ns := Namespace{Scope: sc, Value: v}
						if sc != "*" && fi < nf-1 && rapid.IntRange(0, 3).Draw(t, "ns.vendor") == 0 {
							// the file advertises a vendored location (used only with use_vendor and an
							// include statement that asks for it; the generated include statements do not)
							ns.Vendor = "vendored.example/" + strings.ReplaceAll(v, ".", "/")
						}
						f.Namespaces = append(f.Namespaces, ns)
					}
				}
			}
			p.Files = append(p.Files, f)
			own := len(b.types)
			ownS := len(b.svcs)
			b.genDecls()
			// a typedef may be written before the typedef it aliases (forward reference): move
			// some aliases in front of their targets
			for i := 0; i < len(f.Decls); i++ {
				d := f.Decls[i]
				if d.Kind != "typedef" || d.Type == nil || d.Type.Kind != "ref" || d.Type.File != fi {
					continue
				}
				for j := 0; j < i; j++ {
					if tgt := f.Decls[j]; tgt.Kind == "typedef" && tgt.Name == d.Type.Name {
						if rapid.IntRange(0, 2).Draw(t, "fwdtypedef") == 0 {
							moved := append([]*Decl{}, f.Decls[:j]...)
							moved = append(moved, d)
							moved = append(moved, f.Decls[j:i]...)
							moved = append(moved, f.Decls[i+1:]...)
							f.Decls = moved
						}
						break
					}
				}
			}
			allTypes = append(allTypes, append([]avail{}, b.types[own:]...))
			allSvcs = append(allSvcs, append([]Ref{}, b.svcs[ownS:]...))
		}
		return p
	}
}

func (b *builder) genDecls() {
	t, c := b.t, b.c
	// enums
	for i, n := 0, b.count("nenum", 2); i < n; i++ {
		d := &Decl{Kind: "enum", Name: c.genName(t, b.names, "enum", typeStyles), Doc: b.doc("enum"), Ann: b.ann("enum")}
		vn := newNamer()
		next := 0
		usedVals := map[int]bool{}
		nv := rapid.IntRange(1, 5).Draw(t, "nvals")
		for j := 0; j < nv; j++ {
			ev := EnumValue{Name: c.genName(t, vn, "eval", enumValStyles), Doc: b.doc("eval"), Ann: b.ann("eval")}
			if rapid.IntRange(0, 2).Draw(t, "explicit?") == 0 {
				ev.Explicit = true
				ev.Value = next + rapid.IntRange(0, 5).Draw(t, "evstep")
				var free []int
				for v := 0; v < next && c.EnumDecreasing; v++ {
					if !usedVals[v] {
						free = append(free, v)
					}
				}
				if len(free) > 0 && rapid.IntRange(0, 2).Draw(t, "evdecr?") == 0 {
					// an explicit value below its predecessor, distinct from every other value
					var tight []int // free values directly below a used one
					for _, v := range free {
						if usedVals[v+1] {
							tight = append(tight, v)
						}
					}
					if len(tight) > 0 && rapid.Bool().Draw(t, "evtight") {
						free = tight
					}
					ev.Value = rapid.SampledFrom(free).Draw(t, "evdecr")
				} else if c.hz(t, HzEnumNonMonotonic, 12) {
					ev.Value = rapid.IntRange(-3, next).Draw(t, "evback")
				}
			} else {
				ev.Value = next
			}
			usedVals[ev.Value] = true
			if c.EnumDecreasing {
				// the numbering grammar.peg documents: one more than the largest value so far
				if ev.Value >= next {
					next = ev.Value + 1
				}
			} else {
				next = ev.Value + 1
			}
			d.EnumValues = append(d.EnumValues, ev)
		}
		b.add(d)
	}
	// typedefs, structs, unions, exceptions interleaved
	kinds := []string{}
	for i, n := 0, b.count("ntypedef", 3); i < n; i++ {
		kinds = append(kinds, "typedef")
	}
	for i, n := 0, b.count("nstruct", 4); i < n; i++ {
		kinds = append(kinds, "struct")
	}
	for i, n := 0, b.count("nunion", 1); i < n; i++ {
		kinds = append(kinds, "union")
	}
	for i, n := 0, b.count("nexc", 2); i < n; i++ {
		kinds = append(kinds, "exception")
	}
	if len(kinds) > 1 {
		kinds = rapid.Permutation(kinds).Draw(t, "kindorder")
	}
	for _, k := range kinds {
		switch k {
		case "typedef":
			d := &Decl{Kind: "typedef", Name: c.genName(t, b.names, "typedef", typeStyles), Doc: b.doc("typedef"), Ann: b.ann("typedef")}
			d.Type = b.genType("typedef.t", 2, false, nil)
			// the same name may be declared, with another meaning, in an included file
			if len(b.types) > 0 && rapid.IntRange(0, 1).Draw(t, "shadow?") == 0 {
				a := b.types[rapid.IntRange(0, len(b.types)-1).Draw(t, "shadow")]
				if a.file != b.fi && b.names.take(a.name) {
					d.Name = a.name
					d.Type = &Type{Kind: "base", Name: rapid.SampledFrom([]string{"i64", "string", "bool", "double"}).Draw(t, "shadowbase")}
				}
			}
			if c.hz(t, HzBaseTypePrefixName, 30) {
				d.Name = rapid.SampledFrom([]string{"stringList", "i32Thing", "boolish", "doubleTrouble", "byteSize", "binaryBlob", "i64Key", "optionalThing", "requiredThing", "voidish"}).Draw(t, "btname")
				if !b.names.take(d.Name) {
					continue
				}
			}
			b.add(d)
		default:
			d := &Decl{Kind: k, Name: c.genName(t, b.names, k, typeStyles), Doc: b.doc(k), Ann: b.ann(k)}
			twinOdds := 3
			if k == "exception" {
				twinOdds = 1 // same-named exceptions of two files in one throws list are a known weak spot
			}
			if b.fi > 0 && rapid.IntRange(0, twinOdds).Draw(t, k+".twin?") == 0 {
				// a declaration of the same kind and name as one in an earlier file (another package)
				var twins []string
				if k == "exception" {
					// of an included file, so that services of this file can throw both
					for _, a := range b.types {
						if a.kind == "exception" && a.file != b.fi {
							twins = append(twins, a.name)
						}
					}
				}
				for _, f := range b.p.Files[:b.fi] {
					if len(twins) > 0 && k == "exception" {
						break
					}
					for _, od := range f.Decls {
						if od.Kind == k {
							twins = append(twins, od.Name)
						}
					}
				}
				if len(twins) > 0 {
					if n := twins[rapid.IntRange(0, len(twins)-1).Draw(t, k+".twin")]; b.names.take(n) {
						d.Name = n
					}
				}
			}
			nf := rapid.IntRange(0, 6).Draw(t, k+".nfields")
			if k == "union" {
				nf = rapid.IntRange(1, 4).Draw(t, k+".nfields")
			}
			d.Fields = b.genFields(k, d.Name, nf, k == "union", false)
			b.add(d)
		}
	}
	// constants
	if c.Consts {
		for i, n := 0, b.count("nconst", 3); i < n; i++ {
			ty := b.genType("const.t", 2, false, map[string]bool{"base": true, "list": true, "set": true, "map": true, "enum": true})
			v := b.genValue("const.v", ty, 3, true)
			if v == nil {
				continue
			}
			b.f.Decls = append(b.f.Decls, &Decl{Kind: "const", Name: c.genName(t, b.names, "const", []string{"scream", "camel", "lower", "pascal"}), Type: ty, Value: v, Doc: b.doc("const"), Ann: b.ann("const")})
		}
	}
	// services
	if c.Services {
		var excs []avail
		for _, a := range b.types {
			if a.kind == "exception" {
				excs = append(excs, a)
			}
		}
		for i, n := 0, b.count("nsvc", 2); i < n; i++ {
			d := &Decl{Kind: "service", Name: c.genName(t, b.names, "service", typeStyles), Doc: b.doc("service"), Ann: b.ann("service")}
			mn := newNamer()
			if len(b.svcs) > 0 && rapid.IntRange(0, 2).Draw(t, "extends?") == 0 {
				r := b.svcs[rapid.IntRange(0, len(b.svcs)-1).Draw(t, "extends")]
				d.Extends = &r
				// inherited method names are taken too
				for s := b.findService(r); s != nil; {
					for _, m := range s.Methods {
						mn.take(m.Name)
					}
					if s.Extends == nil {
						break
					}
					s = b.findService(*s.Extends)
				}
			}
			nm := rapid.IntRange(0, 4).Draw(t, "nmethods")
			for j := 0; j < nm; j++ {
				m := Method{Name: c.genName(t, mn, "method", methodStyles), Doc: b.doc("method"), Ann: b.ann("method")}
				m.Args = b.genFields("arg", m.Name, rapid.IntRange(0, 4).Draw(t, "nargs"), false, true)
				switch rapid.IntRange(0, 5).Draw(t, "mkind") {
				case 0:
					m.Oneway = true
				case 1:
					// void
				default:
					m.Ret = b.genType("ret", 2, false, nil)
				}
				hasTwins := false
				for _, e := range excs {
					for _, o := range excs {
						if e.name == o.name && e.file != o.file {
							hasTwins = true
						}
					}
				}
				if !m.Oneway && len(excs) > 0 && (rapid.IntRange(0, 1).Draw(t, "throws?") == 0 || hasTwins && rapid.Bool().Draw(t, "throws.twins?")) {
					ne := rapid.IntRange(1, 3).Draw(t, "nthrows")
					if hasTwins && ne < 2 {
						ne = 2
					}
					used := map[string]bool{}
					en := newNamer()
					id := 0
					for k := 0; k < ne; k++ {
						a := excs[rapid.IntRange(0, len(excs)-1).Draw(t, "exc")]
						if k == 0 && ne >= 2 {
							// start with an exception that has a twin, if there is one
							var withTwin []avail
							for _, e := range excs {
								for _, o := range excs {
									if e.name == o.name && e.file != o.file {
										withTwin = append(withTwin, e)
										break
									}
								}
							}
							if len(withTwin) > 0 && rapid.IntRange(0, 3).Draw(t, "exc.first.twin?") != 0 {
								a = withTwin[rapid.IntRange(0, len(withTwin)-1).Draw(t, "exc.first.twin")]
							}
						}
						if k > 0 {
							// prefer the twin (same name, other file) of an exception already listed
							var tw []avail
							for _, e := range excs {
								for _, prev := range m.Throws {
									if e.name == prev.Type.Name && e.file != prev.Type.File {
										tw = append(tw, e)
									}
								}
							}
							if len(tw) > 0 && rapid.IntRange(0, 3).Draw(t, "exc.twin?") != 0 {
								a = tw[rapid.IntRange(0, len(tw)-1).Draw(t, "exc.twin")]
							}
						}
						// (the same exception type may be declared twice; ids in any order, with gaps)
						if rapid.IntRange(0, 3).Draw(t, "excid.any") == 0 {
							id = rapid.IntRange(1, 9).Draw(t, "excid.free")
							for used[fmt.Sprint(id)] {
								id++
							}
						} else {
							id += rapid.IntRange(1, 2).Draw(t, "excid")
							for used[fmt.Sprint(id)] {
								id++
							}
						}
						used[fmt.Sprint(id)] = true
						m.Throws = append(m.Throws, Field{ID: id, Name: c.genName(t, en, "excname", []string{"lower", "camel"}), Type: &Type{Kind: "ref", Name: a.name, File: a.file}})
					}
				}
				if rapid.IntRange(0, 9).Draw(t, "deprecated?") == 0 {
					m.Ann = append(m.Ann, Ann{"deprecated", "use something else"})
				}
				d.Methods = append(d.Methods, m)
			}
			b.add(d)
		}
	}
	// scopes
	if c.Scopes {
		for i, n := 0, b.count("nscope", 2); i < n; i++ {
			d := &Decl{Kind: "scope", Name: c.genName(t, b.names, "scope", typeStyles), Doc: b.doc("scope"), Ann: b.ann("scope")}
			// scopes X and NewX in one file: NewXPublisher is both the constructor of X's publisher
			// and the publisher interface of NewX in the Go output (known finding, excluded)
			clash := false
			for _, od := range b.f.Decls {
				if od.Kind != "scope" {
					continue
				}
				a, bn := normName(od.Name), normName(d.Name)
				if a == "new"+bn || bn == "new"+a {
					clash = true
				}
			}
			if clash && !c.Hazards[HzScopeNewPair] {
				c.Excluded[HzScopeNewPair]++
				continue
			}
			d.Prefix = c.GenPrefix(t)
			on := newNamer()
			no := rapid.IntRange(1, 3).Draw(t, "nops")
			if c.ScopeSpread {
				no = rapid.IntRange(1, 5).Draw(t, "nops5")
			}
			seenFiles := map[int]bool{b.fi: true}
			for j := 0; j < no; j++ {
				ty := b.genType("op.t", 2, false, nil)
				if c.ScopeSpread && rapid.Bool().Draw(t, "op.spread") {
					// a type of an included file this scope does not reference yet
					var cands []avail
					for _, a := range b.types {
						if !seenFiles[a.file] && (a.kind == "struct" || a.kind == "union" || a.kind == "enum") {
							cands = append(cands, a)
						}
					}
					if len(cands) > 0 {
						a := cands[rapid.IntRange(0, len(cands)-1).Draw(t, "op.spread.ref")]
						ty = &Type{Kind: "ref", Name: a.name, File: a.file}
						switch rapid.IntRange(0, 3).Draw(t, "op.spread.wrap") {
						case 0:
							ty = &Type{Kind: "list", Val: ty}
						case 1:
							ty = &Type{Kind: "map", Key: &Type{Kind: "base", Name: "string"}, Val: ty}
						}
					}
				}
				walkType(ty, func(x *Type) {
					if x.Kind == "ref" {
						seenFiles[x.File] = true
					}
				})
				d.Ops = append(d.Ops, Op{Name: c.genName(t, on, "op", []string{"pascal", "title", "camel", "lower"}), Type: ty, Doc: b.doc("op"), Ann: b.ann("op")})
			}
			b.f.Decls = append(b.f.Decls, d)
		}
	}
}

func (b *builder) findService(r Ref) *Decl {
	if r.File == b.fi {
		for _, d := range b.f.Decls {
			if d.Kind == "service" && d.Name == r.Name {
				return d
			}
		}
		return nil
	}
	return b.p.Service(r.File, r.Name)
}

// GenPrefix draws a scope prefix: 0..3 static tokens and 0..3 variables.
func (c *Cfg) GenPrefix(t *rapid.T) []PrefixTok {
	n := rapid.IntRange(0, 5).Draw(t, "nprefix")
	var out []PrefixTok
	vn := newNamer()
	for i := 0; i < n; i++ {
		if rapid.Bool().Draw(t, "pvar?") {
			v := rapid.SampledFrom([]string{"user", "tenant", "region", "id", "u2", "acct", "env", "u", "X"}).Draw(t, "pvar")
			if !vn.take(v) {
				continue
			}
			out = append(out, PrefixTok{Var: true, Text: v})
		} else {
			out = append(out, PrefixTok{Text: rapid.SampledFrom([]string{"foo", "bar", "v1", "events", "prod-eu", "a_b", "X9"}).Draw(t, "ptok")})
		}
	}
	return out
}
