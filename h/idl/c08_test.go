package idl

// C08 — publisher and subscriber agree on the topic, in every target language.
// The prefix / op / topic assignments are extracted from the emitted source of
// every target and evaluated by small evaluators (Go fmt.Sprintf, Java
// String.format, Dart interpolation; Python lines are exec'd by CPython).

import (
	"encoding/json"
	"fmt"
	"os"
	"path/filepath"
	"regexp"
	"strings"
	"testing"
	"time"

	"pgregory.net/rapid"
	"verif/ev"
)

type c08Case struct {
	Scope  string            `json:"scope"`
	Prefix []PrefixTok       `json:"prefix"`
	Ops    []string          `json:"ops"`
	Delim  string            `json:"delim"`
	Values map[string]string `json:"values"`
	// optional second file, included by the first and compiled with -r: a scope of
	// the SAME name with its own prefix and operations
	IncPrefix []PrefixTok `json:"inc_prefix,omitempty"`
	IncOps    []string    `json:"inc_ops,omitempty"`
}

var c08Delims = []string{".", ".", "/", "-", "_", ":", "|", ".."}

func genC08(t *rapid.T) c08Case {
	cfg := DefaultCfg()
	c := c08Case{Values: map[string]string{}}
	n := newNamer()
	c.Scope = cfg.genName(t, n, "scope", []string{"title", "pascal", "lower", "camel", "snake", "Initialism", "scream", "digit"})
	c.Prefix = cfg.GenPrefix(t)
	on := newNamer()
	for i, k := 0, rapid.IntRange(1, 3).Draw(t, "nops"); i < k; i++ {
		c.Ops = append(c.Ops, cfg.genName(t, on, "op", []string{"pascal", "title", "camel", "lower", "snake", "Initialism"}))
	}
	c.Delim = rapid.SampledFrom(c08Delims).Draw(t, "delim")
	if rapid.IntRange(0, 2).Draw(t, "twofiles") == 0 {
		c.IncPrefix = cfg.GenPrefix(t)
		for i, k := 0, rapid.IntRange(1, 2).Draw(t, "nincops"); i < k; i++ {
			c.IncOps = append(c.IncOps, "Inc"+cfg.genName(t, on, "incop", []string{"pascal", "title"}))
		}
	}
	for _, p := range append(append([]PrefixTok{}, c.Prefix...), c.IncPrefix...) {
		if p.Var {
			c.Values[p.Text] = rapid.SampledFrom([]string{"alice", "b0b", "X", "tenant-7", "eu_west", "a b"}).Draw(t, "value")
		}
	}
	return c
}

func (c c08Case) program() *Program {
	var files []*File
	if len(c.IncOps) > 0 {
		// without distinct namespaces both files would emit <Scope>Publisher into the same directory
		inc := &File{Name: "inc_topics_def", Namespaces: []Namespace{{Scope: "*", Value: "incpkg"}}}
		d := &Decl{Kind: "scope", Name: c.Scope, Prefix: c.IncPrefix}
		for _, o := range c.IncOps {
			d.Ops = append(d.Ops, Op{Name: o, Type: &Type{Kind: "base", Name: "string"}})
		}
		inc.Decls = append(inc.Decls, d)
		files = append(files, inc)
	}
	f := &File{Name: "topics_def"}
	if len(files) > 0 {
		f.Includes = []int{0}
		f.Namespaces = []Namespace{{Scope: "*", Value: "rootpkg"}}
	}
	f.Decls = append(f.Decls, &Decl{Kind: "struct", Name: "Evt", Fields: []Field{{ID: 1, Name: "v", Type: &Type{Kind: "base", Name: "string"}}}})
	d := &Decl{Kind: "scope", Name: c.Scope, Prefix: c.Prefix}
	for i, o := range c.Ops {
		ty := &Type{Kind: "ref", Name: "Evt", File: 0}
		if i%2 == 1 {
			ty = &Type{Kind: "base", Name: "string"}
		}
		d.Ops = append(d.Ops, Op{Name: o, Type: ty})
	}
	f.Decls = append(f.Decls, d)
	for _, dd := range f.Decls {
		for i := range dd.Ops {
			if dd.Ops[i].Type.Kind == "ref" {
				dd.Ops[i].Type.File = len(files)
			}
		}
	}
	return &Program{Files: append(files, f)}
}

func classifyC08(c c08Case) ev.Class {
	vars := 0
	for _, p := range c.Prefix {
		if p.Var {
			vars++
		}
	}
	labels := []string{"delim=" + c.Delim, fmt.Sprintf("vars=%d", vars), fmt.Sprintf("tokens=%d", len(c.Prefix))}
	if len(c.IncOps) > 0 {
		labels = append(labels, "same-scope-name-in-included-file")
	}
	capital := c.Scope[0] >= 'A' && c.Scope[0] <= 'Z'
	if !capital {
		labels = append(labels, "scope-not-capitalised")
	}
	if strings.Contains(c.Scope, "_") {
		labels = append(labels, "scope-snake")
	}
	b, _ := json.Marshal(c)
	return ev.Class{NonTrivial: c.Delim != "." || !capital || vars >= 1, Key: string(b), Labels: labels}
}

type triple struct{ op, prefix, topic string }

var (
	reOp     = regexp.MustCompile(`^\s*(?:final\s+)?(?:String\s+|var\s+)?op\s*:?=\s*(.+?);?\s*$`)
	rePrefix = regexp.MustCompile(`^\s*(?:final\s+)?(?:String\s+|var\s+)?prefix\s*:?=\s*(.+?);?\s*$`)
	reTopic  = regexp.MustCompile(`^\s*(?:final\s+)?(?:String\s+|var\s+)?topic\s*:?=\s*(.+?);?\s*$`)
	reDelim  = regexp.MustCompile(`(?:DELIMITER|delimiter)\s*=\s*(.+?);?\s*$`)
)

// extract returns the (op, prefix, topic) expression triples of a source file
// and the delimiter constant expression, if any.
func extractTriples(src string) (out []triple, delim string) {
	var cur triple
	for _, line := range strings.Split(src, "\n") {
		if m := reDelim.FindStringSubmatch(line); m != nil && delim == "" && !strings.Contains(line, "topic") {
			delim = m[1]
		}
		if m := reOp.FindStringSubmatch(line); m != nil {
			cur.op = m[1]
			continue
		}
		if m := rePrefix.FindStringSubmatch(line); m != nil && !strings.Contains(line, "prefix = \"\\n") {
			cur.prefix = m[1]
			continue
		}
		if m := reTopic.FindStringSubmatch(line); m != nil && cur.op != "" {
			cur.topic = m[1]
			out = append(out, cur)
			cur = triple{}
		}
	}
	return
}

// ---- tiny evaluators

func unquoteLit(s string) (string, bool) {
	s = strings.TrimSpace(s)
	if len(s) >= 2 && (s[0] == '"' && s[len(s)-1] == '"' || s[0] == '\'' && s[len(s)-1] == '\'') {
		return s[1 : len(s)-1], true
	}
	return "", false
}

func splitArgs(s string) []string {
	var out []string
	depth, start := 0, 0
	inq := byte(0)
	for i := 0; i < len(s); i++ {
		c := s[i]
		switch {
		case inq != 0:
			if c == '\\' {
				i++
			} else if c == inq {
				inq = 0
			}
		case c == '"' || c == '\'':
			inq = c
		case c == '(':
			depth++
		case c == ')':
			depth--
		case c == ',' && depth == 0:
			out = append(out, strings.TrimSpace(s[start:i]))
			start = i + 1
		}
	}
	return append(out, strings.TrimSpace(s[start:]))
}

// evalFormat evaluates "lit" | ident | FMT("lit", args...) with %s placeholders (Go / Java).
func evalFormat(expr string, env map[string]string) (string, error) {
	expr = strings.TrimSpace(expr)
	if v, ok := unquoteLit(expr); ok {
		return v, nil
	}
	for _, fn := range []string{"fmt.Sprintf(", "String.format("} {
		if strings.HasPrefix(expr, fn) && strings.HasSuffix(expr, ")") {
			args := splitArgs(expr[len(fn) : len(expr)-1])
			f, ok := unquoteLit(args[0])
			if !ok {
				return "", fmt.Errorf("format string is not a literal: %s", args[0])
			}
			var vals []string
			for _, a := range args[1:] {
				v, err := evalFormat(a, env)
				if err != nil {
					return "", err
				}
				vals = append(vals, v)
			}
			var b strings.Builder
			vi := 0
			for i := 0; i < len(f); i++ {
				if f[i] == '%' && i+1 < len(f) {
					if f[i+1] == 's' {
						if vi >= len(vals) {
							return "", fmt.Errorf("too few arguments for %q", f)
						}
						b.WriteString(vals[vi])
						vi++
						i++
						continue
					}
					if f[i+1] == '%' {
						b.WriteByte('%')
						i++
						continue
					}
					return "", fmt.Errorf("unsupported verb in %q", f)
				}
				b.WriteByte(f[i])
			}
			if vi != len(vals) {
				return "", fmt.Errorf("too many arguments for %q", f)
			}
			return b.String(), nil
		}
	}
	if v, ok := env[expr]; ok {
		return v, nil
	}
	return "", fmt.Errorf("cannot evaluate %q", expr)
}

// evalDart evaluates a single-quoted Dart string with $name / ${name} interpolation.
func evalDart(expr string, env map[string]string) (string, error) {
	lit, ok := unquoteLit(expr)
	if !ok {
		return "", fmt.Errorf("not a Dart string literal: %s", expr)
	}
	var b strings.Builder
	for i := 0; i < len(lit); i++ {
		if lit[i] != '$' {
			b.WriteByte(lit[i])
			continue
		}
		j := i + 1
		var name string
		if j < len(lit) && lit[j] == '{' {
			k := strings.IndexByte(lit[j:], '}')
			if k < 0 {
				return "", fmt.Errorf("unterminated ${ in %s", expr)
			}
			name = lit[j+1 : j+k]
			i = j + k
		} else {
			k := j
			for k < len(lit) && (isIdentChar(lit[k])) {
				k++
			}
			name = lit[j:k]
			i = k - 1
		}
		v, ok := env[name]
		if !ok {
			return "", fmt.Errorf("unknown Dart variable %q in %s", name, expr)
		}
		b.WriteString(v)
	}
	return b.String(), nil
}

func (c c08Case) expected(title bool) string { return c.expectedFor(c.Prefix, title) }

func (c c08Case) expectedFor(prefixToks []PrefixTok, title bool) string {
	var parts []string
	for _, p := range prefixToks {
		if p.Var {
			parts = append(parts, c.Values[p.Text])
		} else {
			parts = append(parts, p.Text)
		}
	}
	// the prefix keeps the dots written in the IDL; prefix, scope and op are joined by the delimiter
	prefix := strings.Join(parts, ".")
	sc := c.Scope
	if title {
		sc = strings.ToUpper(sc[:1]) + sc[1:]
	}
	return prefix + "|" + sc
}

func checkC08(c c08Case) *ev.Failure {
	var f *ev.Failure
	ok, p := within(90*time.Second, func() { f = checkC08Inner(c) })
	if !ok {
		return ev.Failf("hang:c08", "did not finish in 90s")
	}
	if p != "" {
		return ev.Failf("panic:c08", "%s", firstLines(p, 12))
	}
	return f
}

func checkC08Inner(c c08Case) *ev.Failure {
	dir, cleanup := scratchDir("c08")
	defer cleanup()
	p := c.program()
	root, texts, _, err := writeProgram(p, nil, filepath.Join(dir, "src"))
	if err != nil {
		return ev.Failf("harness:write", "%v", err)
	}
	type langResult struct {
		lang   string
		topics map[string][]string // op -> evaluated topics (publisher, subscriber(s))
	}
	var results []langResult
	for _, lang := range []string{"go", "java", "dart", "py", "py:asyncio", "py:tornado"} {
		out := filepath.Join(dir, "out-"+strings.ReplaceAll(lang, ":", "-"))
		if err, pn := compileInProcess(root, lang, out, c.Delim, true); err != nil || pn != "" {
			return ev.Failf("harness:compile", "-gen %s failed (C11 covers this): %v %s\n%s", lang, err, firstLines(pn, 4), allTexts(texts))
		}
		lr := langResult{lang: lang, topics: map[string][]string{}}
		for _, file := range listFiles(out) {
			b, _ := os.ReadFile(file)
			src := string(b)
			triples, delimExpr := extractTriples(src)
			if len(triples) == 0 {
				continue
			}
			env := map[string]string{}
			for k, v := range c.Values {
				env[k] = v
			}
			if delimExpr != "" {
				d, ok := unquoteLit(delimExpr)
				if !ok {
					return ev.Failf("harness:extract", "%s: delimiter constant %q is not a literal", file, delimExpr)
				}
				env["DELIMITER"], env["delimiter"], env["self._DELIMITER"] = d, d, d
			}
			for _, tr := range triples {
				var topic string
				var err error
				switch {
				case strings.HasPrefix(lang, "py"):
					topic, err = pyEvalTopic(tr, env)
				case lang == "dart":
					e2 := map[string]string{}
					for k, v := range env {
						e2[k] = v
					}
					if e2["op"], err = evalDart(tr.op, e2); err == nil {
						if e2["prefix"], err = evalDart(tr.prefix, e2); err == nil {
							topic, err = evalDart(tr.topic, e2)
						}
					}
				default:
					e2 := map[string]string{}
					for k, v := range env {
						e2[k] = v
					}
					if e2["op"], err = evalFormat(tr.op, e2); err == nil {
						if e2["prefix"], err = evalFormat(tr.prefix, e2); err == nil {
							topic, err = evalFormat(tr.topic, e2)
						}
					}
				}
				if err != nil && lang == "dart" && strings.Contains(err.Error(), "unknown Dart variable") {
					return ev.Failf("dart-interpolation", "-gen dart -delim %q: the emitted topic expression refers to a variable that does not exist (%v): %+v\n%s", c.Delim, err, tr, texts["topics_def.frugal"])
				}
				if err != nil {
					return ev.Failf("harness:extract", "-gen %s %s: cannot evaluate %+v: %v", lang, file, tr, err)
				}
				opName := strings.Trim(tr.op, `"';`)
				lr.topics[opName] = append(lr.topics[opName], topic)
			}
		}
		for _, op := range append(append([]string{}, c.Ops...), c.IncOps...) {
			want := 2
			if lang == "py" {
				want = 1 // vanilla Python generates publishers only
			}
			if len(lr.topics[op]) < want {
				return ev.Failf("harness:extract", "-gen %s: found %d topic expressions for operation %s, expected at least %d", lang, len(lr.topics[op]), op, want)
			}
		}
		results = append(results, lr)
	}
	// (i) publisher == subscriber within each language; (ii) all languages agree; (iii) composition
	incOp := map[string]bool{}
	for _, o := range c.IncOps {
		incOp[o] = true
	}
	for _, op := range append(append([]string{}, c.Ops...), c.IncOps...) {
		ref := ""
		refLang := ""
		for _, lr := range results {
			for _, tp := range lr.topics[op] {
				if tp != lr.topics[op][0] {
					return ev.Failf("pub-sub-disagree:"+lr.lang, "-gen %s: publisher and subscriber of operation %s use different topics %q vs %q\n%s", lr.lang, op, lr.topics[op][0], tp, texts["topics_def.frugal"])
				}
			}
			if ref == "" {
				ref, refLang = lr.topics[op][0], lr.lang
			} else if lr.topics[op][0] != ref {
				return ev.Failf("languages-disagree:"+refLang+"-vs-"+lr.lang, "operation %s with -delim %q: %s uses topic %q but %s uses %q\n%s", op, c.Delim, refLang, ref, lr.lang, lr.topics[op][0], texts["topics_def.frugal"])
			}
		}
		okc := false
		for _, title := range []bool{false, true} {
			toks := c.Prefix
			if incOp[op] {
				toks = c.IncPrefix
			}
			e := strings.SplitN(c.expectedFor(toks, title), "|", 2)
			parts := []string{}
			if e[0] != "" {
				parts = append(parts, e[0])
			}
			parts = append(parts, e[1], op)
			if strings.Join(parts, c.Delim) == ref {
				okc = true
			}
		}
		if !okc {
			return ev.Failf("composition", "operation %s with -delim %q: topic %q is not prefix+delim+scope+delim+op (prefix %q, values %v)\n%s", op, c.Delim, ref, (&renderer{}).prefix(c.Prefix), c.Values, texts["topics_def.frugal"])
		}
	}
	return nil
}

func pyEvalTopic(tr triple, env map[string]string) (string, error) {
	peersMu.Lock()
	if py3Peer == nil {
		p, err := startLinePeer(py3Path, filepath.Join(verifDir(), "py", "wf_check.py"))
		if err != nil {
			peersMu.Unlock()
			return "", err
		}
		py3Peer = p
	}
	p := py3Peer
	peersMu.Unlock()
	req, _ := json.Marshal(map[string]interface{}{"kind": "pyeval", "lines": []string{"op = " + tr.op, "prefix = " + tr.prefix, "topic = " + tr.topic}, "vars": env})
	resp, err := p.ask(string(req))
	if err != nil {
		return "", err
	}
	var r struct {
		Topic string `json:"topic"`
		First string `json:"first"`
	}
	if err := json.Unmarshal([]byte(resp), &r); err != nil {
		return "", err
	}
	if r.First != "" {
		return "", fmt.Errorf("%s", r.First)
	}
	return r.Topic, nil
}

var c08Prop = ev.Prop("c08.topics", genC08, checkC08, classifyC08, nil)

func TestC08Topics(t *testing.T) { rapid.Check(t, c08Prop) }

// extractor self-test on the repository's golden outputs
func TestC08ExtractorSelfTest(t *testing.T) {
	for _, f := range []string{"go/variety/f_events_scope.txt", "java/variety/EventsPublisher.java", "java/variety/EventsSubscriber.java",
		"dart/variety/f_events_scope.dart", "python/variety/f_Events_publisher.py", "python.asyncio/variety/f_Events_subscriber.py", "python.tornado/variety/f_Events_subscriber.py"} {
		b, err := os.ReadFile("/repo/compiler/testdata/expected/" + f)
		if err != nil {
			t.Fatalf("%v", err)
		}
		tr, _ := extractTriples(string(b))
		if len(tr) < 4 {
			t.Errorf("%s: only %d triples extracted", f, len(tr))
		}
	}
}
