package idl

// Text-level checks: the same oracles as c10.roundtrip / c11.valid applied to
// IDL given as text. They have no generator; they exist so that a hand-written
// reproducer (known_findings.json, replay/*/…) can name the exact input that fails.

import (
	"encoding/json"
	"fmt"
	"os"
	"path/filepath"
	"strings"
	"time"

	"github.com/Workiva/frugal/compiler/parser"
	"verif/ev"
)

type textCase struct {
	Files   map[string]string `json:"files"` // path relative to the source root -> IDL text
	Root    string            `json:"root"`
	Target  string            `json:"target,omitempty"` // c11.text
	Delim   string            `json:"delim,omitempty"`
	Recurse bool              `json:"recurse,omitempty"`
}

func (c textCase) write(dir string) (string, error) {
	for name, text := range c.Files {
		p := filepath.Join(dir, filepath.FromSlash(name))
		if err := os.MkdirAll(filepath.Dir(p), 0o755); err != nil {
			return "", err
		}
		if err := os.WriteFile(p, []byte(text), 0o644); err != nil {
			return "", err
		}
	}
	return filepath.Join(dir, filepath.FromSlash(c.Root)), nil
}

func (c textCase) texts() string {
	var b strings.Builder
	for _, k := range sortedKeys(c.Files) {
		fmt.Fprintf(&b, "=== %s\n%s\n", k, c.Files[k])
	}
	return b.String()
}

// c10.text: valid IDL text must be accepted by the parser.
func checkC10Text(c textCase) *ev.Failure {
	var f *ev.Failure
	ok, p := within(30*time.Second, func() {
		dir, cleanup := scratchDir("c10t")
		defer cleanup()
		root, err := c.write(dir)
		if err != nil {
			f = ev.Failf("harness:write", "%v", err)
			return
		}
		if _, err := parser.ParseFrugal(root); err != nil {
			f = ev.Failf("valid-idl-rejected", "the parser rejects a well-formed program: %v\n%s", err, c.texts())
		}
	})
	if !ok {
		return ev.Failf("hang:parse", "parsing did not finish within 30s")
	}
	if p != "" {
		return ev.Failf("panic:parse", "%s", p)
	}
	return f
}

// c11.text: valid IDL text compiles for the target and the output is well-formed.
func checkC11Text(c textCase) *ev.Failure {
	dir, cleanup := scratchDir("c11t")
	defer cleanup()
	root, err := c.write(filepath.Join(dir, "src"))
	if err != nil {
		return ev.Failf("harness:write", "%v", err)
	}
	delim := c.Delim
	if delim == "" {
		delim = "."
	}
	out := filepath.Join(dir, "out")
	cerr, p := compileInProcess(root, c.Target, out, delim, c.Recurse)
	lang := strings.SplitN(c.Target, ":", 2)[0]
	if p != "" {
		return ev.Failf("compile-panic:"+lang+":"+panicSig(p), "-gen %s panicked on valid IDL: %s\n%s", c.Target, firstLines(p, 12), c.texts())
	}
	if cerr != nil {
		return ev.Failf("compile-error:"+lang+":"+errSig(cerr.Error()), "-gen %s rejects valid IDL: %v\n%s", c.Target, cerr, c.texts())
	}
	if f := wellFormed(c.Target, out, listFiles(out), true); f != nil {
		f.Msg += "\n" + c.texts()
		return f
	}
	return nil
}

func init() {
	ev.Register("c10.text", func(raw []byte) *ev.Failure {
		var c textCase
		if err := json.Unmarshal(raw, &c); err != nil {
			return ev.Failf("harness:bad-replay", "%v", err)
		}
		return checkC10Text(c)
	})
	ev.Register("c11.text", func(raw []byte) *ev.Failure {
		var c textCase
		if err := json.Unmarshal(raw, &c); err != nil {
			return ev.Failf("harness:bad-replay", "%v", err)
		}
		return checkC11Text(c)
	})
}

// c11.badtext: text that is not valid IDL must be rejected by the CLI: non-zero exit, a
// message, no Go runtime trace, no hang.
func checkC11BadText(c textCase) *ev.Failure {
	dir, cleanup := scratchDir("c11bt")
	defer cleanup()
	root, err := c.write(filepath.Join(dir, "src"))
	if err != nil {
		return ev.Failf("harness:write", "%v", err)
	}
	args := []string{"-gen", c.Target, "-out", filepath.Join(dir, "out")}
	if c.Recurse {
		args = append(args, "-r")
	}
	r := runCLI(dir, append(args, root)...)
	switch {
	case r.exit == -2:
		return ev.Failf("harness:cli", "%s", r.out)
	case r.timedOut:
		return ev.Failf("cli-hang:text", "the compiler did not terminate within 20s\n%s", c.texts())
	case hasGoTrace(r.out) != "":
		return ev.Failf("cli-crash:text", "the compiler died with a Go runtime trace, exit %d:\n%s\n%s", r.exit, clip(r.out, 1500), c.texts())
	case r.exit == 0:
		return ev.Failf("invalid-accepted:text", "-gen %s exited 0 on input that is not valid IDL\n%s", c.Target, c.texts())
	case strings.TrimSpace(r.out) == "":
		return ev.Failf("cli-silent-failure", "exit %d without any message\n%s", r.exit, c.texts())
	}
	return nil
}

func init() {
	ev.Register("c11.badtext", func(raw []byte) *ev.Failure {
		var c textCase
		if err := json.Unmarshal(raw, &c); err != nil {
			return ev.Failf("harness:bad-replay", "%v", err)
		}
		return checkC11BadText(c)
	})
}

// c11.clitext: valid IDL text through the command line: exit 0; a failure is classified by
// whether the process reported a diagnostic (exit 1 with a message) or died with a Go trace.
func checkC11CliText(c textCase) *ev.Failure {
	dir, cleanup := scratchDir("c11ct")
	defer cleanup()
	root, err := c.write(filepath.Join(dir, "src"))
	if err != nil {
		return ev.Failf("harness:write", "%v", err)
	}
	args := []string{"-gen", c.Target, "-out", filepath.Join(dir, "out")}
	if c.Recurse {
		args = append(args, "-r")
	}
	r := runCLI(dir, append(args, root)...)
	switch {
	case r.exit == -2:
		return ev.Failf("harness:cli", "%s", r.out)
	case r.timedOut:
		return ev.Failf("cli-hang:text", "the compiler did not terminate within 20s\n%s", c.texts())
	case strings.Contains(r.out, "goroutine ") || strings.Contains(r.out, "fatal error:") || r.exit > 1:
		return ev.Failf("cli-crash:text", "the compiler died with a Go runtime trace, exit %d:\n%s\n%s", r.exit, clip(r.out, 1500), c.texts())
	case r.exit != 0:
		return ev.Failf("cli-rejects-valid:"+errSig(r.out), "-gen %s exits %d on valid IDL: %s\n%s", c.Target, r.exit, clip(r.out, 600), c.texts())
	}
	return nil
}

func init() {
	ev.Register("c11.clitext", func(raw []byte) *ev.Failure {
		var c textCase
		if err := json.Unmarshal(raw, &c); err != nil {
			return ev.Failf("harness:bad-replay", "%v", err)
		}
		return checkC11CliText(c)
	})
}
