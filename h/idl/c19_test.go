package idl

// C19 — code generation is deterministic and location-independent.

import (
	"crypto/sha256"
	"fmt"
	"os"
	"path/filepath"
	"sort"
	"strings"
	"testing"
	"time"

	"pgregory.net/rapid"
	"verif/ev"
)

type c19Case struct {
	P      *Program `json:"program"`
	Lex    []byte   `json:"lex"`
	Target string   `json:"target"`
	Delim  string   `json:"delim"`
	CLI    bool     `json:"cli"`
	// Reuse: additionally compile into an -out directory that already holds the output of a
	// larger revision of the same program (every file has extra declarations)
	Reuse bool `json:"reuse,omitempty"`
}

func genC19(c *Cfg) func(t *rapid.T) c19Case {
	g := genProgCase(c)
	return func(t *rapid.T) c19Case {
		pc := g(t)
		targets := genTargets
		if twinFiles(pc.P) && rapid.Bool().Draw(t, "twin-target") {
			// targets that fold all reachable files into one output (keyed by file name)
			targets = []string{"json", "json:indent", "html", "html:standalone"}
		}
		return c19Case{P: pc.P, Lex: pc.Lex,
			Target: rapid.SampledFrom(targets).Draw(t, "target"),
			Delim:  rapid.SampledFrom([]string{".", ".", "/", "-"}).Draw(t, "delim"),
			CLI:    rapid.IntRange(0, 3).Draw(t, "cli") == 0,
			Reuse:  rapid.IntRange(0, 2).Draw(t, "reuse") == 0}
	}
}

// twinFiles: two files of the program share a base name.
func twinFiles(p *Program) bool {
	seen := map[string]bool{}
	for _, f := range p.Files {
		if seen[f.Name] {
			return true
		}
		seen[f.Name] = true
	}
	return false
}

func classifyC19(c c19Case) ev.Class {
	kinds, labels := programStats(c.P)
	if twinFiles(c.P) {
		labels = append(labels, "same-base-name-files")
	}
	labels = append(labels, "target="+c.Target)
	if c.CLI {
		labels = append(labels, "cli-placements")
	}
	if c.Reuse {
		labels = append(labels, "reused-out-directory")
	}
	incl := 0
	for _, f := range c.P.Files {
		incl += len(f.Includes)
		if f.Dir != "" {
			labels = append(labels, "subdirectory")
		}
	}
	for _, f := range c.P.Files {
		for _, d := range f.Decls {
			if d.Kind != "scope" {
				continue
			}
			fs := map[int]bool{}
			for _, o := range d.Ops {
				walkType(o.Type, func(x *Type) {
					if x.Kind == "ref" && c.P.Files[x.File] != f {
						fs[x.File] = true
					}
				})
			}
			if len(fs) >= 2 {
				labels = append(labels, "scope-references>=2-includes")
			}
		}
	}
	nt := len(c.P.Files) >= 3 && (kinds["service"]+kinds["scope"] >= 2) || incl >= 3
	texts, _ := Render(c.P, c.Lex)
	var all []string
	for _, k := range sortedKeys(texts) {
		all = append(all, k, texts[k])
	}
	return ev.Class{NonTrivial: nt, Key: strings.Join(all, "\x00") + "|" + c.Target + "|" + c.Delim + fmt.Sprint(c.CLI, c.Reuse), Labels: uniq(labels)}
}

func digestDir(dir string) (map[string]string, error) {
	out := map[string]string{}
	err := filepath.Walk(dir, func(p string, info os.FileInfo, err error) error {
		if err != nil || info.IsDir() {
			return err
		}
		b, err := os.ReadFile(p)
		if err != nil {
			return err
		}
		rel, _ := filepath.Rel(dir, p)
		out[filepath.ToSlash(rel)] = fmt.Sprintf("%x", sha256.Sum256(b))
		return nil
	})
	return out, err
}

func diffDigests(a, b map[string]string, dirA, dirB string) string {
	var keys []string
	for k := range a {
		keys = append(keys, k)
	}
	for k := range b {
		if _, ok := a[k]; !ok {
			keys = append(keys, k)
		}
	}
	sort.Strings(keys)
	for _, k := range keys {
		x, okx := a[k]
		y, oky := b[k]
		switch {
		case !okx:
			return fmt.Sprintf("file %s only in the second run", k)
		case !oky:
			return fmt.Sprintf("file %s only in the first run", k)
		case x != y:
			fa, _ := os.ReadFile(filepath.Join(dirA, k))
			fb, _ := os.ReadFile(filepath.Join(dirB, k))
			la, lb := strings.Split(string(fa), "\n"), strings.Split(string(fb), "\n")
			for i := 0; i < len(la) && i < len(lb); i++ {
				if la[i] != lb[i] {
					return fmt.Sprintf("file %s differs at line %d:\n   run 1: %s\n   run 2: %s", k, i+1, clip(la[i], 300), clip(lb[i], 300))
				}
			}
			return fmt.Sprintf("file %s differs in length (%d vs %d lines)", k, len(la), len(lb))
		}
	}
	return ""
}

func copyTree(src, dst string) error {
	return filepath.Walk(src, func(p string, info os.FileInfo, err error) error {
		if err != nil {
			return err
		}
		rel, _ := filepath.Rel(src, p)
		if info.IsDir() {
			return os.MkdirAll(filepath.Join(dst, rel), 0o755)
		}
		b, err := os.ReadFile(p)
		if err != nil {
			return err
		}
		return os.WriteFile(filepath.Join(dst, rel), b, 0o644)
	})
}

func checkC19(c c19Case) *ev.Failure {
	var f *ev.Failure
	ok, p := within(120*time.Second, func() { f = checkC19Inner(c) })
	if !ok {
		return ev.Failf("hang:c19", "did not finish in 120s")
	}
	if p != "" {
		return ev.Failf("panic:c19", "%s", firstLines(p, 12))
	}
	return f
}

func checkC19Inner(c c19Case) *ev.Failure {
	dir, cleanup := scratchDir("c19")
	defer cleanup()
	srcA := filepath.Join(dir, "a", "src")
	root, texts, _, err := writeProgram(c.P, c.Lex, srcA)
	if err != nil {
		return ev.Failf("harness:write", "%v", err)
	}
	type run struct {
		name string
		out  string
		dig  map[string]string
	}
	var runs []run
	inproc := func(name, rootPath, out string) *ev.Failure {
		err, p := compileInProcess(rootPath, c.Target, out, c.Delim, true)
		if p != "" || err != nil {
			return ev.Failf("harness:compile", "compilation failed in run %q (C11 covers this): %v %s", name, err, firstLines(p, 5))
		}
		d, derr := digestDir(out)
		if derr != nil {
			return ev.Failf("harness:digest", "%v", derr)
		}
		runs = append(runs, run{name, out, d})
		return nil
	}
	reps := 3
	if twinFiles(c.P) {
		reps = 16 // an order that depends on map iteration over two entries shows up in about one run in eight
	}
	for i := 0; i < reps; i++ {
		if f := inproc(fmt.Sprintf("repetition %d (same location)", i+1), root, filepath.Join(dir, "a", fmt.Sprintf("out%d", i))); f != nil {
			if i == 0 {
				return nil // not compilable: out of this property's domain
			}
			return f
		}
		if i == 0 {
			// the same files compiled for other targets in between, in this process (a build that
			// generates several languages): that must leave no trace in later output
			for j, other := range []string{"java", "go", "dart", "py"} {
				if strings.SplitN(c.Target, ":", 2)[0] != other {
					compileInProcess(root, other, filepath.Join(dir, "a", fmt.Sprintf("other%d", j)), c.Delim, true)
				}
			}
		}
	}
	// the same sources at a different absolute location, different -out directory name
	srcB := filepath.Join(dir, "somewhere", "else", "deeper", "tree")
	if err := copyTree(srcA, srcB); err != nil {
		return ev.Failf("harness:copy", "%v", err)
	}
	if f := inproc("copied source tree, other -out", filepath.Join(srcB, c.P.Root().Path()), filepath.Join(dir, "b-output-elsewhere")); f != nil {
		return f
	}
	// the same -out directory spelled in a non-canonical way (in process)
	{
		out := filepath.Join(dir, "spelled-out")
		spelled := []string{
			dir + "/./spelled-out",
			dir + "/somewhere/../spelled-out",
			dir + "/spelled-out//",
			dir + "//spelled-out/.",
		}[len(c.Lex)%4]
		err, p := compileInProcess(root, c.Target, spelled, c.Delim, true)
		if p != "" || err != nil {
			return ev.Failf("out-spelling-rejected", "-out %q: %v %s", spelled, err, firstLines(p, 5))
		}
		d, _ := digestDir(out)
		runs = append(runs, run{fmt.Sprintf("-out spelled %q", strings.TrimPrefix(spelled, dir)), out, d})
	}
	if c.CLI {
		// CLI, relative source path, relative -out, different cwd, different HOME/TMPDIR
		for i, cwd := range []string{filepath.Join(dir, "somewhere"), srcB, filepath.Join(dir, "cli-out2")} {
			rel, _ := filepath.Rel(cwd, filepath.Join(srcB, c.P.Root().Path()))
			out := filepath.Join(dir, fmt.Sprintf("cli-out%d", i))
			relOut, _ := filepath.Rel(cwd, out)
			switch i {
			case 1:
				relOut = "./" + relOut + "/" // a spelling with redundant elements
			case 2:
				os.MkdirAll(cwd, 0o755) // -out . from inside the output directory
				relOut = "."
			}
			os.MkdirAll(filepath.Join(dir, "home", fmt.Sprint(i)), 0o755)
			r := runCLIEnv(cwd, []string{"HOME=" + filepath.Join(dir, "home", fmt.Sprint(i)), "TMPDIR=" + filepath.Join(dir, "home", fmt.Sprint(i))},
				"-gen", c.Target, "-delim", c.Delim, "-r", "-out", relOut, rel)
			if r.exit != 0 {
				return ev.Failf("cli-differs-from-library", "CLI failed (exit %d) where the in-process compile succeeded: %s", r.exit, clip(r.out, 800))
			}
			d, _ := digestDir(out)
			runs = append(runs, run{fmt.Sprintf("CLI from cwd %d with relative paths", i), out, d})
		}
	}
	if c.Reuse {
		// an -out directory that already holds the output of a larger revision: every file the
		// compiler writes for this program must come out exactly as in a fresh directory
		// (files only the larger revision produced may remain)
		big := cloneProgram(c.P)
		for i, f := range big.Files {
			f.Decls = append(f.Decls,
				&Decl{Kind: "struct", Name: fmt.Sprintf("ZzStaleRecord%d", i), Fields: []Field{{ID: 1, Name: "staleField", Type: &Type{Kind: "base", Name: "string"}}}},
				&Decl{Kind: "service", Name: fmt.Sprintf("ZzStaleService%d", i), Methods: []Method{{Name: "stalePing"}, {Name: "staleEcho", Ret: &Type{Kind: "base", Name: "i64"}}}},
				&Decl{Kind: "scope", Name: fmt.Sprintf("ZzStaleScope%d", i), Prefix: []PrefixTok{{Text: "stale"}}, Ops: []Op{{Name: "StaleOp", Type: &Type{Kind: "base", Name: "string"}}}})
		}
		srcBig := filepath.Join(dir, "big", "src")
		rootBig, _, _, err := writeProgram(big, c.Lex, srcBig)
		if err != nil {
			return ev.Failf("harness:write", "%v", err)
		}
		out := filepath.Join(dir, "reused-out")
		if err, p := compileInProcess(rootBig, c.Target, out, c.Delim, true); err == nil && p == "" {
			if f := inproc("-out directory already holding a larger revision's output", root, out); f != nil {
				return f
			}
			last := &runs[len(runs)-1]
			for k := range last.dig {
				if _, ok := runs[0].dig[k]; !ok {
					delete(last.dig, k) // left over from the larger revision
				}
			}
		}
	}
	for i := 1; i < len(runs); i++ {
		if d := diffDigests(runs[0].dig, runs[i].dig, runs[0].out, runs[i].out); d != "" {
			if strings.HasPrefix(c.Target, "java") && strings.Contains(d, "date = \"") {
				// the dated @Generated annotation (the stated exception): two runs on either side of midnight
				ev.Count("c19.determinism", "excluded:dated-annotation-across-midnight", 1)
				return nil
			}
			sig := "nondeterministic-output"
			if i >= 3 {
				sig = "location-dependent-output"
			}
			return ev.Failf(sig+":"+strings.SplitN(c.Target, ":", 2)[0], "-gen %s: %q and %q produced different output: %s\n%s", c.Target, runs[0].name, runs[i].name, d, allTexts(texts))
		}
	}
	return nil
}

var c19Cfg = func() *Cfg { c := DefaultCfg(); c.MaxFiles = 5; c.Scale = 2; c.Dirs = true; c.Twins = true; return c }()

var c19Prop = ev.Prop("c19.determinism", genC19(c19Cfg), checkC19, classifyC19, func(c c19Case) interface{} {
	return map[string]interface{}{"target": c.Target, "delim": c.Delim, "cli": c.CLI, "files": func() []string {
		var n []string
		for _, f := range c.P.Files {
			n = append(n, f.Path())
		}
		return n
	}()}
})

func TestC19Determinism(t *testing.T) { rapid.Check(t, c19Prop) }
