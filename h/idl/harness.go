package idl

import (
	"fmt"
	"os"
	"path/filepath"
	"runtime"
	"sync/atomic"
	"time"
)

var tmpSeq uint64

// scratchDir creates a fresh scratch directory (under $VERIF_TMP if set).
func scratchDir(tag string) (string, func()) {
	base := os.Getenv("VERIF_TMP")
	if base == "" {
		base = os.TempDir()
	}
	d := filepath.Join(base, fmt.Sprintf("idl-%s-%d-%d", tag, os.Getpid(), atomic.AddUint64(&tmpSeq, 1)))
	os.MkdirAll(d, 0o755)
	if os.Getenv("VERIF_KEEP_SCRATCH") != "" {
		return d, func() {}
	}
	return d, func() { os.RemoveAll(d) }
}

// writeProgram renders and writes all files under dir/src; returns the root file path.
func writeProgram(p *Program, lex []byte, dir string) (root string, texts map[string]string, used map[string]int, err error) {
	texts, used = Render(p, lex)
	for rel, txt := range texts {
		full := filepath.Join(dir, rel)
		if err = os.MkdirAll(filepath.Dir(full), 0o755); err != nil {
			return
		}
		if err = os.WriteFile(full, []byte(txt), 0o644); err != nil {
			return
		}
	}
	root = filepath.Join(dir, p.Root().Path())
	return
}

func within(d time.Duration, f func()) (returned bool, panicked string) {
	done := make(chan string, 1)
	go func() {
		defer func() {
			if r := recover(); r != nil {
				buf := make([]byte, 6000)
				n := runtime.Stack(buf, false)
				done <- fmt.Sprintf("panic: %v\n%s", r, buf[:n])
				return
			}
			done <- ""
		}()
		f()
	}()
	select {
	case p := <-done:
		return true, p
	case <-time.After(d):
		return false, ""
	}
}
