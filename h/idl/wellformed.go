package idl

import (
	"encoding/json"
	"go/parser"
	"go/token"
	"os"
	"strings"

	"verif/ev"
)

// wellFormed applies the per-target well-formedness oracle to emitted files.
func wellFormed(target, outDir string, files []string, c c11Case) *ev.Failure {
	lang := strings.SplitN(target, ":", 2)[0]
	switch lang {
	case "go":
		fset := token.NewFileSet()
		for _, f := range files {
			if !strings.HasSuffix(f, ".go") {
				continue
			}
			if _, err := parser.ParseFile(fset, f, nil, parser.AllErrors); err != nil {
				src, _ := os.ReadFile(f)
				return ev.Failf("go-syntax", "-gen %s emitted Go that does not parse: %v\n--- %s\n%s", target, err, f, clip(string(src), 3000))
			}
		}
		// type-check against the runtime (needs the included packages, i.e. -r or no includes)
		if c.Recurse || len(c.P.Root().Includes) == 0 {
			prefix := ""
			if i := strings.Index(target, "package_prefix="); i >= 0 {
				prefix = strings.SplitN(target[i+len("package_prefix="):], ",", 2)[0]
				if !strings.HasSuffix(prefix, "/") {
					prefix += "/"
				}
			}
			problem, err := typeCheckGo(outDir, prefix)
			if err != nil {
				return ev.Failf("harness:gotypes", "%v", err)
			}
			if problem != "" {
				return ev.Failf("go-typecheck:"+squash(firstTypeErr(problem)), "-gen %s emitted Go that does not type-check against the runtime: %s", target, problem)
			}
		}
	case "json":
		for _, f := range files {
			b, _ := os.ReadFile(f)
			var v interface{}
			if err := json.Unmarshal(b, &v); err != nil {
				return ev.Failf("json-syntax", "-gen %s emitted invalid JSON: %v\n%s", target, err, clip(string(b), 2000))
			}
		}
	}
	return nil
}

func clip(s string, n int) string {
	if len(s) > n {
		return s[:n] + "\n…"
	}
	return s
}

func firstTypeErr(p string) string {
	lines := strings.Split(p, "\n")
	if len(lines) > 1 {
		l := strings.TrimSpace(lines[1])
		// drop the file position
		if i := strings.Index(l, ".go:"); i >= 0 {
			if j := strings.Index(l[i:], ": "); j >= 0 {
				l = l[i+j+2:]
			}
		}
		return l
	}
	return p
}
