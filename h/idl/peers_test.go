package idl

import (
	"bufio"
	"encoding/json"
	"fmt"
	"os"
	"os/exec"
	"path/filepath"
	"strconv"
	"strings"
	"sync"
)

const (
	py3Path = "/root/.pyenv/versions/3.11.7/bin/python3"
	py2Path = "/root/.pyenv/versions/2.7.18/bin/python"
)

type linePeer struct {
	mu  sync.Mutex
	cmd *exec.Cmd
	in  *bufio.Writer
	out *bufio.Reader
}

func startLinePeer(name string, args ...string) (*linePeer, error) {
	cmd := exec.Command(name, args...)
	stdin, err := cmd.StdinPipe()
	if err != nil {
		return nil, err
	}
	stdout, err := cmd.StdoutPipe()
	if err != nil {
		return nil, err
	}
	cmd.Stderr = os.Stderr
	if err := cmd.Start(); err != nil {
		return nil, err
	}
	return &linePeer{cmd: cmd, in: bufio.NewWriter(stdin), out: bufio.NewReaderSize(stdout, 1<<20)}, nil
}

func (p *linePeer) ask(line string) (string, error) {
	p.mu.Lock()
	defer p.mu.Unlock()
	if _, err := p.in.WriteString(line + "\n"); err != nil {
		return "", err
	}
	if err := p.in.Flush(); err != nil {
		return "", err
	}
	resp, err := p.out.ReadString('\n')
	if err != nil {
		return "", fmt.Errorf("peer died: %v", err)
	}
	return strings.TrimRight(resp, "\n"), nil
}

var (
	peersMu  sync.Mutex
	javaPeer *linePeer
	py3Peer  *linePeer
	py2Peer  *linePeer
)

type wfResult struct {
	Files  int    `json:"files"`
	Errors int    `json:"errors"`
	First  string `json:"first"`
}

func javaParse(dir string) (wfResult, error) {
	peersMu.Lock()
	if javaPeer == nil {
		classDir := filepath.Join(verifDir(), "build", "java")
		if _, err := os.Stat(filepath.Join(classDir, "ParseServer.class")); err != nil {
			os.MkdirAll(classDir, 0o755)
			if out, err := exec.Command("javac", "-d", classDir, filepath.Join(verifDir(), "java", "ParseServer.java")).CombinedOutput(); err != nil {
				peersMu.Unlock()
				return wfResult{}, fmt.Errorf("javac ParseServer: %v %s", err, out)
			}
		}
		p, err := startLinePeer("java", "-Xss8m", "-cp", classDir, "ParseServer")
		if err != nil {
			peersMu.Unlock()
			return wfResult{}, err
		}
		javaPeer = p
	}
	p := javaPeer
	peersMu.Unlock()
	resp, err := p.ask(dir)
	if err != nil {
		return wfResult{}, err
	}
	parts := strings.SplitN(resp, "|", 3)
	if len(parts) != 3 {
		return wfResult{}, fmt.Errorf("bad java peer answer %q", resp)
	}
	n, _ := strconv.Atoi(parts[0])
	e, _ := strconv.Atoi(parts[1])
	return wfResult{n, e, parts[2]}, nil
}

func pyCheck(py2 bool, kind, dir string) (wfResult, error) {
	peersMu.Lock()
	pp := &py3Peer
	interp := py3Path
	if py2 {
		pp = &py2Peer
		interp = py2Path
	}
	if *pp == nil {
		p, err := startLinePeer(interp, filepath.Join(verifDir(), "py", "wf_check.py"))
		if err != nil {
			peersMu.Unlock()
			return wfResult{}, err
		}
		*pp = p
	}
	p := *pp
	peersMu.Unlock()
	req, _ := json.Marshal(map[string]string{"kind": kind, "dir": dir})
	resp, err := p.ask(string(req))
	if err != nil {
		return wfResult{}, err
	}
	var r wfResult
	if err := json.Unmarshal([]byte(resp), &r); err != nil {
		return wfResult{}, fmt.Errorf("bad python peer answer %q", resp)
	}
	return r, nil
}

func stopPeers() {
	peersMu.Lock()
	defer peersMu.Unlock()
	for _, p := range []*linePeer{javaPeer, py3Peer, py2Peer} {
		if p != nil {
			p.cmd.Process.Kill()
			p.cmd.Wait()
		}
	}
	javaPeer, py3Peer, py2Peer = nil, nil, nil
}

// dartBalance is a lexical well-formedness check for Dart: comments (nested
// block comments), string literals (single, double, triple, raw, with ${}
// interpolation) and bracket balance.
func dartBalance(src string) string {
	var stack []byte
	i := 0
	n := len(src)
	line := 1
	var scanCode func(untilInterpolationEnd bool) string
	scanString := func(quote string, raw bool) string {
		for i < n {
			if strings.HasPrefix(src[i:], quote) {
				i += len(quote)
				return ""
			}
			c := src[i]
			if c == '\n' {
				if len(quote) == 1 {
					return fmt.Sprintf("line %d: newline in single-line string", line)
				}
				line++
			}
			if !raw && c == '\\' {
				i += 2
				continue
			}
			if !raw && c == '$' && i+1 < n && src[i+1] == '{' {
				i += 2
				if p := scanCode(true); p != "" {
					return p
				}
				continue
			}
			i++
		}
		return fmt.Sprintf("line %d: unterminated string", line)
	}
	scanCode = func(interp bool) string {
		depth := len(stack)
		for i < n {
			c := src[i]
			switch {
			case c == '\n':
				line++
				i++
			case strings.HasPrefix(src[i:], "//"):
				for i < n && src[i] != '\n' {
					i++
				}
			case strings.HasPrefix(src[i:], "/*"):
				d := 0
				for i < n {
					if strings.HasPrefix(src[i:], "/*") {
						d++
						i += 2
					} else if strings.HasPrefix(src[i:], "*/") {
						d--
						i += 2
						if d == 0 {
							break
						}
					} else {
						if src[i] == '\n' {
							line++
						}
						i++
					}
				}
				if d != 0 {
					return fmt.Sprintf("line %d: unterminated block comment", line)
				}
			case c == '\'' || c == '"':
				raw := i > 0 && src[i-1] == 'r' && (i < 2 || !isIdentChar(src[i-2]))
				q := string(c)
				if strings.HasPrefix(src[i:], q+q+q) {
					q = q + q + q
				}
				i += len(q)
				if p := scanString(q, raw); p != "" {
					return p
				}
			case c == '(' || c == '[' || c == '{':
				stack = append(stack, c)
				i++
			case c == ')' || c == ']' || c == '}':
				if interp && c == '}' && len(stack) == depth {
					i++
					return ""
				}
				if len(stack) == 0 {
					return fmt.Sprintf("line %d: unmatched %q", line, c)
				}
				open := stack[len(stack)-1]
				if (c == ')' && open != '(') || (c == ']' && open != '[') || (c == '}' && open != '{') {
					return fmt.Sprintf("line %d: %q closes %q", line, c, open)
				}
				stack = stack[:len(stack)-1]
				i++
			default:
				i++
			}
		}
		if interp {
			return fmt.Sprintf("line %d: unterminated ${ interpolation", line)
		}
		return ""
	}
	if p := scanCode(false); p != "" {
		return p
	}
	if len(stack) != 0 {
		return fmt.Sprintf("%d unclosed brackets at end of file (innermost %q)", len(stack), stack[len(stack)-1])
	}
	return ""
}

func isIdentChar(c byte) bool {
	return c == '_' || c >= '0' && c <= '9' || c >= 'a' && c <= 'z' || c >= 'A' && c <= 'Z'
}
