package idl

// c10.jsonview: the JSON target dumps the parsed model; annotations written on ONE type reference
// must show up exactly there. Three marker structs are appended to the root file, each with one
// annotated base-type reference; every marker must occur exactly once in frugal.json however many
// other references to the same base type the program has.

import (
	"fmt"
	"os"
	"path/filepath"
	"strings"
	"testing"

	"pgregory.net/rapid"
	"verif/ev"
)

var jsonViewMarkers = []struct{ typ, name string }{{"i32", "zz.note.int"}, {"string", "zz.note.str"}, {"i64", "zz.note.long"}}

func checkC10JSONView(c progCase) *ev.Failure {
	dir, cleanup := scratchDir("c10j")
	defer cleanup()
	root, texts, _, err := writeProgram(c.P, c.Lex, filepath.Join(dir, "src"))
	if err != nil {
		return ev.Failf("harness:write", "%v", err)
	}
	extra := "\n"
	for i, m := range jsonViewMarkers {
		extra += fmt.Sprintf("struct ZzAnnotated%d { 1: %s (%s = \"marked\") marked, 2: %s plain, 3: list<%s> more }\n", i, m.typ, m.name, m.typ, m.typ)
	}
	f, err := os.OpenFile(root, os.O_APPEND|os.O_WRONLY, 0o644)
	if err != nil {
		return ev.Failf("harness:write", "%v", err)
	}
	f.WriteString(extra)
	f.Close()
	out := filepath.Join(dir, "out")
	cerr, p := compileInProcess(root, "json", out, ".", true)
	if p != "" || cerr != nil {
		return nil // C11's business
	}
	for _, jf := range listFiles(out) {
		if !strings.HasSuffix(jf, ".json") {
			continue
		}
		b, _ := os.ReadFile(jf)
		for _, m := range jsonViewMarkers {
			if n := strings.Count(string(b), "\""+m.name+"\""); n != 1 {
				return ev.Failf("json-view-annotation-count", "annotation %s was written on one %s reference of the root file; %s mentions it %d times\n%s%s", m.name, m.typ, filepath.Base(jf), n, allTexts(texts), extra)
			}
		}
	}
	return nil
}

var c10JSONProp = ev.Prop("c10.jsonview", genProgCase(c10Cfg), checkC10JSONView, classifyC10, sampleProg)

func TestC10JSONView(t *testing.T) { rapid.Check(t, c10JSONProp) }
