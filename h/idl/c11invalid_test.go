package idl

// C11, invalid side: for input that is not valid IDL the CLI must terminate
// promptly with a non-zero status and a message — no Go runtime trace, no
// stack overflow, no hang.

import (
	"bytes"
	"context"
	"fmt"
	"os"
	"os/exec"
	"path/filepath"
	"strings"
	"sync"
	"testing"
	"time"

	"pgregory.net/rapid"
	"verif/ev"
)

var (
	cliOnce sync.Once
	cliPath string
	cliErr  error
)

// frugalCLI builds the compiler binary from /repo's working tree (through the
// harness module, so /repo's go.sum is never touched).
func frugalCLI() (string, error) {
	cliOnce.Do(func() {
		base := os.Getenv("VERIF_TMP")
		if base == "" {
			base = os.TempDir()
		}
		cliPath = filepath.Join(base, fmt.Sprintf("frugal-cli-%d", os.Getpid()))
		cmd := exec.Command("go", "build", "-o", cliPath, "github.com/Workiva/frugal")
		cmd.Dir = filepath.Join(verifDir(), "h", "idl")
		cmd.Env = append(os.Environ(), "GOFLAGS=-mod=mod", "GOPROXY=off", "GOSUMDB=off", "GOTOOLCHAIN=local")
		if out, err := cmd.CombinedOutput(); err != nil {
			cliErr = fmt.Errorf("building the CLI failed: %v\n%s", err, out)
		}
	})
	return cliPath, cliErr
}

type cliResult struct {
	exit     int
	out      string
	timedOut bool
	dur      time.Duration
}

func runCLI(dir string, args ...string) cliResult {
	return runCLIEnv(dir, []string{"HOME=" + dir}, args...)
}

func runCLIEnv(dir string, env []string, args ...string) cliResult {
	bin, err := frugalCLI()
	if err != nil {
		return cliResult{exit: -2, out: err.Error()}
	}
	ctx, cancel := context.WithTimeout(context.Background(), 20*time.Second)
	defer cancel()
	cmd := exec.CommandContext(ctx, bin, args...)
	cmd.Dir = dir
	cmd.Env = append(os.Environ(), env...)
	var buf bytes.Buffer
	cmd.Stdout, cmd.Stderr = &buf, &buf
	t0 := time.Now()
	err = cmd.Run()
	r := cliResult{out: buf.String(), dur: time.Since(t0)}
	if ctx.Err() != nil {
		r.timedOut = true
	}
	if ee, ok := err.(*exec.ExitError); ok {
		r.exit = ee.ExitCode()
	} else if err != nil {
		r.exit = -1
	}
	return r
}

type c11InvCase struct {
	P        *Program `json:"program"`
	Lex      []byte   `json:"lex"`
	Kind     string   `json:"kind"`
	Append   string   `json:"append,omitempty"`   // text appended to the root file (semantic violations)
	Mutation []int    `json:"mutation,omitempty"` // parameters of a token-level mutation
	Gen      string   `json:"gen"`
	MustFail bool     `json:"must_fail"`
}

var semanticViolations = map[string]string{
	"unknown-type":                    "\nstruct ZzBad { 1: NoSuchType f }\n",
	"unknown-include-type":            "\nstruct ZzBad { 1: nosuchinclude.Thing f }\n",
	"duplicate-field-id":              "\nstruct ZzBad { 1: i32 a, 1: i32 b }\n",
	"unknown-type-in-exception":       "\nexception ZzBad { 1: string why, 2: list<NoSuchType> details }\n",
	"unknown-type-in-union":           "\nunion ZzBad { 1: string a, 2: NoSuchType b }\n",
	"duplicate-field-id-in-exception": "\nexception ZzBad { 1: i32 a, 1: i32 b }\n",
	"duplicate-field-id-in-union":     "\nunion ZzBad { 1: i32 a, 1: i32 b }\n",
	"unknown-type-in-container":       "\nstruct ZzBad { 1: map<string, list<NoSuchType>> m }\n",
	"unknown-type-in-typedef":         "\ntypedef list<NoSuchType> ZzBadList\n",
	"unknown-const-type":              "\nconst NoSuchType ZZ_BAD = 1\n",
	"unknown-arg-type":                "\nservice ZzSvc { void f(1: NoSuchType a) }\n",
	"unknown-extends":                 "\nservice ZzSvc extends NoSuchService { void f() }\n",
	"duplicate-arg-id":                "\nservice ZzSvc { void f(1: i32 a, 1: i32 b) }\n",
	"cyclic-typedef":                  "\ntypedef ZzA ZzB\ntypedef ZzB ZzA\n",
	"self-typedef":                    "\ntypedef ZzSelf ZzSelf\n",
	"cyclic-typedef-3":                "\ntypedef ZzC ZzA\ntypedef ZzA ZzB\ntypedef ZzB ZzC\nstruct ZzUse { 1: ZzA f }\n",
	"oneway-returns":                  "\nservice ZzSvc { oneway i32 f() }\n",
	"oneway-throws":                   "\nexception ZzE {}\nservice ZzSvc { oneway void f() throws (1: ZzE e) }\n",
	"duplicate-service":               "\nservice ZzSvc {}\nservice ZzSvc {}\n",
	"conflicting-service":             "\nservice zzSvc {}\nservice ZzSvc {}\n",
	"duplicate-method":                "\nservice ZzSvc { void f(), void f() }\n",
	"duplicate-scope":                 "\nscope ZzScope { A: i32 }\nscope ZzScope { A: i32 }\n",
	"duplicate-operation":             "\nscope ZzScope { A: i32, a: i32 }\n",
	"missing-include":                 "\ninclude \"no_such_file.frugal\"\n",
	"bad-include-extension":           "\ninclude \"other.txt\"\n",
	"vendor-on-wildcard-ns":           "\nnamespace * zz.vendored (vendor=\"x\")\n",
	"unknown-const-ref":               "\nconst i32 ZZ_BAD = NO_SUCH_CONST\n",
	"unknown-default-ref":             "\nstruct ZzBad { 1: i32 a = NO_SUCH_CONST }\n",
	"unknown-default-ref-in-list":     "\nstruct ZzBad { 1: list<i32> a = [1, NO_SUCH_CONST] }\n",
	"unknown-enum-value-default":      "\nenum ZzE { A, B }\nstruct ZzBad { 1: ZzE e = ZzE.NOPE }\n",
	"unknown-include-in-default":      "\nstruct ZzBad { 1: i32 a = nosuchinclude.LIMIT }\n",
	"unknown-arg-default-ref":         "\nservice ZzSvc { void f(1: i32 a = NO_SUCH_CONST) }\n",
	"unknown-const-ref-in-map":        "\nconst map<string, i32> ZZ_BAD = {\"a\": NO_SUCH_CONST}\n",
	"bad-prefix-variable":             "\nscope ZzScope prefix foo.{} { A: i32 }\n",
	"unterminated-struct":             "\nstruct ZzBad { 1: i32 a\n",
	"unterminated-service":            "\nservice ZzSvc { void f()\n",
	"unterminated-comment":            "\n/* never closed\nstruct ZzBad {}\n",
	"unterminated-string":             "\nconst string ZZ = \"never closed\n",
	"garbage-statement":               "\n<<<<<<< HEAD\n",
	"field-without-id":                "\nstruct ZzBad { i32 a }\n",
	"invalid-exception-type":          "\nservice ZzSvc { void f() throws (1: NoSuchExc e) }\n",
	"invalid-return-type":             "\nservice ZzSvc { NoSuch f() }\n",
	"invalid-op-type":                 "\nscope ZzScope { A: NoSuch }\n",
}

var cliTargets = []string{"go", "java", "dart", "py", "py:asyncio", "py:tornado", "json", "html"}

func genC11Inv(c *Cfg) func(t *rapid.T) c11InvCase {
	g := genProgCase(c)
	var kinds []string
	for k := range semanticViolations {
		kinds = append(kinds, k)
	}
	kinds = uniq(kinds)
	return func(t *rapid.T) c11InvCase {
		pc := g(t)
		out := c11InvCase{P: pc.P, Lex: pc.Lex}
		out.Gen = rapid.SampledFrom(cliTargets).Draw(t, "gen")
		switch rapid.IntRange(0, 10).Draw(t, "class") {
		case 10:
			// a generated typedef cycle: 1..4 typedefs, each reaching the next one directly or
			// through some position of a container type, optionally used by a declaration
			n := rapid.IntRange(1, 4).Draw(t, "cyclen")
			wrappers := []string{"%s", "%s", "list<%s>", "set<%s>", "map<string,%s>", "map<%s,string>", "map<i32,list<%s>>", "list<map<%s,i64>>", "map<%s,%s>"}
			var sb strings.Builder
			sb.WriteString("\n")
			names := make([]string, n)
			for i := range names {
				names[i] = fmt.Sprintf("ZzCyc%d", i)
			}
			order := rapid.Permutation(names).Draw(t, "cycorder")
			for _, nm := range order {
				i := int(nm[len(nm)-1] - '0')
				w := rapid.SampledFrom(wrappers).Draw(t, "cycwrap")
				out.Kind = "typedef-cycle"
				next := names[(i+1)%n]
				ty := strings.ReplaceAll(w, "%s", next)
				sb.WriteString(fmt.Sprintf("typedef %s %s\n", ty, nm))
			}
			switch rapid.IntRange(0, 3).Draw(t, "cycuse") {
			case 0:
				sb.WriteString("struct ZzCycUse { 1: ZzCyc0 f }\n")
			case 1:
				sb.WriteString("service ZzCycSvc { ZzCyc0 f(1: list<ZzCyc0> a) }\n")
			case 2:
				sb.WriteString("scope ZzCycScope { Op: ZzCyc0 }\n")
			}
			out.Append = sb.String()
			out.MustFail = true
		case 0, 1, 2, 3:
			out.Kind = rapid.SampledFrom(kinds).Draw(t, "semantic")
			out.Append = semanticViolations[out.Kind]
			out.MustFail = true
		case 4:
			out.Kind = "bad-gen"
			out.Gen = rapid.SampledFrom([]string{"cobol", "go:nosuchoption", "java:", ":", "go:slim=", "py:asyncio,bogus", ""}).Draw(t, "badgen")
			out.MustFail = out.Gen != "java:" && out.Gen != "go:slim="
		case 9:
			// a constant / default value whose shape does not fit its type
			out.Kind = "value-shape-mismatch"
			shapes := map[string][]string{ // type -> values that cannot be given to it
				"string":          {"true", "1", "1.5", "[1]", "[\"a\"]", "{\"a\": 1}", "[]", "{}"},
				"binary":          {"1", "[1]", "{}"},
				"list<i32>":       {"true", "1", "1.5", "\"s\"", "{\"a\": 1}", "{}", "ZzShapeE.B", "[\"a\"]", "[[1]]"},
				"set<string>":     {"1", "\"s\"", "[1]", "{\"a\": 1}", "{}", "ZzShapeE.B"},
				"map<string,i32>": {"true", "1", "\"s\"", "[1]", "[]", "ZzShapeE.B", "{1: 1}", "{\"a\": \"b\"}"},
				"ZzShapeP":        {"true", "1", "1.5", "\"s\"", "[1]", "[]", "ZzShapeE.B", "{\"s\": 1}", "{\"l\": [\"x\"]}"},
				"ZzShapeU":        {"1", "\"s\"", "[1]"},
				"ZzShapeX":        {"1", "\"s\"", "[]"},
				"ZzShapeE":        {"true", "1.5", "\"s\"", "[1]", "{\"a\": 1}", "[]", "{}"},
				"ZzShapeT":        {"1", "{}", "[[\"a\"]]"},
				"list<ZzShapeP>":  {"[1]", "[{\"s\": 2}]", "{}"},
			}
			var types []string
			for k := range shapes {
				types = append(types, k)
			}
			types = uniq(types)
			ty := rapid.SampledFrom(types).Draw(t, "shape-type")
			val := rapid.SampledFrom(shapes[ty]).Draw(t, "shape-value")
			decls := "\nenum ZzShapeE { A, B }\nstruct ZzShapeP { 1: i32 x, 2: string s, 3: list<i32> l }\nunion ZzShapeU { 1: i32 x, 2: string s }\nexception ZzShapeX { 1: string why }\ntypedef list<list<i32>> ZzShapeT\n"
			switch rapid.IntRange(0, 3).Draw(t, "shape-pos") {
			case 0:
				out.Append = decls + fmt.Sprintf("const %s ZZ_SHAPE = %s\n", ty, val)
			case 1:
				out.Append = decls + fmt.Sprintf("struct ZzShapeH { 1: i32 ok = 1, 2: optional %s f = %s }\n", ty, val)
			case 2:
				out.Append = decls + fmt.Sprintf("service ZzShapeSvc { void f(1: %s a = %s) }\n", ty, val)
			default:
				out.Append = decls + fmt.Sprintf("const map<string, list<%s>> ZZ_SHAPE = {\"k\": [%s]}\n", ty, val)
			}
			out.MustFail = true
		case 5:
			out.Kind = "self-include"
			out.Append = fmt.Sprintf("\ninclude \"%s.frugal\"\n", pc.P.Root().Name)
			out.MustFail = true
		default:
			out.Kind = "mutation:" + rapid.SampledFrom([]string{"delete", "duplicate", "swap", "splice", "truncate", "insert-byte", "brace", "empty", "random"}).Draw(t, "mut")
			out.Mutation = []int{rapid.IntRange(0, 1<<20).Draw(t, "m0"), rapid.IntRange(0, 1<<20).Draw(t, "m1"), rapid.IntRange(0, 255).Draw(t, "m2")}
		}
		return out
	}
}

// tokens splits text into lexical chunks (words, punctuation, whitespace runs).
func tokens(s string) []string {
	var out []string
	i := 0
	for i < len(s) {
		j := i
		switch c := s[i]; {
		case isIdentChar(c):
			for j < len(s) && isIdentChar(s[j]) {
				j++
			}
		case c == ' ' || c == '\t' || c == '\n' || c == '\r':
			for j < len(s) && (s[j] == ' ' || s[j] == '\t' || s[j] == '\n' || s[j] == '\r') {
				j++
			}
		default:
			j++
		}
		out = append(out, s[i:j])
		i = j
	}
	return out
}

func mutate(text string, kind string, m []int) string {
	tk := tokens(text)
	if len(tk) == 0 {
		tk = []string{""}
	}
	a, b := m[0]%len(tk), m[1]%len(tk)
	switch kind {
	case "delete":
		return strings.Join(append(append([]string{}, tk[:a]...), tk[a+1:]...), "")
	case "duplicate":
		return strings.Join(append(append(append([]string{}, tk[:a+1]...), tk[a]), tk[a+1:]...), "")
	case "swap":
		t2 := append([]string{}, tk...)
		t2[a], t2[b] = t2[b], t2[a]
		return strings.Join(t2, "")
	case "splice":
		if a > b {
			a, b = b, a
		}
		return strings.Join(append(append([]string{}, tk[:a]...), tk[b:]...), "")
	case "truncate":
		return text[:m[0]%(len(text)+1)]
	case "insert-byte":
		p := m[0] % (len(text) + 1)
		return text[:p] + string([]byte{byte(m[2])}) + text[p:]
	case "brace":
		p := m[0] % (len(text) + 1)
		return text[:p] + []string{"{", "}", "(", ")", "<", ">", "\"", "'", "/*", "*/"}[m[2]%10] + text[p:]
	case "empty":
		return ""
	case "random":
		var bb []byte
		x := uint32(m[0]*7919 + m[1])
		for i := 0; i < m[2]; i++ {
			x = x*1664525 + 1013904223
			bb = append(bb, byte(x>>24))
		}
		return string(bb)
	}
	return text
}

func classifyC11Inv(c c11InvCase) ev.Class {
	labels := []string{"kind=" + c.Kind, "gen=" + c.Gen}
	if c.MustFail {
		labels = append(labels, "must-fail")
	}
	return ev.Class{NonTrivial: true, Key: fmt.Sprintf("%s|%s|%v|%x|%s", c.Kind, c.Gen, c.Mutation, c.Lex, allTexts(func() map[string]string { m, _ := Render(c.P, c.Lex); return m }())), Labels: labels}
}

func hasGoTrace(out string) string {
	for _, marker := range []string{"goroutine ", "fatal error:", "panic:", "runtime error", "stack overflow", "[signal ", "interface conversion:"} {
		if strings.Contains(out, marker) {
			return marker
		}
	}
	return ""
}

func checkC11Inv(c c11InvCase) *ev.Failure {
	dir, cleanup := scratchDir("c11inv")
	defer cleanup()
	src := filepath.Join(dir, "src")
	root, texts, _, err := writeProgram(c.P, c.Lex, src)
	if err != nil {
		return ev.Failf("harness:write", "%v", err)
	}
	rootRel := c.P.Root().Path()
	txt := texts[rootRel]
	switch {
	case c.Append != "":
		if c.Kind == "missing-include" || c.Kind == "bad-include-extension" || c.Kind == "self-include" || c.Kind == "vendor-on-wildcard-ns" {
			txt = c.Append + txt // headers go first
		} else {
			txt = txt + c.Append
		}
	case strings.HasPrefix(c.Kind, "mutation:"):
		txt = mutate(txt, strings.TrimPrefix(c.Kind, "mutation:"), c.Mutation)
	}
	if err := os.WriteFile(root, []byte(txt), 0o644); err != nil {
		return ev.Failf("harness:write", "%v", err)
	}
	args := []string{"-gen", c.Gen, "-out", filepath.Join(dir, "out"), "-r", root}
	if c.Gen == "" {
		args = []string{"-out", filepath.Join(dir, "out"), root}
	}
	r := runCLI(dir, args...)
	what := fmt.Sprintf("frugal %s  [%s]", strings.Join(args[:len(args)-1], " "), c.Kind)
	if r.exit == -2 {
		return ev.Failf("harness:cli", "%s", r.out)
	}
	if r.timedOut {
		return ev.Failf("cli-hang:"+kindClass(c.Kind), "%s did not terminate within 20s\n--- input\n%s", what, clip(txt, 3000))
	}
	if m := hasGoTrace(r.out); m != "" {
		return ev.Failf("cli-crash:"+kindClass(c.Kind)+":"+squash(firstLines(r.out, 1)), "%s died with a Go runtime trace (%q), exit %d:\n%s\n--- input\n%s", what, m, r.exit, clip(r.out, 1500), clip(txt, 3000))
	}
	if r.exit != 0 && strings.TrimSpace(r.out) == "" {
		return ev.Failf("cli-silent-failure", "%s exited %d without any message\n--- input\n%s", what, r.exit, clip(txt, 3000))
	}
	if c.MustFail && r.exit == 0 {
		return ev.Failf("invalid-accepted:"+c.Kind, "%s exited 0 on input that is not valid IDL\n--- appended\n%s", what, c.Append)
	}
	if r.dur > 10*time.Second {
		return ev.Failf("cli-slow", "%s took %v", what, r.dur)
	}
	return nil
}

func kindClass(k string) string {
	if strings.HasPrefix(k, "mutation:") {
		return "mutation"
	}
	return k
}

var c11InvCfg = func() *Cfg { c := DefaultCfg(); c.MaxFiles = 2; return c }()

var c11InvProp = ev.Prop("c11.invalid", genC11Inv(c11InvCfg), checkC11Inv, classifyC11Inv, func(c c11InvCase) interface{} {
	return map[string]interface{}{"kind": c.Kind, "gen": c.Gen, "append": c.Append, "mutation": c.Mutation, "must_fail": c.MustFail}
})

func TestC11Invalid(t *testing.T) { rapid.Check(t, c11InvProp) }
