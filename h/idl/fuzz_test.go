package idl

// Native (coverage-guided) fuzz target for the "every other input text" half of C11, thorough
// tier only: engine-chosen text is compiled in-process for a chosen target; whatever the text
// is, the compiler must return (error or success) without a runtime panic and promptly, and if
// it reports success for -gen go / -gen json the emitted files must at least parse.

import (
	"encoding/json"
	"go/parser"
	"go/token"
	"os"
	"path/filepath"
	"strings"
	"testing"

	"verif/ev"
)

type fuzzTextCase struct {
	Text   string `json:"text"`
	Target string `json:"target"`
}

var fuzzTargets = []string{"go", "java", "dart", "py", "py:asyncio", "py:tornado", "json", "html", "go:slim", "java:generated_annotations=undated"}

const fuzzBaseIDL = "namespace * base\nenum Color { RED, GREEN = 5, BLUE }\nstruct Thing { 1: i32 id, 2: optional string name }\ntypedef i64 id\nexception Oops { 1: string why }\nconst i32 LIMIT = 10\nservice Base { void ping() }\n"

func checkFuzzText(c fuzzTextCase) *ev.Failure {
	dir, cleanup := scratchDir("fzt")
	defer cleanup()
	src := filepath.Join(dir, "src")
	os.MkdirAll(src, 0o755)
	os.WriteFile(filepath.Join(src, "base.frugal"), []byte(fuzzBaseIDL), 0o644)
	root := filepath.Join(src, "main.frugal")
	os.WriteFile(root, []byte(c.Text), 0o644)
	out := filepath.Join(dir, "out")
	cerr, p := compileInProcess(root, c.Target, out, ".", true)
	lang := strings.SplitN(c.Target, ":", 2)[0]
	if p != "" {
		if strings.HasPrefix(p, "hang:") {
			return ev.Failf("compile-hang:"+lang, "-gen %s did not terminate on:\n%s", c.Target, c.Text)
		}
		if !isRuntimePanic(p) {
			// an explicit panic(message) of a generator: main.go recovers it and prints the message as
			// the diagnostic, exit status 1
			return nil
		}
		return ev.Failf("compile-panic:"+lang+":"+panicSig(p), "-gen %s died with a runtime panic: %s\non:\n%s", c.Target, firstLines(p, 12), c.Text)
	}
	if cerr != nil {
		if strings.TrimSpace(cerr.Error()) == "" {
			return ev.Failf("empty-diagnostic:"+lang, "-gen %s failed without a message on:\n%s", c.Target, c.Text)
		}
		return nil
	}
	for _, f := range listFiles(out) {
		switch {
		case lang == "go" && strings.HasSuffix(f, ".go"):
			if _, err := parser.ParseFile(token.NewFileSet(), f, nil, parser.SkipObjectResolution); err != nil {
				return ev.Failf("go-parse", "-gen %s reported success but %s does not parse: %v\non:\n%s", c.Target, filepath.Base(f), err, c.Text)
			}
		case lang == "json" && strings.HasSuffix(f, ".json"):
			b, _ := os.ReadFile(f)
			if !json.Valid(b) {
				return ev.Failf("json-parse", "-gen json reported success but %s is not JSON\non:\n%s", filepath.Base(f), c.Text)
			}
		}
	}
	return nil
}

// isRuntimePanic tells a Go runtime error (nil dereference, index out of range, failed type
// assertion, stack exhaustion ...) from a generator's explicit panic("message").
func isRuntimePanic(p string) bool {
	first := strings.SplitN(p, "\n", 2)[0]
	for _, m := range []string{"runtime error:", "interface conversion:", "stack overflow", "fatal error:", "reflect:", "assignment to entry in nil map"} {
		if strings.Contains(first, m) {
			return true
		}
	}
	return false
}

func init() {
	ev.Register("c11.fuzztext", func(raw []byte) *ev.Failure {
		var c fuzzTextCase
		if err := json.Unmarshal(raw, &c); err != nil {
			return ev.Failf("harness:bad-replay", "%v", err)
		}
		return checkFuzzText(c)
	})
}

func FuzzC11Text(f *testing.F) {
	n := 0
	filepath.Walk("/repo/test", func(p string, info os.FileInfo, err error) error {
		if err == nil && !info.IsDir() && (strings.HasSuffix(p, ".frugal") || strings.HasSuffix(p, ".thrift")) && info.Size() < 6000 && n < 40 {
			if b, err := os.ReadFile(p); err == nil {
				f.Add(string(b), uint8(n))
				n++
			}
		}
		return nil
	})
	f.Add("include \"base.frugal\"\nnamespace go main\nstruct A { 1: base.Thing t, 2: list<base.Color> cs = [base.Color.RED], 3: map<string, set<i64>> m }\nunion U { 1: i32 a; 2: string b }\nservice S extends base.Base { A get(1: base.id key) throws (1: base.Oops o), oneway void fire(1: U u) }\nscope Events prefix a.{b} { Made: A }\n", uint8(0))
	f.Add("typedef list<i32> L\nconst map<string,L> M = {'a': [1,2], \"b\": []}\nenum E { A = 1, B, C = 0x10 }\nstruct S { 1: required E e = E.B, 2: double d = -1.5e3, 3: binary raw (go.tag = \"x\") } (anno = 'v')\n", uint8(1))
	f.Add("", uint8(2))
	f.Fuzz(func(t *testing.T, text string, tg uint8) {
		if len(text) > 4096 {
			return
		}
		c := fuzzTextCase{Text: text, Target: fuzzTargets[int(tg)%len(fuzzTargets)]}
		if fl := ev.FuzzCase("c11.fuzztext", c, checkFuzzText); fl != nil {
			t.Fatalf("[c11.fuzztext] %s: %s", fl.Sig, fl.Msg)
		}
	})
}
