package idl

import (
	"os"
	"path/filepath"
	"strings"
	"testing"
)

// Self-test of the Dart lexical checker on the repository's golden outputs.
func TestDartBalanceSelfTest(t *testing.T) {
	n := 0
	filepath.Walk("/repo/compiler/testdata/expected", func(p string, info os.FileInfo, err error) error {
		if err == nil && strings.HasSuffix(p, ".dart") {
			b, _ := os.ReadFile(p)
			if prob := dartBalance(string(b)); prob != "" {
				t.Errorf("%s: %s", p, prob)
			}
			n++
		}
		return nil
	})
	if n == 0 {
		t.Skip("no golden dart files")
	}
	if p := dartBalance("void f() { var s = 'a${b['x']}c'; }"); p != "" {
		t.Errorf("interpolation: %s", p)
	}
	if p := dartBalance("void f() { var s = 'a${b'; }"); p == "" {
		t.Errorf("unterminated interpolation accepted")
	}
	if p := dartBalance("void f() { (] }"); p == "" {
		t.Errorf("mismatch accepted")
	}
}
