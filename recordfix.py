#!/usr/bin/env python3
"""recordfix.py <commit> <property> <finding-id> <replay>[,<replay>...] <what>  — append a fixed entry to known_findings.json and checks.py"""
import json,sys,re
c,prop,fid,reps,what=sys.argv[1:6]
p='/verif/known_findings.json'
d=json.load(open(p))
d['lines'].append(f"fixed: property={prop} {c} {what}")
d['findings'].append({"property":prop,"id":fid,"state":"fixed","commit":c,"replay":reps.split(','),"what":what})
json.dump(d,open(p,'w'),indent=1)
s=open('/verif/checks.py').read()
s=re.sub(r'FIX_COMMITS = \[(.*)\]', lambda m: 'FIX_COMMITS = ['+m.group(1)+f', "{c}"]', s)
open('/verif/checks.py','w').write(s)
print("recorded",c)
