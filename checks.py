# Registry of checks: one entry per property. run.py executes it, mkmanifest.py
# renders MANIFEST.json from it.
#
# leg fields: test (go test -run regexp), module (dir under h/), quick/thorough =
# (rapid checks per shard, shards), race (build with -race), timeout_s per shard.

GOENV = {
    "GOFLAGS": "-mod=mod", "GOPROXY": "off", "GOSUMDB": "off", "GOTOOLCHAIN": "local",
}

def leg(test, module="rt", quick=(1000, 1), thorough=(10000, 16), race=False, timeout_s=600, env=None, fixed=False, prefixes=None):
    return dict(prefixes=prefixes or [], test=test, module=module, quick=quick, thorough=thorough, race=race,
                timeout_s=timeout_s, env=env or {}, fixed=fixed)

HOOK_COMMITS = ["dd392ad"]
FIX_COMMITS = ["e449346", "ba22cb7", "3039ef0", "273eefb", "cca5970", "2577b44", "d6810d1", "e1987c3", "b1932c7", "c49aa17", "d9e8025", "42ec2de", "5135650", "011d02a", "09939f4", "4fe35d1", "cb91a35", "8687ea4", "deec4d9", "bd99941", "b8998ee", "e4ab411", "6d4587f", "a4a4c01", "5b894d6", "c7c1fc7", "534bf60", "9872ec0", "02ec8c1", "d2443a0", "29e0a7c", "2122292", "144247a", "e0d0217", "bbf0209", "dbafbe9", "638864b", "a90421e"]

ALL_PROPS = ["C%02d" % i for i in range(1, 21)]

CHECKS = {
    "C04": dict(
        title="FContext headers survive the wire unchanged in the documented v0 layout",
        legs=[
            leg("TestC04Go", quick=(2500, 2), thorough=(50000, 16)),
            leg("TestC04Peer", quick=(500, 1), thorough=(5000, 4)),
            leg("TestC04Concurrent", quick=(300, 2), thorough=(5000, 4)),
        ],
        fuzz=[dict(module="rt", target="FuzzC04Decode", seconds=120)],
        level="exploration",
        technique="property-based testing (rapid): round trip against an independent reference codec written from protocol.md + differential with the Python runtime codec and contrib/frame_parser.py; thorough tier: native go fuzzing (FuzzC04Decode) of the decoders against the reference decoder",
        rule=("Header maps (0..24 entries; names/values empty, ASCII, multi-byte UTF-8, arbitrary bytes, 100-300 bytes, occasionally 70 KB) "
              "+ payload 0..200 bytes drawn by rapid. Non-trivial: >=2 headers, or an empty name/value, or a multi-byte rune, or a non-empty payload. "
              "Distinct: sha256 of (sorted pairs, payload)."),
        level_text=("Exploration: every generated header map is written by the Go runtime and decoded by a reference decoder written from "
                    "documentation/protocol.md (layout, sizes, nothing trailing), reference-encoded bytes are read back by the stream and frame "
                    "readers, and valid-UTF-8 maps are exchanged in both directions with lib/python's codec and parsed by contrib/frame_parser.py. "
                    "Absence of violations is not established beyond the generated cases."),
        level_note="Trusted: the reference codec in h/rt/refhdr.go, CPython 3.11/2.7, rapid. Java and Dart codecs are not executed (no runtimes offline).",
        assumptions=["header maps have unique names (a map)", "Python leg restricted to valid UTF-8 (its API takes str)"],
        design_ref="DESIGN.md §2 C04",
    ),
    "C05": dict(
        title="No received byte sequence can crash or wedge a Frugal process",
        legs=[
            leg("TestC05Sync", quick=(4000, 4), thorough=(150000, 12), timeout_s=1800),
            leg("TestC05E2E", quick=(150, 4), thorough=(4000, 4), timeout_s=1800),
        ],
        fuzz=[dict(module="rt", target="FuzzC05Sync", seconds=240)],
        level="exploration",
        technique="property-based testing (rapid) with structure-aware mutation of valid frames at every receiving entry point; native go fuzzing (coverage-guided, FuzzC05Sync) of the synchronous entry points in the thorough tier",
        rule=("Valid request/response/pub-sub frames (binary, compact, JSON) mutated: any 4-byte size field set to 0, 1, exact+-1, len, len+1, "
              "0x7fffffff, 0x80000000, 0xffffffff...; truncation at any byte; duplicated/dropped ranges; version byte; bit flips; pure random bytes. "
              "Non-trivial: a size-field mutation, or input that passes the first length/version check of its entry point. Distinct: sha256(entry, bytes)."),
        level_text=("Exploration: each receiving entry point (stream header reader, frame header reader, adapter/NATS/HTTP client response path, "
                    "processor behind the stream/NATS/HTTP servers, subscriber callbacks) is driven synchronously with mutated frames; oracle: returns "
                    "within a watchdog without panicking. An end-to-end leg with real goroutines and brokers requires that a well-formed message "
                    "after the bad one is still served."),
        level_note="Trusted: rapid, the in-process NATS/STOMP brokers, the hand-written fixtures mirroring generated code (h/rt/fixtures.go).",
        assumptions=["a stalled stream peer is legitimate waiting, not a hang", "memory exhaustion is observed, not judged"],
        design_ref="DESIGN.md §2 C05",
    ),
    "C01": dict(
        title="Under multiplexing every RPC gets exactly its own response",
        legs=[leg("TestC01Mux", quick=(120, 4), thorough=(2000, 16), timeout_s=3000, prefixes=["c01."])],
        level="exploration",
        technique="model-based property testing (rapid): generated caller/responder scripts interpreted against the real transport with owned schedule points, reference model of op-id states",
        rule=("Scripts of up to 35 steps over one shared client transport (adapter over a scripted byte stream, or the NATS transport against an in-process broker): "
              "start(caller, long|short timeout), deliver(response for an in-flight / completed / timed-out / never-issued / 0 / 2^64-1 op id, x1..2 copies, any order), await, sleep; "
              "in controlled mode also hold/release of the reader before its channel send and of a caller before unregister (verif yield hooks). "
              "Non-trivial: >=2 concurrent requests and at least one of out-of-order delivery, duplicate, late response, never-issued op id. Distinct: sha256 of the script."),
        level_text=("Exploration of caller/reader/timeout interleavings and response arrival sequences against a reference model: a request may complete only with a frame whose "
                    "_opid header and payload nonce are its own; a long-timeout caller whose response was delivered must complete; nobody completes without a delivery; "
                    "foreign deliveries change no outcome; the registry is empty at the end; a final probe request must be answered."),
        level_note="Trusted: the harness' model and scripted transport; goroutine interleavings beyond the two owned yield points are sampled, not enumerated.",
        assumptions=["distinct FContexts per request (the stated domain)", "NATS preserves per-subject order"],
        design_ref="DESIGN.md §2 C01",
    ),
    "C06": dict(
        title="The inbound path never stalls: no head-of-line blocking",
        legs=[leg("TestC06Stall", quick=(120, 4), thorough=(2000, 16), timeout_s=3000, prefixes=["c06."])],
        level="exploration",
        technique="model-based property testing (rapid): adversarial inbound frame prefixes (duplicates x1..5, unsolicited, late) followed by a probe request; outcome-based oracle",
        rule=("Same script language as C01 with 1..5 copies per delivery; after the script a probe request is issued and its response fed last. "
              "Non-trivial: >=2 concurrent requests and a duplicate / late / never-issued delivery. Distinct: sha256 of the script."),
        level_text=("Exploration: whatever was received before, the probe (3 s budget, healthy latency well under 1 ms) must complete with its own frame, every other "
                    "delivered caller must complete, in free-running and in controlled schedules (caller parked between receipt and unregister, reader parked before send)."),
        level_note="Trusted: harness; a stall that needs more than 3 s to resolve would be misjudged (none is legitimate here: everything is in memory).",
        assumptions=["healthy in-process broker"],
        design_ref="DESIGN.md §2 C06",
    ),
    "C15": dict(
        title="Transport failure is detected, reported once and recoverable, repeatedly",
        legs=[leg("TestC15History", quick=(400, 4), thorough=(4000, 15), timeout_s=3000, prefixes=["c15."]),
              leg("TestC15Cut", fixed=True, timeout_s=3000),
              # NATS client transport: Open / Close / IsOpen across broker outages (private broker, restarted on its port)
              leg("TestC15Nats", quick=(25, 4), thorough=(400, 8), timeout_s=3000, prefixes=["c15n."])],
        coverage_extra={"exhaustive_subspaces": "c15.cut enumerates every byte offset (0..len) of the multi-frame stream shapes x {EOF, I/O error} completely (quick: 1 shape, thorough: 5 shapes); c15.history is sampled"},
        level="fault_enumeration",
        technique="model-based property testing (rapid) of open/fail/reopen/close histories with fault injection on a scripted byte stream + exhaustive enumeration of cut offsets; reference model of the close state machine and monitor policy; third leg: Open/Close/IsOpen histories of the NATS client transport against a private broker that is shut down and restarted (model of the close state)",
        rule=("Histories of up to 23 steps over the adapter transport on a scripted stream with a recording BaseFTransportMonitor (MaxReopenAttempts 0..4, waits 1..6 ms): "
              "Open, Close, IsOpen, Request, fail(EOF | I/O error | unrecoverable frame | write failure; between frames or inside a frame), failNextOpens(n), sleep. "
              "Non-trivial: >=2 failures, or a failure and a Close. Distinct: sha256 of the history. The cut leg enumerates every byte offset of multi-frame streams x {EOF, I/O error}."),
        level_text=("Fault enumeration + exploration: every call runs under a 5 s deadlock watchdog; after each failure the Closed() channel obtained while open must yield exactly one cause "
                    "(nil only for Close() and peer EOF, which the project defines as clean) and then close; the monitor must be notified, make at most MaxReopenAttempts attempts with waits <= MaxWait, "
                    "and IsOpen/ALREADY_OPEN/NOT_OPEN must agree with the reference model after every step; the transport must be usable at the end."),
        level_note="Trusted: scriptT's rendering of socket behaviour (a failed write also fails the read side; Read returns after Close). Monitor waits are scaled to milliseconds.",
        assumptions=["peer EOF is a clean close (read-loop comment and Java runtime's isCleanClose)", "monitor notifications are only required while the monitor runner is active (it terminates after a clean close or after giving up)"],
        design_ref="DESIGN.md §2 C15",
    ),
    "C13": dict(
        title="Every call returns within its FContext timeout",
        legs=[leg("TestC13Timeout", quick=(40, 4), thorough=(600, 16), timeout_s=3000, prefixes=["c13."])],
        level="exploration",
        technique="property-based testing (rapid) with injected peer stalls (silent, late, blocked write/flush, foreign op id) on scripted and real transports; outcome- and deadline-based oracle",
        rule=("Batches of 1..8 concurrent calls, each on its own transport: adapter Request/Oneway over a scripted stream, NATS (silent subscribed responder, or none), HTTP (sleeping handler); "
              "timeouts 1..300 ms and 1..999 us; peer: silent, late by 1..200 ms, Write blocks, Flush blocks, answers with another op id, no responder. "
              "Non-trivial: anything but adapter+silent. Distinct: sha256 of the batch."),
        level_text=("Exploration: every call must return no later than timeout + 400 ms (stated allowance; real violations are hangs), with a TIMED_OUT transport exception when no response "
                    "arrived in time (a response late by < 30 ms races the deadline and may legally win), leave no registration behind, and the transport must serve a follow-up request."),
        level_note="Trusted: wall clock with a generous allowance; a failing timed case is only reported if rapid reproduces it while shrinking.",
        assumptions=["sub-millisecond timeouts are rounded up to 1 ms by the wire format (whole milliseconds)", "NATS without responder may answer SERVICE_NOT_AVAILABLE instead of TIMED_OUT"],
        design_ref="DESIGN.md §2 C13",
    ),
    "C17": dict(
        title="Op ids are unique and FContexts are safe to share and clone",
        legs=[leg("TestC17Concurrent", quick=(150, 4), thorough=(3000, 12), race=True, timeout_s=3000, env={"GORACE": "halt_on_error=1"}, prefixes=["c17."]),
              leg("TestC17Clone", quick=(1500, 2), thorough=(30000, 4), race=True, timeout_s=3000, env={"GORACE": "halt_on_error=1"})],
        level="exploration",
        technique="property-based testing (rapid) under the Go race detector: generated concurrent op schedules with a uniqueness/union oracle, and a model-based state machine for clone independence",
        rule=("Concurrent leg: 2..32 goroutines x 1..30 ops each (NewFContext, Clone on FContextImpl / via frugal.Clone / on a foreign FContext / on the shared context, ReadRequestHeader, "
              "Add/Read request+response headers, SetTimeout/Timeout, ephemeral properties, CorrelationID on one shared context); non-trivial: >=4 goroutines and >=2 op kinds. "
              "Clone leg: up to 25 steps over a family of <=8 contexts rooted in an FContextImpl, a received context or a foreign implementation: clone, clone-of-clone, mutate any member; "
              "non-trivial: >=1 clone and >=1 mutation. Distinct: sha256 of the schedule."),
        level_text=("Exploration under -race (halt_on_error): every op id produced in the whole test process is pairwise distinct; after the concurrent phase the shared context holds exactly the union "
                    "of the writes and its own op id; any data race aborts the run and is attributed to the running case; a clone starts equal except for a new op id and every later mutation is visible on exactly one context."),
        level_note="Trusted: the Go race detector (sees races only in executed schedules); foreign FContext implementations are assumed to return copies from their getters like FContextImpl does.",
        assumptions=["ephemeral property values are compared at map level (no deep copy of values is claimed)"],
        design_ref="DESIGN.md §2 C17",
    ),
    "C12": dict(
        title="Size limits are enforced exactly and reported, never silently",
        legs=[leg("TestC12Limits", quick=(300, 4), thorough=(5000, 16), timeout_s=3000, prefixes=["c12."])],
        level="exploration",
        technique="property-based testing (rapid): generated payload shapes sized to limit+delta, size oracle computed by an independent unbounded encoding, over the bounded buffer, spy transports and real NATS/HTTP/STOMP paths",
        rule=("Payload shapes (string/binary/i32/i64/bool/list/map/nested struct fields, the large part first, middle or last) sized so that the framed size is limit+delta, "
              "delta in {-100,-2,-1,0,+1..+5,+100}; limits {0 (unbounded), 200, 1000, 65536, 1 MiB}; binary/compact/JSON; legs: TMemoryOutputBuffer, FStandardClient Call/Oneway/Publish over spies, "
              "NATS request and response (1 MiB), HTTP request limit and client-requested response limit, STOMP max publish size; then a small follow-up message. "
              "Non-trivial: |delta|<=2, or the large part is a string, or it is last. Distinct: sha256 of the case."),
        level_text=("Exploration: size > limit => REQUEST_TOO_LARGE and nothing transmitted (spy / handler / subscriber saw no bytes); oversize response => caller gets RESPONSE_TOO_LARGE, not a timeout; "
                    "size <= limit => accepted with transmitted length == independently computed framed size; the follow-up message succeeds."),
        level_note="Trusted: the independent size computation (reference header codec + Thrift protocol encoders on an unbounded buffer). The HTTP response limit is compared by the server without the 4-byte frame prefix; that 4-byte band is left undecided.",
        assumptions=["NATS broker with the default 1 MiB max payload"],
        design_ref="DESIGN.md §2 C12",
    ),
    "C09": dict(
        title="The request context travels with the call and back",
        legs=[leg("TestC09Context", quick=(500, 4), thorough=(10000, 16), timeout_s=3000, prefixes=["c09."])],
        level="exploration",
        technique="property-based testing (rapid): generated header maps / correlation ids / timeouts sent through every transport and protocol, observed in the handler, on the caller and in the teed reply frame (reference decoder)",
        rule=("User request headers (0..6, names not starting with '_', arbitrary bytes incl. empty and multi-byte), handler-set response headers (0..5), correlation id given or generated, "
              "timeout 1..3 600 000 ms (>=3 s on real transports), 1..4 sequential calls; RPC over in-memory loop, TCP adapter+simple server, HTTP, NATS with handler outcome ok / declared exception / undeclared error; "
              "pub/sub over NATS and STOMP; binary/compact/JSON. Non-trivial: >=1 user header and (>=1 response header or pub/sub), or a non-default timeout. Distinct: sha256 of the case."),
        level_text=("Exploration: the handler / subscriber callback must observe exactly the user headers, the correlation id and the timeout; its context must carry a fresh op id (different from the caller's and from every "
                    "other op id seen in the process); the caller must see every response header the handler set and keep its own op id; the reply frame teed at the transport, decoded by the reference decoder, must carry the request's _opid and _cid."),
        level_note="Trusted: the fixture client/processor mirroring generated code (the generated-code leg is covered by C03), reference header decoder, in-process brokers.",
        assumptions=["handler-set response header names do not start with '_' (reserved)"],
        design_ref="DESIGN.md §2 C09",
    ),
    "C14": dict(
        title="The server answers every two-way request exactly once with a well-formed reply",
        legs=[leg("TestC14Replies", quick=(250, 4), thorough=(4000, 16), timeout_s=3000, prefixes=["c14."]),
              # generated processors (the reply of a generated method is counted where the whole reply is at hand)
              leg("TestBedC03", module="idl", quick=(500, 2), thorough=(5000, 8), timeout_s=3000, prefixes=["c03.", "bed."], env={"VERIF_BED_PROGRAMS": "6"})],
        level="exploration",
        technique="property-based testing (rapid): generated request sequences of every kind sent by a raw client over the simple/HTTP/NATS servers and in memory, replies parsed by an independent decoder and matched to requests; generated processors of generated programs (bed leg): exactly one reply message per two-way call",
        rule=("Sequences of 1..30 requests of kinds ok / declared exception / undeclared error / TApplicationException(42) / unknown method / missing required argument / wrong wire type / oneway / truncated arguments, "
              "spread over 1..4 connections (simple server, sequential per connection, connections concurrent), 1..4 concurrent HTTP senders, 1..4 NATS publishers x 1..4 workers, or direct Process; binary/compact/JSON. "
              "Non-trivial: a success after a non-success on the same connection, or >=2 concurrent connections/workers. Distinct: sha256 of the case."),
        level_text=("Exploration: exactly one reply per two-way request (matched by _opid and reply subject / position), none for a successful oneway, nothing unsolicited; the reply is a self-contained frame whose "
                    "headers and Thrift message parse completely with nothing trailing; message type and exception type are the ones the request kind calls for; the handler runs exactly once for well-formed known calls and never otherwise."),
        level_note="Trusted: reference header decoder and Thrift's protocol readers for parsing replies; the fixture processor mirrors generated code (generated processors are exercised in C03).",
        assumptions=["after truncated arguments nothing is asserted about the same simple-server connection (stream desynchronisation is outside the stated clause)"],
        design_ref="DESIGN.md §2 C14",
    ),
    "C20": dict(
        title="NATS server shutdown drains: accepted requests answered, none lost or duplicated",
        legs=[leg("TestC20Shutdown", quick=(100, 4), thorough=(1500, 16), timeout_s=3000, prefixes=["c20."])],
        level="exploration",
        technique="property-based testing (rapid): generated worker/queue/burst/handler-duration/Stop-position configurations against an in-process NATS broker, exactly-once accounting per request id",
        rule=("Workers 1..4, queue length 0..8 (incl. shorter than the burst and unbuffered), burst 0..30 requests with handler durations 0..15 ms, Stop called after the k-th flushed request while the rest of the burst is still being published, "
              "0..4 requests after Stop returned, publisher on its own or on the server's connection, binary/compact/JSON. Non-trivial: burst > queue+workers, or Stop strictly inside the burst. Distinct: sha256 of the configuration."),
        level_text=("Exploration: every request published and flushed before Stop was called has been processed exactly once when Serve returns and its reply arrives once the server connection is flushed; "
                    "requests racing with Stop are processed at most once and replied iff processed; requests published after Stop returned are never processed; nothing is processed after Serve returned; "
                    "Stop and Serve return within a 10 s watchdog in every configuration."),
        level_note="Trusted: in-process NATS broker ordering (a publisher flush precedes a later UNSUB of the server connection).",
        assumptions=["healthy broker; Stop called once"],
        design_ref="DESIGN.md §2 C20",
    ),
    "C07": dict(
        title="Pub/sub delivers each message once, intact, and isolates bad messages",
        legs=[leg("TestC07PubSub", quick=(80, 4), thorough=(1000, 16), timeout_s=3000, prefixes=["c07.pubsub"]),
              leg("TestBedC07", module="idl", quick=(1500, 4), thorough=(15000, 16), timeout_s=3000, prefixes=["c07.bed", "bed."], env={"VERIF_BED_PROGRAMS": "6"})],
        level="exploration",
        technique="property-based testing (rapid): generated publish sequences (valid / malformed / foreign-topic) over in-process NATS and STOMP brokers, history invariant on the recorded handler invocations; plus the generated Go publishers/subscribers of generated scopes executed against a recording in-memory broker",
        rule=("Sequences of 1..40 publishes on a scope topic: valid (payload + user headers + correlation id through the real publisher client), malformed (0-3 bytes, bad version, hostile header size, wrong op name, truncated payload), "
              "foreign topic (other operation, other prefix value, other scope); NATS subscriber with 1..4 workers with/without queue group, STOMP topic subscriber; binary/compact/JSON; on NATS 0..3 publishes after Unsubscribe returned. "
              "Non-trivial: a valid message after a malformed one, or a foreign-topic message, or a post-unsubscribe publish. Distinct: sha256 of the sequence + configuration."),
        level_text=("Exploration: the recorded invocations equal the valid same-topic publishes (as a sequence for a single worker / STOMP, as a multiset for several workers) with equal payload, user headers and correlation id; "
                    "foreign-topic and malformed messages produce no invocation and do not stop later deliveries; nothing published after Unsubscribe returned is delivered."),
        level_note=("Trusted: in-process brokers. The embedded go-stomp broker never acknowledges UNSUBSCRIBE and does not route /queue destinations from /topic publishes, so the STOMP Unsubscribe clause and queue mode are not exercised; "
                    "STOMP SUBSCRIBE is unacknowledged, the harness waits for a sentinel message before publishing."),
        assumptions=["healthy broker connection", "publisher and malformed injections share one connection so the interleaving is the broker's order"],
        design_ref="DESIGN.md §2 C07",
    ),
    "C10": dict(
        title="The parser represents every declaration exactly and accepts all Thrift",
        legs=[leg("TestC10RoundTrip", module="idl", quick=(1500, 4), thorough=(40000, 16), timeout_s=3000, prefixes=["c10."]),
              # the model as dumped by -gen json: an annotation written on one type reference appears exactly once
              leg("TestC10JSONView", module="idl", quick=(300, 2), thorough=(5000, 8), timeout_s=3000, prefixes=["c10."])],
        level="exploration",
        technique="property-based testing (rapid): generated IDL models rendered with generated lexical variation, parsed by the real parser and compared field by field with the model (round trip); second leg: the model as dumped by -gen json (an annotation written on one type reference occurs exactly once)",
        rule=("Valid multi-file IDL models (includes, namespaces, typedefs, enums with explicit/implicit values, constants incl. lists/maps, structs/unions/exceptions with ids, requiredness, defaults, annotations, docstrings, "
              "services with extends/oneway/args/throws, scopes with prefixes and variables) rendered with drawn lexical choices: //, #, /* */ and /**@ */ comments in every whitespace position, ',' ';' or no separators, "
              "';' / newline / EOF statement ends, ' and \" literals, whitespace inside container types, identifier shapes (snake, SCREAMING, initialisms, digits). "
              "Non-trivial: >=3 declaration kinds and (>=2 comment kinds or a non-default separator). Distinct: sha256 of the rendered text."),
        level_text=("Exploration: parse(render(model)) must equal the model for every file of the program (includes, namespaces, typedefs, enums with Thrift numbering, constants, struct-likes with field ids / requiredness / types / defaults / annotations / docstrings, "
                    "services, scopes sorted by name, prefix string and variables), independent of the lexical draw; the parser must never reject, panic or hang on a generated program."),
        level_note="Trusted: the generator's validity rules and the renderer (they encode what well-formed Thrift/Frugal is); constructs behind confirmed parser defects are excluded by construction (hazard tags, counted) and replayed as known findings.",
        assumptions=["IDL outside the model (senum, hex literals, fields without ids, cpp_include) is not generated"],
        design_ref="DESIGN.md §2 C10",
    ),
    "C11": dict(
        title="The compiler is total: valid IDL yields valid code, bad input a diagnostic",
        legs=[leg("TestC11Valid", module="idl", quick=(250, 4), thorough=(5000, 12), timeout_s=3000, prefixes=["c11."]),
              leg("TestC11Invalid", module="idl", quick=(400, 4), thorough=(20000, 4), timeout_s=3000)],
        fuzz=[dict(module="idl", target="FuzzC11Text", seconds=420)],
        level="exploration",
        technique="property-based testing (rapid) over generated valid programs x targets x options with per-target well-formedness oracles (go/parser + go/types, javac parser, CPython ast, JSON, HTML, Dart lexical balance); mutation-based generation and, in the thorough tier, native go fuzzing (coverage-guided, FuzzC11Text) for arbitrary input text",
        rule=("Valid programs (as C10) x 1..5 of 28 target/option combinations (go, java, dart, py, py:asyncio, py:tornado, json, html and their options) x -delim x -r. "
              "Non-trivial: a program with a service or scope and (>=2 files or an option set). Distinct: sha256 of (text, targets, delim, recurse)."),
        level_text=("Exploration: in-process Compile must return nil without panicking for every target; every emitted file must be well-formed for its target. Invalid inputs (mutants, semantic violations) must make the CLI exit non-zero with a message and no Go runtime trace, promptly."),
        level_note="Trusted: go/parser, go/types, javac's parser, CPython's parser. Java/Dart/Python output is checked syntactically only (no Thrift/Frugal jars, Dart SDK or thrift Python package offline).",
        assumptions=["constructs behind confirmed generator defects are excluded by hazard tags and replayed as known findings"],
        design_ref="DESIGN.md §2 C11",
    ),
    "C18": dict(
        title="The IDL audit flags every breaking change and nothing else",
        legs=[leg("TestC18Audit", module="idl", quick=(750, 4), thorough=(20000, 16), timeout_s=3000, prefixes=["c18."])],
        level="exploration",
        technique="property-based testing (rapid): generated programs x generated edit sequences from the documented catalogue (27 breaking, 29 compatible kinds) applied at drawn sites; oracle = independent reference audit over the model, cross-checked with the catalogue classification",
        rule=("(old, new) pairs: new = old with 1..4 edits at drawn sites (scopes, prefixes, operations, struct/union/exception fields at any nesting depth, enums, services, methods, args, exceptions, typedefs in the root or in an included file, "
              "namespaces, constants, docs, declaration/field order); old and new are rendered with independent lexical draws. Non-trivial: >=2 applied edits, or one edit at a site that is not the first of its kind, or through a typedef. "
              "Distinct: sha256 of (old text, edit list)."),
        level_text=("Exploration: the audit must fail iff the reference audit (the documented rules restated over the model) sees at least one breaking change; for single edits the catalogue's breaking/compatible flag must agree with the reference, "
                    "and the ERROR output must name the edited declaration; the audit must never reject or crash on two valid programs."),
        level_note="Trusted: the reference audit in h/idl/audit_ref.go (written from audit.go's doc comments and the property statement) and the edit catalogue in h/idl/edits.go.",
        assumptions=["edits outside the documented catalogue are not generated", "byte<->i8 retypes and enum value swaps are in neither category and are not generated"],
        design_ref="DESIGN.md §2 C18",
    ),
    "C19": dict(
        title="Code generation is deterministic and location-independent",
        legs=[leg("TestC19Determinism", module="idl", quick=(60, 4), thorough=(1000, 16), timeout_s=3400, prefixes=["c19."])],
        level="exploration",
        technique="property-based testing (rapid): metamorphic relation over repeated and relocated compilations of generated multi-file programs (identical file-set digests)",
        rule=("Valid programs sized up (up to 5 files, sub-directories, doubled declaration counts) x one of 28 target/option combinations (java generated_annotations=use excluded) x -delim: compiled 3 times in-process at one location, "
              "once from a copy of the source tree at a different absolute path with a different -out, and (every 4th case) twice through the CLI from different working directories with relative source and -out paths and different HOME/TMPDIR. "
              "Non-trivial: >=3 files with >=2 services/scopes, or >=3 includes. Distinct: sha256 of (text, target, delim)."),
        level_text="Exploration: the multiset {(path relative to -out, sha256)} must be identical across all runs of one (program, target, options); the first differing line is reported.",
        level_note="Trusted: sha256, the file walker. Different machines / Go versions are out of reach.",
        assumptions=["programs that do not compile are out of this property's domain (C11 judges them)"],
        design_ref="DESIGN.md §2 C19",
    ),
    "C08": dict(
        title="Publisher and subscriber agree on the topic, in every target language",
        legs=[leg("TestC08Topics", module="idl", quick=(150, 4), thorough=(3000, 16), timeout_s=3000, prefixes=["c08."]),
              leg("TestBedC08", module="idl", quick=(1500, 4), thorough=(15000, 16), timeout_s=3000, prefixes=["c08.bed", "bed."], env={"VERIF_BED_PROGRAMS": "6"}),
              leg("TestC08ExtractorSelfTest", module="idl", fixed=True)],
        level="exploration",
        technique="property-based testing (rapid): differential across six generated outputs (go, java, dart, py, py:asyncio, py:tornado) — topic expressions extracted from the emitted source and evaluated — plus a composition oracle; the generated Go publishers/subscribers of generated programs are executed against a recording in-memory broker (topic published == topic subscribed == composed topic)",
        rule=("Scope names in 8 identifier shapes (capitalised or not, snake, SCREAMING, initialisms), 1..3 operation names, prefixes with 0..5 static tokens / variables in any order, -delim in {. / - _ : | ..}, runtime variable values. "
              "Non-trivial: delimiter != '.', or scope name not capitalised, or >=1 variable. Distinct: sha256 of the case."),
        level_text=("Exploration: within each language the publisher's and every subscriber's topic expression evaluate to the same string; the six languages produce the same string; "
                    "that string is prefix (variables substituted, IDL dots kept) + delim + scope (as written or capitalised) + delim + operation. Extraction misses are harness errors (exit 2), never silent passes; the extractor is self-tested on the golden outputs."),
        level_note="Trusted: the three expression evaluators (Go/Java format strings, Dart interpolation in h/idl/c08_test.go; Python lines are exec'd by CPython). The Go leg is additionally executed for real by the generated-code bed (C03/C16 harness).",
        assumptions=["Java/Dart/Python output is evaluated by extraction, not executed (no runtimes offline)"],
        design_ref="DESIGN.md §2 C08",
    ),
    "C02": dict(
        title="Generated Go types encode and decode exactly what the IDL declares",
        legs=[leg("TestBedC02", module="idl", quick=(4000, 4), thorough=(40000, 16), timeout_s=3000, prefixes=["c02.", "bed."], env={"VERIF_BED_PROGRAMS": "6"})],
        level="exploration",
        technique="property-based testing (rapid) of generated Go code: generated multi-file IDL programs are compiled by the working-tree compiler, built into a scratch module and exercised by a reflection driver; oracle = independent schema-less Thrift value trees computed from the IDL model (round trip through generated Read and Write; values built in Go, fresh New<T>() values and encodings that omit default-requiredness fields are written and compared with the declared defaults)",
        rule=("Per shard a batch of 6 generated programs (up to 3 files; typedef chains, includes, enums, nested containers to depth 3, required/default/optional, unions, exceptions, args/result structs of every service method) is compiled to Go and linked with the driver; "
              "cases: (struct type, protocol in {binary, compact, JSON}, a conforming wire tree drawn from the model with optional fields present or absent, field order rotation, 0..3 unknown fields of random wire types, optionally one required field dropped). "
              "Non-trivial: a type with a typedef'd, include-qualified or container-of-custom-type field and a non-empty value. Distinct: sha256 of (program text, type, tree, perturbation, protocol)."),
        level_text=("Exploration: the generated Read must accept every conforming encoding in any field order with unknown fields skipped and reject one without a required field; the Go value it builds must represent the declaration (reflection: thrift tags, "
                    "optional fields nil-able, kinds); the generated Write must then emit exactly the declared field ids, wire types and values (parsed back by a generic tree reader) with required/default fields present, optional ones iff set, one arm per union, nothing trailing; "
                    "every declaration must have a generated counterpart."),
        level_note="Trusted: Apache Thrift's protocol implementations (both ends of the tree comparison use them), reflection-based spec in h/genbed/driver/spec.go. Only the Go output is executed (no Java/Dart/Python runtimes offline).",
        assumptions=["optional fields with IDL defaults (Thrift-Go 'set iff != default' convention), typedef-of-struct/enum uses, binary/container map keys and included typedef chains are excluded by hazard tags (known findings / documented conventions)"],
        design_ref="DESIGN.md §2 C02",
    ),
    "C03": dict(
        title="A call through generated client and server code is faithful end to end",
        legs=[leg("TestBedC03", module="idl", quick=(1500, 4), thorough=(15000, 16), timeout_s=3000, prefixes=["c03.", "bed."], env={"VERIF_BED_PROGRAMS": "6"}),
              # exactly-once when the connection is lost after the handler ran (HTTP, keep-alive connection reused)
              leg("TestC03HTTPLoss", quick=(60, 2), thorough=(1500, 4), timeout_s=1800, prefixes=["c03h."])],
        level="exploration",
        technique="property-based testing (rapid) of generated Go clients, processors, publishers and subscribers for generated IDL programs, driven by reflection over in-memory, TCP, HTTP and NATS transports; oracle = recorded handler invocations and model-derived value trees; second leg: sequential HTTP calls whose connection is lost after the handler ran (handler count per call = 1, caller gets an error)",
        rule=("Per shard a batch of 6 generated programs is compiled to Go and linked with stub handlers emitted from the generated interfaces; cases: (service method incl. inherited through extends in the same file or across includes, oneway, void, throws) x "
              "argument tuples drawn from the model x handler outcome {return value, each declared exception, undeclared error, TApplicationException} x transport {in-memory, TCP adapter + FSimpleServer, HTTP, NATS} x protocol {binary, compact, JSON}; "
              "scope operations are published and delivered over an in-memory broker. Non-trivial: a non-primitive argument, a throws clause, an inherited method or an outcome other than plain success. Distinct: sha256 of the case."),
        level_text=("Exploration: the handler registered with the generated processor is invoked exactly once with arguments equal (as wire trees) to what the caller passed; the caller observes exactly the outcome: equal return value, the same declared exception type with equal fields, "
                    "INTERNAL_ERROR for an undeclared failure, the handler's own type id for an application exception; a successful oneway produces no reply; generated publishers and subscribers agree on the topic and deliver payload and headers exactly once."),
        level_note="Trusted: the reflection driver (h/genbed/driver), the stub emitter (copies signatures from the generated interfaces), in-process brokers. Only Go is executed.",
        assumptions=["struct-typed arguments are always populated (nil pointers dereference in generated Write as in Apache Thrift's Go output)"],
        design_ref="DESIGN.md §2 C03",
    ),
    "C16": dict(
        title="Middleware intercepts every call exactly once, in the declared order",
        legs=[leg("TestBedC16", module="idl", quick=(1500, 4), thorough=(15000, 16), timeout_s=3000, prefixes=["c16.", "bed."], env={"VERIF_BED_PROGRAMS": "6"})],
        level="exploration",
        technique="model-based property testing (rapid) of generated Go code: generated middleware lists at every attachment point, expected nesting trace computed from the lists, rewrites observed at the handler and at the caller",
        rule=("Middleware lists of length 0..3 (each observing or rewriting) at the provider, the client constructor, the processor constructor and FProcessor.AddMiddleware for every generated two-way method (incl. inherited) over in-memory/TCP/NATS/HTTP, "
              "and at the scope provider, publisher and subscriber constructors for every generated scope operation. Non-trivial: >=2 middleware at >=2 attachment points with >=1 rewriting. Distinct: sha256 of the case."),
        level_text=("Exploration: the recorded enter/exit trace must equal the expected nesting (later-listed wraps earlier, provider middleware wraps constructor middleware, AddMiddleware wraps the constructor list), each middleware exactly once; "
                    "the handler sees the request header and first string argument rewritten by every rewriting layer in enter order; the caller sees the response header and a string result rewritten in exit order."),
        level_note="Trusted: the driver's middleware constructors and expected-trace computation.",
        assumptions=["oneway methods are excluded from the trace oracle (the server-side part is not ordered with respect to the caller)"],
        design_ref="DESIGN.md §2 C16",
    ),
}

NOT_APPLICABLE = [
    {"property_id": p, "reason": "check not built yet (work in progress; planned per DESIGN.md section 2)"}
    for p in ALL_PROPS if p not in CHECKS
]
