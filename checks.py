# Registry of checks: one entry per property. run.py executes it, mkmanifest.py
# renders MANIFEST.json from it.
#
# leg fields: test (go test -run regexp), module (dir under h/), quick/thorough =
# (rapid checks per shard, shards), race (build with -race), timeout_s per shard.

GOENV = {
    "GOFLAGS": "-mod=mod", "GOPROXY": "off", "GOSUMDB": "off", "GOTOOLCHAIN": "local",
}

def leg(test, module="rt", quick=(1000, 1), thorough=(10000, 16), race=False, timeout_s=600, env=None, fixed=False):
    return dict(test=test, module=module, quick=quick, thorough=thorough, race=race,
                timeout_s=timeout_s, env=env or {}, fixed=fixed)

HOOK_COMMITS = ["dd392ad"]
FIX_COMMITS = ["e449346", "ba22cb7", "3039ef0"]

ALL_PROPS = ["C%02d" % i for i in range(1, 21)]

CHECKS = {
    "C04": dict(
        title="FContext headers survive the wire unchanged in the documented v0 layout",
        legs=[
            leg("TestC04Go", quick=(2500, 2), thorough=(50000, 16)),
            leg("TestC04Peer", quick=(500, 1), thorough=(5000, 4)),
        ],
        level="exploration",
        technique="property-based testing (rapid): round trip against an independent reference codec written from protocol.md + differential with the Python runtime codec and contrib/frame_parser.py",
        rule=("Header maps (0..24 entries; names/values empty, ASCII, multi-byte UTF-8, arbitrary bytes, 100-300 bytes, occasionally 70 KB) "
              "+ payload 0..200 bytes drawn by rapid. Non-trivial: >=2 headers, or an empty name/value, or a multi-byte rune, or a non-empty payload. "
              "Distinct: sha256 of (sorted pairs, payload)."),
        level_text=("Exploration: every generated header map is written by the Go runtime and decoded by a reference decoder written from "
                    "documentation/protocol.md (layout, sizes, nothing trailing), reference-encoded bytes are read back by the stream and frame "
                    "readers, and valid-UTF-8 maps are exchanged in both directions with lib/python's codec and parsed by contrib/frame_parser.py. "
                    "Absence of violations is not established beyond the generated cases."),
        level_note="Trusted: the reference codec in h/rt/refhdr.go, CPython 3.11/2.7, rapid. Java and Dart codecs are not executed (no runtimes offline).",
        assumptions=["header maps have unique names (a map)", "Python leg restricted to valid UTF-8 (its API takes str)"],
        design_ref="DESIGN.md §2 C04",
    ),
    "C05": dict(
        title="No received byte sequence can crash or wedge a Frugal process",
        legs=[
            leg("TestC05Sync", quick=(4000, 4), thorough=(150000, 12), timeout_s=1800),
            leg("TestC05E2E", quick=(150, 4), thorough=(4000, 4), timeout_s=1800),
        ],
        level="exploration",
        technique="property-based testing (rapid) with structure-aware mutation of valid frames at every receiving entry point; native go fuzzing in the thorough tier",
        rule=("Valid request/response/pub-sub frames (binary, compact, JSON) mutated: any 4-byte size field set to 0, 1, exact+-1, len, len+1, "
              "0x7fffffff, 0x80000000, 0xffffffff...; truncation at any byte; duplicated/dropped ranges; version byte; bit flips; pure random bytes. "
              "Non-trivial: a size-field mutation, or input that passes the first length/version check of its entry point. Distinct: sha256(entry, bytes)."),
        level_text=("Exploration: each receiving entry point (stream header reader, frame header reader, adapter/NATS/HTTP client response path, "
                    "processor behind the stream/NATS/HTTP servers, subscriber callbacks) is driven synchronously with mutated frames; oracle: returns "
                    "within a watchdog without panicking. An end-to-end leg with real goroutines and brokers requires that a well-formed message "
                    "after the bad one is still served."),
        level_note="Trusted: rapid, the in-process NATS/STOMP brokers, the hand-written fixtures mirroring generated code (h/rt/fixtures.go).",
        assumptions=["a stalled stream peer is legitimate waiting, not a hang", "memory exhaustion is observed, not judged"],
        design_ref="DESIGN.md §2 C05",
    ),
}

NOT_APPLICABLE = [
    {"property_id": p, "reason": "check not built yet (work in progress; planned per DESIGN.md section 2)"}
    for p in ALL_PROPS if p not in CHECKS
]
