# Registry of checks: one entry per property. run.py executes it, mkmanifest.py
# renders MANIFEST.json from it.
#
# leg fields: test (go test -run regexp), module (dir under h/), quick/thorough =
# (rapid checks per shard, shards), race (build with -race), timeout_s per shard.

GOENV = {
    "GOFLAGS": "-mod=mod", "GOPROXY": "off", "GOSUMDB": "off", "GOTOOLCHAIN": "local",
}

def leg(test, module="rt", quick=(1000, 1), thorough=(10000, 16), race=False, timeout_s=600, env=None, fixed=False):
    return dict(test=test, module=module, quick=quick, thorough=thorough, race=race,
                timeout_s=timeout_s, env=env or {}, fixed=fixed)

HOOK_COMMITS = ["dd392ad"]

ALL_PROPS = ["C%02d" % i for i in range(1, 21)]

CHECKS = {
    "C04": dict(
        title="FContext headers survive the wire unchanged in the documented v0 layout",
        legs=[
            leg("TestC04Go", quick=(2500, 2), thorough=(50000, 16)),
            leg("TestC04Peer", quick=(500, 1), thorough=(5000, 4)),
        ],
        level="exploration",
        technique="property-based testing (rapid): round trip against an independent reference codec written from protocol.md + differential with the Python runtime codec and contrib/frame_parser.py",
        rule=("Header maps (0..24 entries; names/values empty, ASCII, multi-byte UTF-8, arbitrary bytes, 100-300 bytes, occasionally 70 KB) "
              "+ payload 0..200 bytes drawn by rapid. Non-trivial: >=2 headers, or an empty name/value, or a multi-byte rune, or a non-empty payload. "
              "Distinct: sha256 of (sorted pairs, payload)."),
        level_text=("Exploration: every generated header map is written by the Go runtime and decoded by a reference decoder written from "
                    "documentation/protocol.md (layout, sizes, nothing trailing), reference-encoded bytes are read back by the stream and frame "
                    "readers, and valid-UTF-8 maps are exchanged in both directions with lib/python's codec and parsed by contrib/frame_parser.py. "
                    "Absence of violations is not established beyond the generated cases."),
        level_note="Trusted: the reference codec in h/rt/refhdr.go, CPython 3.11/2.7, rapid. Java and Dart codecs are not executed (no runtimes offline).",
        assumptions=["header maps have unique names (a map)", "Python leg restricted to valid UTF-8 (its API takes str)"],
        design_ref="DESIGN.md §2 C04",
    ),
}

NOT_APPLICABLE = [
    {"property_id": p, "reason": "check not built yet (work in progress; planned per DESIGN.md section 2)"}
    for p in ALL_PROPS if p not in CHECKS
]
