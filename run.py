#!/usr/bin/env python3
"""Driver for the property checks.

    run.py <Cxx> [--tier quick|thorough] [--replay FILE] [--seed N] [--keep]

exit 0  property held on everything explored (KNOWN-FINDING lines may be printed)
exit 1  violation; a line  VIOLATION property=<id> replay=<path>  is printed
exit 2  inconclusive (build failure, budget hit, worker death that does not reproduce)

Everything is rebuilt from /repo's working tree (the Go harness modules use
`replace ... => /repo[...]`); evidence/<id>.json is rewritten on every run.
"""
import argparse, concurrent.futures as cf, hashlib, json, os, shutil, subprocess, sys, time, glob, signal

VERIF = os.path.dirname(os.path.abspath(__file__))
sys.path.insert(0, VERIF)
from checks import CHECKS, GOENV  # noqa: E402


def log(*a):
    print(*a, flush=True)


def goenv(extra=None):
    e = dict(os.environ)
    e.update(GOENV)
    e["VERIF_DIR"] = VERIF
    if extra:
        e.update(extra)
    return e


_NETNS = None


def netns_prefix():
    """Each test process gets a private network namespace (own loopback, own ephemeral port space):
    thousands of short-lived loopback connections per shard otherwise exhaust the shared port range
    ("bind: address already in use") when many shards run at once. Falls back to no wrapping."""
    global _NETNS
    if _NETNS is None:
        try:
            p = subprocess.run(["unshare", "-n", "sh", "-c", "ip link set lo up && echo ok"], capture_output=True, text=True, timeout=20)
            _NETNS = p.returncode == 0 and "ok" in p.stdout
        except Exception:
            _NETNS = False
    return ["unshare", "-n", "sh", "-c", 'ip link set lo up; exec "$@"', "sh"] if _NETNS else []


def seed_for(base, prop, legname, shard):
    h = hashlib.sha256(f"{base}|{prop}|{legname}|{shard}".encode()).digest()
    return (int.from_bytes(h[:4], "big") & 0x7FFFFFFF) | 1


def build(module, race, workdir):
    """go test -c for a harness module; returns path of the binary or raises."""
    out = os.path.join(workdir, f"{module}{'.race' if race else ''}.test")
    if os.path.exists(out):
        return out
    moddir = os.path.join(VERIF, "h", module)
    cmd = ["go", "test", "-c", "-tags", "verif", "-o", out]
    if race:
        cmd.append("-race")
    cmd.append(".")
    t0 = time.time()
    p = subprocess.run(cmd, cwd=moddir, env=goenv(), capture_output=True, text=True, timeout=1500)
    if p.returncode != 0:
        raise RuntimeError(f"build of h/{module} failed:\n{p.stdout}\n{p.stderr}")
    log(f"[build] h/{module}{' -race' if race else ''} in {time.time()-t0:.1f}s")
    return out


def run_shard(binary, test, checks, seed, outpath, timeout_s, extra_env, cwd, tier="quick"):
    env = goenv(extra_env)
    env["VERIF_OUT"] = outpath
    env["VERIF_TIER"] = tier
    env["VERIF_RAPID_SEED"] = str(seed)
    env["VERIF_TMP"] = os.path.dirname(outpath)
    cmd = netns_prefix() + [binary, "-test.run", f"^({test})$", f"-rapid.checks={checks}", f"-rapid.seed={seed}",
           "-rapid.nofailfile", "-rapid.shrinktime=60s", f"-test.timeout={timeout_s}s", "-test.count=1"]
    t0 = time.time()
    try:
        p = subprocess.run(cmd, cwd=cwd, env=env, capture_output=True, text=True, timeout=timeout_s + 60, errors="replace")
        rc, out = p.returncode, p.stdout + p.stderr
    except subprocess.TimeoutExpired as e:
        rc, out = -9, ((e.stdout or b"").decode(errors="replace") if isinstance(e.stdout, bytes) else (e.stdout or "")) + "\n[driver] shard timed out"
    return dict(rc=rc, out=out, wall=time.time() - t0, outpath=outpath, seed=seed, test=test, checks=checks)


def run_fuzz(module, target, seconds, workdir, tier):
    """native go fuzzing of one target for a wall-clock budget; returns dict(execs, interesting, fails[], pendings[], rc, out)"""
    import re
    moddir = os.path.join(VERIF, "h", module)
    fdir = os.path.join(workdir, f"fuzz-{target}")
    os.makedirs(fdir, exist_ok=True)
    cache = os.path.join(workdir, f"fuzzcache-{target}")
    env = goenv({"VERIF_FUZZ_DIR": fdir, "VERIF_TMP": workdir, "VERIF_TIER": tier})
    cmd = netns_prefix() + ["go", "test", "-tags", "verif", "-run", "^$", "-fuzz", f"^{target}$", f"-fuzztime={seconds}s",
                            f"-test.fuzzcachedir={cache}", "-timeout", f"{seconds + 600}s", "."]
    try:
        p = subprocess.run(cmd, cwd=moddir, env=env, capture_output=True, text=True, timeout=seconds + 900, errors="replace")
        rc, out = p.returncode, p.stdout + p.stderr
    except subprocess.TimeoutExpired as e:
        rc, out = -9, "[driver] fuzz run timed out"
    # the engine writes its crasher under testdata/fuzz/<target>/ of the package: our own record is in fdir, drop the engine's copy
    shutil.rmtree(os.path.join(moddir, "testdata", "fuzz", target), ignore_errors=True)
    for d in (os.path.join(moddir, "testdata", "fuzz"), os.path.join(moddir, "testdata")):
        try:
            os.rmdir(d)
        except OSError:
            pass
    execs = [int(x) for x in re.findall(r"execs: (\d+)", out)]
    inter = [int(x) for x in re.findall(r"new interesting: \d+ \(total: (\d+)\)", out)]
    return dict(rc=rc, out=out, execs=max(execs) if execs else 0, interesting=max(inter) if inter else 0,
                fails=sorted(glob.glob(os.path.join(fdir, "fail-*.json"))), pendings=sorted(glob.glob(os.path.join(fdir, "pending-*.json"))))


def replay_one(binary, path, cwd, extra_env=None, timeout_s=120):
    env = goenv(extra_env)
    env["VERIF_REPLAY"] = path
    env.pop("VERIF_OUT", None)
    try:
        p = subprocess.run(netns_prefix() + [binary, "-test.run", "^TestReplay$", "-test.count=1", f"-test.timeout={timeout_s}s"],
                           cwd=cwd, env=env, capture_output=True, text=True, timeout=timeout_s + 30, errors="replace")
        out, rc = p.stdout + p.stderr, p.returncode
    except subprocess.TimeoutExpired:
        return dict(status="timeout", sig="timeout", out="replay timed out")
    for line in out.splitlines():
        if line.startswith("REPLAY-PASS"):
            return dict(status="pass", sig="", out=out)
        if line.startswith("REPLAY-FAIL"):
            parts = line.split(None, 2)
            return dict(status="fail", sig=parts[2] if len(parts) > 2 else "", out=out)
        if line.startswith("REPLAY-ERROR"):
            return dict(status="error", sig="", out=out)
    if rc != 0:
        return dict(status="fail", sig="crash", out=out)  # died without a verdict: crash
    return dict(status="error", sig="", out=out)


def load_known():
    p = os.path.join(VERIF, "known_findings.json")
    if not os.path.exists(p):
        return []
    return json.load(open(p)).get("findings", [])


def sig_matches(expected, sig):
    return sig == expected or (expected.endswith("*") and sig.startswith(expected[:-1]))


def main():
    ap = argparse.ArgumentParser()
    ap.add_argument("prop")
    ap.add_argument("--tier", default=os.environ.get("VERIF_TIER", "quick"), choices=["quick", "thorough"])
    ap.add_argument("--replay")
    ap.add_argument("--seed", type=int, default=None)
    ap.add_argument("--keep", action="store_true")
    ap.add_argument("--only", help="only legs whose test name contains this")
    ap.add_argument("--scale", type=float, default=1.0, help="multiply case counts")
    a = ap.parse_args()
    prop = a.prop
    if prop not in CHECKS:
        log(f"unknown property {prop}")
        return 2
    spec = CHECKS[prop]
    base_seed = a.seed if a.seed is not None else int(os.environ.get("VERIF_SEED", "1") or "1")
    t_start = time.time()
    workdir = os.path.join(VERIF, "build", f"{prop}-{a.tier}-{os.getpid()}")
    os.makedirs(workdir, exist_ok=True)
    rundir = os.path.join(workdir, "cwd")
    os.makedirs(rundir, exist_ok=True)
    try:
        return run(prop, spec, a, base_seed, workdir, rundir, t_start)
    finally:
        if not a.keep:
            shutil.rmtree(workdir, ignore_errors=True)


def run(prop, spec, a, base_seed, workdir, rundir, t_start):
    legs = [l for l in spec["legs"] if not a.only or a.only in l["test"]]
    # ---- build
    bins = {}
    try:
        for l in legs:
            key = (l["module"], l["race"])
            if key not in bins:
                bins[key] = build(l["module"], l["race"], workdir)
    except Exception as e:  # build failure = inconclusive
        log(str(e))
        log(f"INCONCLUSIVE property={prop} reason=build-failure")
        return 2
    anybin = bins[(legs[0]["module"], legs[0]["race"])]
    binfor = {}
    for l in legs:
        binfor[l["module"]] = bins[(l["module"], l["race"])]

    violations = []   # (sig, replay path, msg)
    known_lines = []
    inconclusive = []

    def module_of_replay(path):
        try:
            chk = json.load(open(path)).get("check", "")
        except Exception:
            return legs[0]["module"]
        for l in spec["legs"]:
            for pfx in l.get("prefixes", []):
                if chk.startswith(pfx):
                    return l["module"]
        return legs[0]["module"]

    # ---- explicit replay
    if a.replay:
        b = binfor.get(module_of_replay(a.replay), anybin)
        r = replay_one(b, os.path.abspath(a.replay), rundir)
        log(r["out"][-3000:])
        if r["status"] == "fail":
            log(f"VIOLATION property={prop} replay={os.path.abspath(a.replay)}")
            return 1
        return 0 if r["status"] == "pass" else 2

    # ---- known findings: replay each reproducer, expect its signature
    replayed = 0
    for k in load_known():
        if k.get("property") != prop or k.get("state") != "known":
            continue
        path = os.path.join(VERIF, k["replay"])
        b = binfor.get(k.get("module") or module_of_replay(path), anybin)
        r = replay_one(b, path, rundir)
        replayed += 1
        if r["status"] == "fail" and sig_matches(k["sig"], r["sig"]):
            known_lines.append(f"KNOWN-FINDING: property={prop} {k['id']}: {k['what']}")
        elif r["status"] == "pass":
            log(f"[note] known finding {k['id']} no longer reproduces on this tree")
        elif r["status"] == "fail":
            violations.append((r["sig"], path, f"known-finding reproducer {k['id']} fails with a different signature {r['sig']!r} (expected {k['sig']!r})"))
        else:
            inconclusive.append(f"known-finding reproducer {k['id']}: {r['status']}")

    # ---- regression tier: committed replay files must pass
    regress = sorted(glob.glob(os.path.join(VERIF, "replay", prop, "*.json")))
    with cf.ThreadPoolExecutor(max_workers=8) as ex:
        futs = {ex.submit(replay_one, binfor.get(module_of_replay(p), anybin), p, rundir): p for p in regress}
        for f in cf.as_completed(futs):
            p = futs[f]
            r = f.result()
            replayed += 1
            if r["status"] == "fail":
                violations.append((r["sig"], p, "regression input fails: " + r["out"][-1500:]))
            elif r["status"] != "pass":
                inconclusive.append(f"replay {p}: {r['status']}")

    # ---- generated tier
    jobs = []
    for l in legs:
        n, shards = l[a.tier]
        n = max(1, int(n * a.scale))
        if l["fixed"]:
            shards = 1
        for s in range(shards):
            sd = seed_for(base_seed, prop, l["test"], s)
            outp = os.path.join(workdir, f"{l['test'].replace('|','_')}-{s}.json")
            jobs.append((l, n, sd, outp))
    results = []
    maxw = min(16, max(1, len(jobs)))
    with cf.ThreadPoolExecutor(max_workers=maxw) as ex:
        futs = [ex.submit(run_shard, bins[(l["module"], l["race"])], l["test"], 1 if l["fixed"] else n, sd, outp,
                          l["timeout_s"], l["env"], rundir, a.tier) for (l, n, sd, outp) in jobs]
        for f, (l, n, sd, outp) in zip(futs, jobs):
            r = f.result()
            r["leg"] = l
            r["requested"] = n
            results.append(r)

    # ---- merge
    checks = {}
    hashes = {}
    requested_total = 0
    for r in results:
        requested_total += 0 if r["leg"]["fixed"] else r["requested"]
        data = None
        if os.path.exists(r["outpath"]):
            try:
                data = json.load(open(r["outpath"]))
            except Exception:
                data = None
        if data:
            for name, st in data.get("checks", {}).items():
                c = checks.setdefault(name, dict(evaluations=0, nontrivial=0, labels={}, samples=[], extra={}))
                c["evaluations"] += st.get("evaluations", 0)
                c["nontrivial"] += st.get("nontrivial", 0)
                for k, v in (st.get("labels") or {}).items():
                    c["labels"][k] = c["labels"].get(k, 0) + v
                for k, v in (st.get("extra") or {}).items():
                    c["extra"][k] = c["extra"].get(k, 0) + v
                if len(c["samples"]) < 6:
                    c["samples"].extend((st.get("samples") or [])[: 6 - len(c["samples"])])
            for name, hs in (data.get("hashes") or {}).items():
                hashes.setdefault(name, set()).update(hs)
            for fr in data.get("failures") or []:
                violations.append(save_failure(prop, fr))
        failed_recorded = bool(data and data.get("failures"))
        if r["rc"] != 0 and not failed_recorded:
            pend = r["outpath"] + ".pending"
            if r["rc"] == -9:
                inconclusive.append(f"shard {r['test']} seed={r['seed']} timed out after {r['wall']:.0f}s")
                log(r["out"][-2000:])
            elif os.path.exists(pend):
                fr = json.load(open(pend))
                tmp = os.path.join(workdir, "pending-replay.json")
                json.dump(fr, open(tmp, "w"))
                ok = 0
                last = None
                for _ in range(2):
                    last = replay_one(bins[(r["leg"]["module"], r["leg"]["race"])], tmp, rundir, r["leg"]["env"])
                    if last["status"] == "fail":
                        ok += 1
                if ok == 2:
                    fr["sig"] = "crash:" + crash_sig(last["out"] or r["out"])
                    fr["msg"] = (last["out"] or r["out"])[-3000:]
                    violations.append(save_failure(prop, fr))
                else:
                    inconclusive.append(f"shard {r['test']} seed={r['seed']} died (rc={r['rc']}) and the pending case does not reproduce")
                    log(r["out"][-3000:])
            else:
                inconclusive.append(f"shard {r['test']} seed={r['seed']} exited rc={r['rc']} without a recorded failure")
                log(r["out"][-3000:])

    # ---- native fuzzing (thorough tier only): coverage-guided search with the same oracles
    fuzz_cov = {}
    if a.tier == "thorough" and not a.only:
        for fz in spec.get("fuzz", []):
            secs = max(10, int(fz["seconds"] * a.scale))
            fr = run_fuzz(fz["module"], fz["target"], secs, workdir, a.tier)
            log(f"[fuzz] {fz['target']}: {fr['execs']} executions in {secs}s, corpus {fr['interesting']}, rc={fr['rc']}")
            fuzz_cov[fz["target"]] = {"executions": fr["execs"], "corpus_entries_with_new_coverage": fr["interesting"], "budget_s": secs}
            for fp in fr["fails"]:
                violations.append(save_failure(prop, json.load(open(fp))))
            if fr["rc"] != 0 and not fr["fails"]:
                b = bins.get((fz["module"], False)) or build(fz["module"], False, workdir)
                confirmed = False
                for pp in fr["pendings"]:
                    rec = json.load(open(pp))
                    tmp = os.path.join(workdir, "fuzz-pending-replay.json")
                    json.dump(rec, open(tmp, "w"))
                    rr = [replay_one(b, tmp, rundir) for _ in range(2)]
                    if all(x["status"] == "fail" for x in rr):
                        rec["sig"] = "crash:" + crash_sig(rr[-1]["out"])
                        rec["msg"] = rr[-1]["out"][-3000:]
                        violations.append(save_failure(prop, rec))
                        confirmed = True
                if not confirmed:
                    inconclusive.append(f"fuzz target {fz['target']} exited rc={fr['rc']} without a reproducible failing input")
                    log(fr["out"][-3000:])

    evaluations = sum(c["evaluations"] for c in checks.values())
    distinct = sum(len(h) for h in hashes.values())
    for name, c in checks.items():
        c["distinct_nontrivial"] = len(hashes.get(name, ()))
    samples = []
    for name in sorted(checks):
        for s in checks[name]["samples"][:3]:
            samples.append({"check": name, "case": s})
    for name in checks:
        checks[name].pop("samples", None)
    skipped = sum((c.get("extra") or c.get("Extra") or {}).get("inconclusive:harness-resource", 0) for c in checks.values())
    if skipped > max(10, 0.02 * evaluations) and not violations:
        inconclusive.append(f"{skipped} cases could not be executed for lack of a harness resource (ports / file descriptors)")
    if evaluations and requested_total and evaluations < 0.5 * requested_total and not violations:
        inconclusive.append(f"only {evaluations} of {requested_total} requested cases were executed")

    # de-duplicate violations by signature
    seen = set()
    uniq = []
    for v in violations:
        if v[0] in seen:
            continue
        seen.add(v[0])
        uniq.append(v)
    violations = uniq

    ev = {
        "property_id": prop,
        "tier": a.tier,
        "seed": base_seed,
        "level": spec["level"],
        "coverage": {
            "evaluations": evaluations,
            "distinct_nontrivial": distinct,
            "rule": spec["rule"],
            "samples": samples,
            "requested_cases": requested_total,
            "replayed_inputs": replayed,
            "per_check": checks,
            "exhaustive": bool(spec.get("exhaustive_subspace")) and False,
        },
        "assumptions": spec.get("assumptions", []),
        "wall_s": round(time.time() - t_start, 2),
        "violations": len(violations),
        "known_findings_reported": len(known_lines),
        "inconclusive": inconclusive,
    }
    for k, v in (spec.get("coverage_extra") or {}).items():
        ev["coverage"][k] = v
    if fuzz_cov:
        ev["coverage"]["native_fuzz"] = fuzz_cov
    os.makedirs(os.path.join(VERIF, "evidence"), exist_ok=True)
    tmp = os.path.join(VERIF, "evidence", f".{prop}.json.tmp{os.getpid()}")
    json.dump(ev, open(tmp, "w"), indent=1, ensure_ascii=True)
    os.replace(tmp, os.path.join(VERIF, "evidence", f"{prop}.json"))

    for line in known_lines:
        log(line)
    lab = {n: dict(sorted(c["labels"].items())) for n, c in checks.items()}
    log(f"[{prop}] tier={a.tier} seed={base_seed} evaluations={evaluations} distinct_nontrivial={distinct} wall={time.time()-t_start:.1f}s")
    for n in sorted(lab):
        log(f"   {n}: eval={checks[n]['evaluations']} nontrivial={checks[n]['nontrivial']} distinct={checks[n]['distinct_nontrivial']} labels={lab[n]} {checks[n]['extra'] or ''}")
    if violations:
        for sig, path, msg in violations:
            log(f"--- violation sig={sig}\n{msg[:3000]}")
            log(f"VIOLATION property={prop} replay={path}")
        return 1
    if inconclusive:
        for i in inconclusive:
            log(f"INCONCLUSIVE property={prop} reason={i}")
        return 2
    return 0


def crash_sig(out):
    for line in out.splitlines():
        line = line.strip()
        if line.startswith("panic:") or line.startswith("fatal error:"):
            return line[:120]
        if line.startswith("WARNING: DATA RACE"):
            return "data race"
    return "unknown"


def save_failure(prop, fr):
    d = os.path.join(VERIF, "replay", prop, "found")
    os.makedirs(d, exist_ok=True)
    h = hashlib.sha256(json.dumps(fr.get("case"), sort_keys=True).encode()).hexdigest()[:12]
    path = os.path.join(d, f"{fr['check'].replace('/', '_')}-{h}.json")
    json.dump(fr, open(path, "w"), indent=1)
    return (fr.get("sig", "?"), path, f"[{fr['check']}] {fr.get('sig')}: {fr.get('msg','')}")


if __name__ == "__main__":
    sys.exit(main())
