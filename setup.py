#!/usr/bin/env python3
"""Offline setup: warm the Go build cache by compiling every harness module once
(plain and -race). Nothing is fetched; all modules resolve from the module cache
and from /repo through replace directives."""
import os, subprocess, sys, tempfile, shutil
VERIF = os.path.dirname(os.path.abspath(__file__))
sys.path.insert(0, VERIF)
from checks import CHECKS, GOENV
env = dict(os.environ); env.update(GOENV)
combos = sorted({(l["module"], l["race"]) for c in CHECKS.values() for l in c["legs"]})
tmp = tempfile.mkdtemp(prefix="verif-setup-", dir=os.path.join(VERIF, "build") if os.path.isdir(os.path.join(VERIF, "build")) else None)
rc = 0
try:
    for mod, race in combos:
        cmd = ["go", "test", "-c", "-tags", "verif", "-o", os.path.join(tmp, f"{mod}.test")] + (["-race"] if race else []) + ["."]
        p = subprocess.run(cmd, cwd=os.path.join(VERIF, "h", mod), env=env)
        print("setup:", mod, "race" if race else "", "rc", p.returncode, flush=True)
        rc |= p.returncode
finally:
    shutil.rmtree(tmp, ignore_errors=True)
sys.exit(1 if rc else 0)
