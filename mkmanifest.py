#!/usr/bin/env python3
"""Render MANIFEST.json from checks.py (single source of truth)."""
import json, os, sys
VERIF = os.path.dirname(os.path.abspath(__file__))
sys.path.insert(0, VERIF)
from checks import CHECKS, NOT_APPLICABLE, HOOK_COMMITS  # noqa

baseline = ("cd /repo && for m in . lib/go; do (cd /repo/$m && GOFLAGS=-mod=mod GOPROXY=off GOSUMDB=off "
            "go test -json -vet=off -count=1 -timeout 25m ./...); done")
m = {
    "version": 1,
    "setup_cmd": "python3 /verif/setup.py",
    "hooks": {
        "guard": "verif",
        "enable": "go build tag: the harness modules under /verif/h build /repo/lib/go with `-tags verif` (files lib/go/verif_hooks_on.go / verif_hooks_off.go)",
        "baseline_off_cmd": baseline,
        "source_commits": HOOK_COMMITS,
        "add_only": True,
    },
    "engines": [
        {"name": "rt", "path": "h/rt", "kind_free_text": "Go harness module linked against /repo/lib/go (-tags verif): rapid properties, scripted transports, in-process NATS/STOMP/HTTP brokers, reference codecs", "serves_properties": sorted(p for p, c in CHECKS.items() if any(l["module"] == "rt" for l in c["legs"]))},
        {"name": "idl", "path": "h/idl", "kind_free_text": "Go harness module linked against /repo (compiler): IDL model generators, renderer, editors; drives compiler.Compile / parser in-process and the CLI", "serves_properties": sorted(p for p, c in CHECKS.items() if any(l["module"] == "idl" for l in c["legs"]))},
        {"name": "driver", "path": "run.py", "kind_free_text": "builds from /repo's working tree, shards by seed, merges evidence, maps outcomes to exit codes", "serves_properties": sorted(CHECKS)},
    ],
    "checks": [],
    "not_applicable": NOT_APPLICABLE,
    "notes": "All checks: `python3 run.py <id> --tier quick|thorough`; VERIF_SEED honoured; exit 0 held / 1 violation / 2 inconclusive. Known findings: known_findings.json.",
}
for pid in sorted(CHECKS):
    c = CHECKS[pid]
    m["checks"].append({
        "property_id": pid,
        "quick_cmd": f"python3 run.py {pid} --tier quick",
        "thorough_cmd": f"python3 run.py {pid} --tier thorough",
        "evidence_file": f"/verif/evidence/{pid}.json",
        "replay_cmd_template": f"python3 run.py {pid} --replay {{path}}",
        "engine": ",".join(sorted({l["module"] for l in c["legs"]})),
        "level_claimed": {"category": c["level"], "text": c["level_text"], "design_ref": c.get("design_ref", "")},
        "level_note": c["level_note"],
        "technique": c["technique"],
    })
json.dump(m, open(os.path.join(VERIF, "MANIFEST.json"), "w"), indent=1)
print("MANIFEST.json written:", len(m["checks"]), "checks,", len(NOT_APPLICABLE), "not applicable")
