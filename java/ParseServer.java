import java.io.*;
import java.nio.file.*;
import java.util.*;
import java.util.stream.*;
import javax.tools.*;
import com.sun.source.util.JavacTask;

/** Line server: reads a directory path per line, parses every .java file below it with
 *  javac's parser only (no attribution, no classpath needed) and answers
 *  "<number of files>|<number of errors>|<first error>". */
public class ParseServer {
    public static void main(String[] args) throws Exception {
        JavaCompiler compiler = ToolProvider.getSystemJavaCompiler();
        BufferedReader in = new BufferedReader(new InputStreamReader(System.in));
        PrintStream out = new PrintStream(new FileOutputStream(FileDescriptor.out), true, "UTF-8");
        String line;
        while ((line = in.readLine()) != null) {
            try {
                List<File> files;
                try (Stream<Path> s = Files.walk(Paths.get(line))) {
                    files = s.filter(p -> p.toString().endsWith(".java")).map(Path::toFile).collect(Collectors.toList());
                }
                if (files.isEmpty()) { out.println("0|0|"); continue; }
                DiagnosticCollector<JavaFileObject> diags = new DiagnosticCollector<>();
                StandardJavaFileManager fm = compiler.getStandardFileManager(diags, null, null);
                JavacTask task = (JavacTask) compiler.getTask(null, fm, diags, Arrays.asList("-proc:none"), null, fm.getJavaFileObjectsFromFiles(files));
                task.parse();
                int errors = 0; String first = "";
                for (Diagnostic<? extends JavaFileObject> d : diags.getDiagnostics()) {
                    if (d.getKind() == Diagnostic.Kind.ERROR) {
                        if (errors == 0) {
                            String src = d.getSource() == null ? "?" : d.getSource().getName();
                            first = src + ":" + d.getLineNumber() + ": " + d.getMessage(Locale.ROOT).replace('\n', ' ');
                        }
                        errors++;
                    }
                }
                fm.close();
                out.println(files.size() + "|" + errors + "|" + first);
            } catch (Throwable t) {
                out.println("-1|1|server error: " + t);
            }
        }
    }
}
